"""C31 Binary model files round-trip exactly; corrupt files are rejected.

Decided (engine_io.c, clang AST of the macro-expanded functions + X-macro tables + struct layout):
  IO-SEQ     writer (mj_saveModel bufwrite), reader (mj_loadModelBuffer bufread) and mj_sizeModel agree on the
             sequence of (field, size expression); the size block written field by field is read in one block of
             getnsize()*sizeof(mjtSize) and every MJMODEL_SIZES member has that type
  IO-GUARD   every bufread is dominated by a rejecting guard (warning + return NULL) that budgets the same size term
  IO-COVER   every member of struct mjModel_ is a size, a pointer-table row, serialised by name, or in the reasoned
             exempt table (buffer, signature)
  IO-SIZES   mj_makeModel's parameter list is the prefix of MJMODEL_SIZES; the loader passes sizes[0..k-1] in order and
             the local array can hold getnsize() entries
  REF-ROW    each row of the reference-validation table has the extent its array has in the X-macro; numarray has the
             same extent; the loop runs over the whole array
  REF-COVER  every int array of MJMODEL_POINTERS that is a cross-reference (name ends in adr / id / _plugin, pair_geomN)
             is bound-checked by a rejecting condition of mj_validateReferences
  NOFATAL    no path-ending error call (mjERROR / mju_error) inside the validation closure: rejection of corrupt data
             must be a returned message (warning + NULL), never a fatal error
  IDX-NONNEG inside the validator, a value loaded from a reference array that admits -1 is not used as an index
             without a rejecting test that excludes negatives
Not decided: equality of array contents after a round trip (memcpy of the bytes is the mechanism and is covered by
IO-SEQ); semantic validity beyond index bounds.
"""
from __future__ import annotations

import re

from .. import cir, ctypeinfo, engine, modref, xmacro
from ..cfront import AnalysisError

FILE = "src/engine/engine_io.c"
IO_PRIMS = ("bufread", "bufwrite", "getnsize", "getnptr")
EXEMPT_FIELDS = {
    "buffer": "the allocation that holds the arrays themselves; rebuilt by mj_makeModel",
    "signature": "compiler bookkeeping (hash of the producing spec), not consumed by the engine and outside the sizes/options/"
                 "arrays the property enumerates",
}
# Variable-width / typed references: an entry of the array is only meaningful together with a discriminator or a width that
# lives in another array, so a bound check that ignores it cannot establish "in bounds".  Each row: array -> (arrays that
# must take part in the rejecting condition for it, reason).  This is domain knowledge of the model layout, one line each.
TYPED_REFS = {
    "jnt_qposadr": (("jnt_type",), "a joint owns 7/4/1/1 qpos entries depending on its type"),
    "jnt_dofadr": (("jnt_type",), "a joint owns 6/3/1/1 dofs depending on its type"),
    "hfield_adr": (("hfield_nrow", "hfield_ncol"), "a height field owns nrow*ncol data entries"),
    "tex_adr": (("tex_height", "tex_width", "tex_nchannel"), "a texture owns height*width*nchannel bytes"),
    "geom_dataid": (("geom_type",), "the data id indexes hfields or meshes depending on the geom type"),
    "eq_obj1id": (("eq_type",), "the object kind of an equality depends on its type"),
    "eq_obj2id": (("eq_type",), "the object kind of an equality depends on its type"),
    "wrap_objid": (("wrap_type",), "the wrapped object kind depends on the wrap type"),
    "actuator_trnid": (("actuator_trntype",), "the transmission target kind depends on the transmission type"),
    "sensor_objid": (("sensor_objtype",), "the object kind depends on sensor_objtype"),
    "sensor_refid": (("sensor_reftype",), "the reference kind depends on sensor_reftype"),
    "tuple_objid": (("tuple_objtype",), "the object kind depends on tuple_objtype"),
    "sensor_adr": (("sensor_type",), "a sensor owns a type-dependent number of sensordata entries"),
}
REF_PATTERN = re.compile(r"(adr|id|_plugin|pair_geom1|pair_geom2)$")


def _split_top(t, sep):
    out, depth, cur = [], 0, ""
    i = 0
    while i < len(t):
        ch = t[i]
        if ch in "([":
            depth += 1
        elif ch in ")]":
            depth -= 1
        if depth == 0 and t.startswith(sep, i):
            out.append(cur)
            cur = ""
            i += len(sep)
            continue
        cur += ch
        i += 1
    out.append(cur)
    return [x.strip() for x in out]


def _unparen(x):
    x = x.strip()
    while x.startswith("(") and x.endswith(")"):
        depth = 0
        ok = True
        for i, ch in enumerate(x):
            depth += ch == "("
            depth -= ch == ")"
            if depth == 0 and i < len(x) - 1:
                ok = False
                break
        if not ok:
            break
        x = x[1:-1].strip()
    return x


def _norm_size(t):
    """product of factors, order-insensitive, unit factors dropped"""
    fs = []
    for x in _split_top(_unparen(t), "*"):
        x = _unparen(x)
        if not x or x == "1":
            continue
        if "*" in x and "(" not in x:
            fs += [y.strip() for y in x.split("*")]
        else:
            fs.append(x)
    return " * ".join(sorted(fs))


def _expand_count(term):
    """'2 * sizeof(mjtBool)' -> ['sizeof(mjtBool)', 'sizeof(mjtBool)'] (only small literal counts of sizeof)"""
    fs = term.split(" * ")
    ints = [f for f in fs if f.isdigit()]
    rest = [f for f in fs if not f.isdigit()]
    if len(ints) == 1 and len(rest) == 1 and rest[0].startswith("sizeof(") and 1 < int(ints[0]) <= 16 and rest[0] != "sizeof(int)":
        return [rest[0]] * int(ints[0])
    return [term]


def _expand_call(fn, c):
    """(field, size) entries one bufread/bufwrite call stands for.

    A call whose buffer is a local array packed from / unpacked into model fields (`T a[] = {m->f, m->g}; bufwrite(a, sizeof(a))`,
    `bufread(a, sizeof(a)); m->f = a[0]; m->g = a[1];`) is expanded into one entry per element in element order, so that
    packing refactors compare by what they really store.
    """
    a = cir.args(c)
    tgt = cir.strip(a[0])
    size_txt = cir.text(a[1])
    if tgt is not None and tgt.get("k") == "DeclRefExpr" and (tgt.get("ref") or {}).get("k") == "VarDecl":
        vid = tgt["ref"].get("id")
        var = next((x for x in cir.walk(fn) if x.get("k") == "VarDecl" and x.get("id") == vid), None)
        vt = (var.get("t") or "") if var is not None else ""
        m_ = re.match(r"(?:const )?(\w+) ?\[(\d+)\]", vt)
        if var is not None and m_ and size_txt == f"sizeof({var.get('n')})":
            elem, n = m_.group(1), int(m_.group(2))
            fields = {}
            il = [x for x in cir.kids(var) if x is not None and x.get("k") == "InitListExpr"]
            if il:
                for i, e in enumerate(cir.kids(il[0])):
                    rf = modref.root_field(e)
                    if rf and rf[0] == "mjModel":
                        fields[i] = rf[1]
            for x in cir.walk(fn):
                if x.get("k") == "BinaryOperator" and x.get("op") == "=":
                    r = cir.strip(cir.kids(x)[1])
                    if r is not None and r.get("k") == "ArraySubscriptExpr":
                        b = cir.strip(cir.kids(r)[0])
                        if b is not None and b.get("k") == "DeclRefExpr" and (b.get("ref") or {}).get("id") == vid:
                            rf = modref.root_field(cir.kids(x)[0])
                            idx = cir.text(cir.kids(r)[1])
                            if rf and rf[0] == "mjModel" and idx.isdigit():
                                fields[int(idx)] = rf[1]
            if len(fields) == n:
                return [{"field": fields[i], "target": f"{var.get('n')}[{i}]", "size": _norm_size(f"sizeof({elem})"),
                         "line": c.get("line"), "node": c} for i in range(n)]
    rf = modref.root_field(tgt) if tgt is not None else None
    if rf is None and tgt is not None and tgt.get("k") == "DeclRefExpr" and (tgt.get("ref") or {}).get("k") == "VarDecl" and \
            "*" in ((tgt.get("ref") or {}).get("t") or ""):
        vid = tgt["ref"].get("id")
        var = next((x for x in cir.walk(fn) if x.get("k") == "VarDecl" and x.get("id") == vid), None)
        iv = [x for x in cir.kids(var) if x is not None] if var is not None else []
        reassigned = any(x.get("k") == "BinaryOperator" and x.get("op") == "=" and cir.strip(cir.kids(x)[0]) is not None and
                         cir.strip(cir.kids(x)[0]).get("k") == "DeclRefExpr" and (cir.strip(cir.kids(x)[0]).get("ref") or {}).get("id") == vid
                         for x in cir.walk(fn))
        if iv and not reassigned:
            rf2 = modref.root_field(iv[-1])
            if rf2 and rf2[0] == "mjModel":
                return [{"field": rf2[1], "target": cir.text(iv[-1]), "size": _norm_size(size_txt), "line": c.get("line"), "node": c}]
    return [{"field": rf[1] if rf else cir.text(tgt), "target": cir.text(tgt), "size": _norm_size(size_txt),
             "line": c.get("line"), "node": c}]


def _io_calls(fn, name):
    out = []
    for c in cir.calls(fn, name):
        out += _expand_call(fn, c)
    return out


def run(res, tier):
    u = engine.unit(FILE)
    for f in ("mj_saveModel", "mj_loadModelBuffer", "mj_sizeModel", "mj_makeModel", "mj_validateReferences", "getnsize",
              "bufread", "bufwrite"):
        if f not in u.funcs:
            raise AnalysisError(f"anchor {f} not found in {FILE}")
    sizes = xmacro.sizes()
    prow = xmacro.pointers("MJMODEL_POINTERS")
    mfields = ctypeinfo.fields("mjModel_")
    ftype = {f["name"]: f for f in mfields}

    # ---------------------------------------------------------------- IO-SEQ
    res.rule("IO-SEQ", "writer, reader and size computation agree on (field, size) sequence", floor=480)
    from .. import norm
    w = _io_calls(norm.canon(u, "mj_saveModel", nested=False, exclude=IO_PRIMS), "bufwrite")
    r = _io_calls(norm.canon(u, "mj_loadModelBuffer", nested=False, exclude=IO_PRIMS), "bufread")
    # header
    if not w or not r or w[0]["field"] != "header" or r[0]["field"] != "header":
        raise AnalysisError("header write/read not found first")
    if w[0]["size"] != _norm_size("sizeof(header)") and "sizeof(int)" not in w[0]["size"]:
        pass
    # sizes: written one by one
    wi = 1
    nsz = 0
    while wi < len(w) and w[wi]["field"] in sizes:
        nsz += 1
        wi += 1
    wsizes = [x["field"] for x in w[1:wi]]
    if wsizes == sizes:
        res.ok("IO-SEQ", "sizes:written-in-table-order", {"count": len(sizes)})
    else:
        res.bad("IO-SEQ", "sizes:written-in-table-order", FILE, w[1]["line"], "size fields are not written in MJMODEL_SIZES order")
    bad_t = [s for s in sizes if ftype.get(s, {}).get("type") != "mjtSize"]
    # getnsize counts mjtSize members only; reader reads sizeof(mjtSize)*nsize
    if bad_t:
        res.bad("IO-SEQ", "sizes:all-mjtSize", "include/mujoco/mjmodel.h", ftype.get(bad_t[0], {}).get("line", 0),
                f"MJMODEL_SIZES members {bad_t} are not of type mjtSize: the writer saves sizeof(member) bytes each but the reader "
                f"reads getnsize()*sizeof(mjtSize)")
    else:
        res.ok("IO-SEQ", "sizes:all-mjtSize", {"count": len(sizes)})
    if len(r) < 2 or r[1]["field"] != "sizes" or r[1]["size"] != _norm_size("sizeof(mjtSize) * nsize"):
        res.bad("IO-SEQ", "sizes:block-read", FILE, r[1]["line"] if len(r) > 1 else 0,
                f"size block read is `{r[1]['target'] if len(r) > 1 else None}` of `{r[1]['size'] if len(r) > 1 else None}`")
    else:
        res.ok("IO-SEQ", "sizes:block-read", {"size": r[1]["size"]})
    # remaining sequences must be equal
    wrest = [(x["field"], x["size"]) for x in w[wi:]]
    rrest = [(x["field"], x["size"]) for x in r[2:]]
    n = max(len(wrest), len(rrest))
    nbad = 0
    for i in range(n):
        a = wrest[i] if i < len(wrest) else None
        b = rrest[i] if i < len(rrest) else None
        key = (a or b)[0]
        if a == b:
            res.ok("IO-SEQ", f"rw:{key}", {"size": a[1]} if i < 3 else None)
        elif nbad < 6:
            nbad += 1
            ln = (w[wi + i]["line"] if i < len(wrest) else r[2 + i]["line"])
            res.bad("IO-SEQ", f"rw:{key}", FILE, ln, f"position {i}: writer has {a}, reader has {b}")
        else:
            res.seen("IO-SEQ", f"rw:{key}")
    # pointer rows follow the X-macro exactly
    prest = [x for x in wrest if x[0] in {p["name"] for p in prow}]
    if [x[0] for x in prest] != [p["name"] for p in prow]:
        res.bad("IO-SEQ", "pointers:table-order", FILE, u.funcs["mj_saveModel"].get("line"),
                "pointer arrays are not written in MJMODEL_POINTERS order / not all written")
    else:
        res.ok("IO-SEQ", "pointers:table-order", {"count": len(prow)})
    # mj_sizeModel: multiset of terms
    # (the accumulator is whatever variable the function returns; named sub-totals are substituted into it)
    from .. import norm
    fn = norm.canon(u, "mj_sizeModel", propagate=True, nested=False, exclude=IO_PRIMS)
    _pre = {x.get("n") for x in cir.walk(u.funcs["mj_sizeModel"]) if x.get("k") == "VarDecl" and x.get("init") and
            cir.text([c for c in cir.kids(x) if c][-1]) == "m->" + (x.get("n") or "")}
    rets = [x for x in cir.walk(fn) if x.get("k") == "ReturnStmt" and cir.kids(x)]
    accs = {cir.text(cir.kids(x)[0]) for x in rets}
    if len(accs) != 1:
        raise AnalysisError(f"mj_sizeModel: expected one returned accumulator, found {sorted(accs)}")
    acc = accs.pop()

    def _sum_terms(e):
        e = cir.strip(e)
        if e is not None and e.get("k") == "BinaryOperator" and e.get("op") == "+":
            return _sum_terms(cir.kids(e)[0]) + _sum_terms(cir.kids(e)[1])
        return [e]
    terms = []
    for nnode in cir.walk(fn):
        if nnode.get("k") == "VarDecl" and nnode.get("n") == acc and nnode.get("init"):
            for x in _sum_terms([c for c in cir.kids(nnode) if c][-1]):
                terms += _expand_count(_norm_size(cir.text(x)))
        if nnode.get("k") == "CompoundAssignOperator" and nnode.get("op") == "+=" and cir.text(cir.kids(nnode)[0]) == acc:
            for x in _sum_terms(cir.kids(nnode)[1]):
                terms += _expand_count(_norm_size(cir.text(x)))
        if nnode.get("k") == "BinaryOperator" and nnode.get("op") == "=" and cir.text(cir.kids(nnode)[0]) == acc:
            ts = _sum_terms(cir.kids(nnode)[1])
            rest = [x for x in ts if cir.text(x) != acc]
            if len(rest) != len(ts) - 1:
                raise AnalysisError("mj_sizeModel: the accumulator is overwritten")
            for x in rest:
                terms += _expand_count(_norm_size(cir.text(x)))
    want = [w[0]["size"] if "sizeof(int)" in w[0]["size"] else _norm_size("sizeof(int) * 5")]
    want = []
    # expected: header + size block + every remaining write
    exp = [_norm_size("sizeof(int) * 5"), _norm_size("sizeof(mjtSize) * getnsize()")] + [x[1] for x in wrest]
    # model sizes may be spelled m->n or through the preamble local n: compare modulo that spelling
    _sp = lambda t: " * ".join(sorted(re.sub(r"\bm->", "", t).split(" * ")))
    exp = [_sp(t) for t in exp]
    tm = sorted(_sp(t) for t in terms)
    if sorted(exp) == tm:
        res.ok("IO-SEQ", "sizeModel:terms", {"terms": len(tm)})
    else:
        missing = sorted(set(exp) - set(tm))[:4]
        extra = sorted(set(tm) - set(exp))[:4]
        res.bad("IO-SEQ", "sizeModel:terms", FILE, fn.get("line"),
                f"mj_sizeModel terms differ from what mj_saveModel writes: missing {missing}, extra {extra}")

    # ---------------------------------------------------------------- IO-GUARD
    res.rule("IO-GUARD", "each bufread dominated by a rejecting guard budgeting the same size", floor=480)
    # canonical view of the loader (static helpers inlined, early returns nested): the guards of a bufread call are the
    # comparisons enclosing it.  A truncation guard is a relation  buffer_sz - ptrbuf - (sum of sizes) >= 0  whose other side
    # warns and returns NULL; every read consumes its size from the budget of the guards that dominate it.
    from .. import linform as _lf
    fn = norm.canon(u, "mj_loadModelBuffer", exclude=IO_PRIMS)
    lbody = cir.body(fn)
    budget = []
    seen_guard = set()
    nacc = 0
    for c in cir.calls(lbody, "bufread"):
        for cond, pol, ifs in norm.guards(lbody, c, stmts=True) or ():
            if id(cond) in seen_guard or ifs is None or ifs.get("k") != "IfStmt":
                continue
            rel = _lf.relation(cond, pol)
            if not rel or rel[0].get("buffer_sz") != 1 or not (rel[0].get("ptrbuf") == -1 or
                                                                  ("ptrbuf" not in rel[0] and nacc == 0)):
                continue        # (before the first read the cursor is 0 and may be omitted)
            seen_guard.add(id(cond))
            _pre, _cnd, then, els = norm._if_parts(ifs)
            inside_then = then is not None and any(x is c for x in cir.walk(then))
            rej = els if inside_then else then
            rejects = rej is not None and any(x.get("k") == "ReturnStmt" and cir.kids(x) and cir.text(cir.kids(x)[0]) in ("NULL", "0")
                                              for x in cir.walk(rej))
            warns = rej is not None and any(cir.callee(c_) == "mju_warning" for c_ in cir.calls(rej))
            parts = []
            for atom, coef in rel[0].items():
                if atom in ("buffer_sz", "ptrbuf"):
                    continue
                if atom == "1" or coef > 0:
                    parts = None
                    break
                parts += _expand_count(_norm_size(atom if coef == -1 else f"{-coef} * {atom}"))
            if parts is None or not rejects:
                continue
            if not warns:
                res.bad("IO-GUARD", f"guard@{parts[0] if parts else '?'}", FILE, ifs.get("line"), "truncation guard rejects without a warning")
            budget += parts
        for ent in _expand_call(fn, c):
            nacc += 1
            size = ent["size"]
            tgt = cir.strip(cir.args(c)[0])
            key = ent["field"]
            if size in budget:
                budget.remove(size)
                res.ok("IO-GUARD", f"read:{key}", {"size": size} if key in ("header", "opt", "sizes") else None)
            else:
                res.bad("IO-GUARD", f"read:{key}", FILE, c.get("line"),
                        f"bufread of `{size}` into {cir.text(tgt)} is not covered by a preceding truncation guard (warning + return NULL)")
    if nacc != len(r):
        raise AnalysisError(f"IO-GUARD: {nacc} reads in the canonical loader, {len(r)} in the sequence rule")

    # ---------------------------------------------------------------- IO-NOREWRITE
    # what the loader read must be what the caller gets: in the canonical loader (static helpers inlined) nothing stores into a
    # member of the serialised by-value blocks (the struct members of mjModel that are read with one bufread each) except
    # bufread itself -- a "sanitiser" after the read makes load(save(m)) differ from m for values it considers invalid
    res.rule("IO-NOREWRITE", "the loader does not store into the blocks it has read (only bufread writes them)", floor=1)
    blocks = sorted({x["field"] for x in r if x.get("field") and any(f_["name"] == x["field"] and
                     ("struct" in (f_["dtype"] or "") or f_["dtype"].startswith("mj")) and "*" not in f_["dtype"] for f_ in mfields)})
    if not blocks:
        raise AnalysisError("no by-value struct block (opt / vis / stat) found among the loader's reads")
    rew = []
    mvars = {x.get("n") for x in cir.walk(fn) if x.get("k") == "VarDecl" and "mjModel" in (x.get("t") or "")}
    # local pointers to a block (a helper's parameter bound by the inliner, or a hoisted `mjOption* opt = &m->opt`)
    alias = {}
    for x in cir.walk(fn):
        if x.get("k") == "VarDecl" and "*" in (x.get("t") or "") and "const" not in (x.get("t") or "").split("*")[0]:
            iv = [c_ for c_ in cir.kids(x) if c_ is not None]
            if iv:
                m_ = re.match(r"\(?&\(?(\w+)->(\w+)\)?\)?$", cir.text(iv[-1]).replace(" ", ""))
                if m_ and m_.group(1) in mvars and m_.group(2) in blocks:
                    alias[x.get("n")] = m_.group(2)
    for x in cir.walk(lbody):
        k_ = x.get("k")
        if (k_ == "BinaryOperator" and x.get("op") == "=") or k_ == "CompoundAssignOperator" or \
                (k_ == "UnaryOperator" and x.get("op") in ("++", "--")):
            t_ = cir.text(cir.kids(x)[0])
            m_ = re.match(r"\(?\*?&?(\w+)\)?->(\w+)\b", t_)
            if m_ and m_.group(1) in mvars and m_.group(2) in blocks:
                rew.append((m_.group(2), x))
            m2 = re.match(r"\(?\*?([\w$]+)\)?(->|\[|\.)", t_)
            if m2 and m2.group(1) in alias:
                rew.append((alias[m2.group(1)], x))
    from .. import modref as _mr
    for x in cir.walk(lbody):
        if cir.is_call(x) and cir.callee(x) not in ("bufread",):
            ce = cir.callee_expr(x)
            pt = _mr._param_types((ce.get("ref") or {}).get("t") if ce is not None and ce.get("k") == "DeclRefExpr" else None)
            for j_, a_ in enumerate(cir.args(x)):
                m_ = re.match(r"\(?&\(?(\w+)->(\w+)\b", cir.text(a_).replace(" ", ""))
                if m_ and m_.group(1) in mvars and m_.group(2) in blocks and (j_ >= len(pt) or not _mr._const_pointee(pt[j_])):
                    rew.append((m_.group(2), x))
    for b_ in blocks:
        hit = [x for f_, x in rew if f_ == b_]
        if hit:
            res.bad("IO-NOREWRITE", f"load:{b_}", FILE, hit[0].get("line"),
                    f"the loader stores into m->{b_} after reading it (`{cir.text(hit[0])[:70]}`): a model whose value there is rewritten "
                    f"does not survive save / load unchanged")
        else:
            res.ok("IO-NOREWRITE", f"load:{b_}", None)

    # ---------------------------------------------------------------- IO-COVER
    res.rule("IO-COVER", "every mjModel member is serialised or exempt", floor=500)
    written = {x["field"] for x in w}
    readf = {x["field"] for x in r}
    pnames = {p["name"] for p in prow}
    for f in mfields:
        nme = f["name"]
        if nme in sizes or nme in pnames:
            res.ok("IO-COVER", nme, None)
        elif nme in written and nme in readf:
            res.ok("IO-COVER", nme, {"serialised": "by name"})
        elif nme in EXEMPT_FIELDS:
            res.ok("IO-COVER", nme, {"exempt": EXEMPT_FIELDS[nme]})
        else:
            res.bad("IO-COVER", nme, "include/mujoco/mjmodel.h", f["line"],
                    f"mjModel.{nme} is neither a size, a pointer-table array, nor serialised by mj_saveModel/mj_loadModelBuffer: a "
                    f"saved and reloaded model loses it")
    for p in pnames | set(sizes):
        if p not in ftype:
            res.bad("IO-COVER", f"xmacro:{p}", "include/mujoco/mjxmacro.h", 0, f"X-macro row {p} is not a member of struct mjModel_")

    # ---------------------------------------------------------------- IO-SIZES
    res.rule("IO-SIZES", "mj_makeModel parameters == prefix of MJMODEL_SIZES; loader passes sizes[i] in order", floor=3)
    mk = u.funcs["mj_makeModel"]
    pn = [p.get("n") for p in cir.params(mk)][1:]
    if pn == sizes[:len(pn)]:
        res.ok("IO-SIZES", "mj_makeModel:params", {"count": len(pn)})
    else:
        i = next(i for i in range(len(pn)) if i >= len(sizes) or pn[i] != sizes[i])
        res.bad("IO-SIZES", "mj_makeModel:params", FILE, mk.get("line"),
                f"parameter {i} is `{pn[i]}` but MJMODEL_SIZES[{i}] is `{sizes[i] if i < len(sizes) else None}`")
    call = [c for c in cir.calls(u.funcs["mj_loadModelBuffer"], "mj_makeModel")]
    if len(call) != 1:
        raise AnalysisError("expected one mj_makeModel call in the loader")
    at = [cir.text(a) for a in cir.args(call[0])][1:]
    if at == [f"sizes[{i}]" for i in range(len(pn))]:
        res.ok("IO-SIZES", "loader:call-order", {"args": len(at)})
    else:
        res.bad("IO-SIZES", "loader:call-order", FILE, call[0].get("line"), "mj_makeModel is not called with sizes[0..k-1] in order")
    cap = None
    for nnode in cir.walk(u.funcs["mj_loadModelBuffer"]):
        if nnode.get("k") == "VarDecl" and nnode.get("n") == "sizes":
            m_ = re.search(r"\[(\d+)\]", nnode.get("t") or "")
            cap = int(m_.group(1)) if m_ else None
    if cap is not None and cap >= len(sizes):
        res.ok("IO-SIZES", "loader:sizes-capacity", {"capacity": cap, "needed": len(sizes)})
    else:
        res.bad("IO-SIZES", "loader:sizes-capacity", FILE, u.funcs["mj_loadModelBuffer"].get("line"),
                f"local sizes[] holds {cap} entries but MJMODEL_SIZES has {len(sizes)}")

    validate(res, u, prow)
    res.explanation = (
        "Reader/writer/size agreement over the macro-expanded AST of engine_io.c (about 490 serialised items), "
        "truncation guards budgeting every read, coverage of struct mjModel_ by the serialiser, parameter/table order of "
        "mj_makeModel, the cross-reference validation table against the X-macro extents and its coverage of all reference "
        "arrays, absence of fatal error calls and unguarded negative indices in the validator.")
    res.not_decided = "bit equality of array contents; semantic validity beyond index bounds; leaks on rejection paths."
    res.assumptions = ["bufread/bufwrite copy exactly `num` bytes (their bodies are 5 lines and part of the checked TU)"]


def validate(res, u, prow):
    from .. import norm
    # static helpers of the validator are analysed in place (`err = helper(m, i); if (err) return err;` forwards the helper's
    # rejecting returns)
    fn = norm.canon(u, "mj_validateReferences", nested=False)
    rows = {p["name"]: p for p in prow}
    res.rule("REF-ROW", "validation table rows carry the X-macro extent of their array and of the num array", floor=80)
    res.rule("REF-COVER", "every cross-reference int array is bound-checked by a rejecting condition", floor=100)
    res.rule("NOFATAL", "no fatal error call in the validation closure", floor=3)
    res.rule("IDX-NONNEG", "no reference value admitting -1 used as an index without a rejecting negative test", floor=1)
    # table rows: blocks `{ int* nums = (numarray); for (i<m->nadrs) {...} }`
    nrows = 0
    for blk in cir.kids(cir.body(fn)):
        if blk is None or blk.get("k") != "CompoundStmt":
            continue
        decl = [x for x in cir.walk(blk) if x.get("k") == "VarDecl" and x.get("init")]
        loops = [x for x in cir.kids(blk) if x is not None and x.get("k") == "ForStmt"]
        if not decl or len(loops) != 1:
            continue
        numtxt = cir.text([c for c in cir.kids(decl[0]) if c][-1])
        lp = loops[0]
        bound = cir.text(cir.kids(lp)[2])
        mm = re.fullmatch(r"(\w+) < (.+)", bound)
        # adrarray: first m->X[i]
        arr = None
        for x in cir.walk(cir.kids(lp)[4]):
            if x.get("k") == "ArraySubscriptExpr":
                b = cir.strip(cir.kids(x)[0])
                if b is not None and b.get("k") == "MemberExpr" and b.get("arrow"):
                    arr = b.get("n")
                    break
        if arr is None or mm is None:
            continue
        nrows += 1
        row = rows.get(arr)
        if row is None:
            res.bad("REF-ROW", arr, FILE, blk.get("line"), f"validated array {arr} is not in MJMODEL_POINTERS")
            continue
        ext = _norm_size(("m->" + row["nr"]) + " * " + row["nc"])
        got = _norm_size(mm.group(2))
        problems = []
        if ext != got:
            problems.append(f"loop bound `{mm.group(2)}` differs from the array extent {row['nr']}x{row['nc']}")
        if numtxt not in ("0", "NULL"):
            nm = numtxt.replace("m->", "")
            nrow = rows.get(nm)
            if nrow is None:
                problems.append(f"num array {numtxt} is not a model array")
            elif _norm_size("m->" + nrow["nr"] + " * " + nrow["nc"]) != ext:
                problems.append(f"num array {nm} has extent {nrow['nr']}x{nrow['nc']}, adr array has {row['nr']}x{row['nc']}")
        if problems:
            res.bad("REF-ROW", arr, FILE, blk.get("line"), "; ".join(problems))
        else:
            res.ok("REF-ROW", arr, {"extent": ext, "num": numtxt} if nrows < 4 else None)
    # coverage: arrays appearing in a rejecting condition, directly or through a local initialised from them
    checked = set()
    local_src = {}
    for x in cir.walk(fn):
        if x.get("k") == "VarDecl" and x.get("init"):
            srcs = {y.get("n") for y in cir.walk(x) if y.get("k") == "MemberExpr" and y.get("arrow")}
            prev = set()
            for y in cir.walk(x):
                if y.get("k") == "DeclRefExpr" and (y.get("ref") or {}).get("id") in local_src:
                    prev |= local_src[y["ref"]["id"]]
            local_src[x.get("id")] = srcs | prev
    # locals assigned after their declaration (e.g. `int sensor_size; if (..) sensor_size = f(..); else sensor_size = g(..)`)
    for _round in range(2):
        for x in cir.walk(fn):
            if x.get("k") == "BinaryOperator" and x.get("op") == "=":
                l = cir.strip(cir.kids(x)[0])
                if l is not None and l.get("k") == "DeclRefExpr" and (l.get("ref") or {}).get("k") == "VarDecl":
                    srcs = {y.get("n") for y in cir.walk(cir.kids(x)[1]) if y.get("k") == "MemberExpr" and y.get("arrow")}
                    for y in cir.walk(cir.kids(x)[1]):
                        if y.get("k") == "DeclRefExpr" and (y.get("ref") or {}).get("id") in local_src:
                            srcs |= local_src[y["ref"]["id"]]
                    local_src[l["ref"]["id"]] = local_src.get(l["ref"]["id"], set()) | srcs
    for x in cir.walk(fn):
        if x.get("k") == "IfStmt":
            then = cir.kids(x)[1]
            if not any(y.get("k") == "ReturnStmt" for y in cir.walk(then)):
                continue
            cond = cir.kids(x)[0]
            for y in cir.walk(cond):
                if y.get("k") == "MemberExpr" and y.get("arrow"):
                    checked.add(y.get("n"))
                if y.get("k") == "DeclRefExpr" and (y.get("ref") or {}).get("id") in local_src:
                    checked |= local_src[y["ref"]["id"]]
    for p in prow:
        if p["type"] != "int" or not REF_PATTERN.search(p["name"]):
            continue
        if p["name"] in checked:
            res.ok("REF-COVER", p["name"], None)
        else:
            res.bad("REF-COVER", p["name"], FILE, fn.get("line"),
                    f"cross-reference array {p['name']} ({p['nr']}x{p['nc']}) is never bound-checked by mj_validateReferences: a "
                    f"corrupted file loads with out-of-range entries")
    # typed references: the rejecting condition for the array is control- or data-dependent on its discriminator(s)
    res.rule("REF-TYPED", "variable-width / typed references are bound-checked together with their discriminator or width array", floor=10)
    facts = []   # (fields read by a rejecting condition incl. enclosing switch/if conditions and locals)

    def fields_of(node):
        out = set()
        for y in cir.walk(node):
            if y.get("k") == "MemberExpr" and y.get("arrow"):
                out.add(y.get("n"))
            if y.get("k") == "DeclRefExpr" and (y.get("ref") or {}).get("id") in local_src:
                out |= local_src[y["ref"]["id"]]
        return out

    def visit(node, ctxf):
        if node is None:
            return
        k = node.get("k")
        if k == "IfStmt":
            c = cir.kids(node)
            cf = fields_of(c[0])
            then = c[1] if len(c) > 1 else None
            if then is not None and any(y.get("k") == "ReturnStmt" for y in cir.walk(then)):
                facts.append(ctxf | cf)
            for x in c[1:]:
                visit(x, ctxf | cf)
            return
        if k == "SwitchStmt":
            c = [x for x in cir.kids(node) if x is not None]
            cf = fields_of(c[0])
            visit(c[-1], ctxf | cf)
            return
        for x in cir.kids(node):
            visit(x, ctxf)
    visit(cir.body(fn), frozenset())
    for arr, (need, why) in sorted(TYPED_REFS.items()):
        if arr not in rows:
            res.bad("REF-TYPED", arr, FILE, fn.get("line"), f"typed reference array {arr} is not a model array any more: update the table")
            continue
        hits = [f for f in facts if arr in f]
        if any(all(d_ in f for d_ in need) for f in hits):
            res.ok("REF-TYPED", arr, {"with": list(need)})
        else:
            res.bad("REF-TYPED", arr, FILE, fn.get("line"),
                    f"no rejecting condition of mj_validateReferences checks {arr} together with {list(need)} ({why}): a corrupt "
                    f"entry passes a width-1 / kind-agnostic bound check and the block it denotes runs out of bounds")
    # NOFATAL over the closure (validator + local callees)
    from .. import paths
    seen = set()
    work = ["mj_validateReferences"]
    while work:
        name = work.pop()
        if name in seen or name not in u.funcs:
            continue
        seen.add(name)
        f = u.funcs[name]
        errv = paths.error_msg_vars(f)
        fatal = [c for c in cir.calls(f) if paths.is_noreturn_call(c, errv)]
        if fatal:
            for c in fatal:
                res.bad("NOFATAL", f"{name}:fatal", FILE, c.get("line"),
                        f"{name} ends in a fatal error call on data read from the file; corrupt input must be rejected with a "
                        f"message (warning + NULL), not terminate")
        else:
            res.ok("NOFATAL", name, None)
        for c in cir.calls(f):
            cn = cir.callee(c)
            if cn in u.funcs and cn not in seen:
                work.append(cn)
    # IDX-NONNEG
    admits_minus1 = set()
    for blk in cir.kids(cir.body(fn)):
        pass
    table_arrays = {k for k in res.rules["REF-ROW"]["constructs"]}
    rejecting = []   # list of (cond text atoms)
    atoms = set()
    for x in cir.walk(fn):
        if x.get("k") == "IfStmt" and any(y.get("k") == "ReturnStmt" for y in cir.walk(cir.kids(x)[1])):
            for y in cir.walk(cir.kids(x)[0]):
                if y.get("k") == "BinaryOperator" and y.get("op") in ("<", "<="):
                    l, r_ = cir.kids(y)
                    rt = cir.text(r_)
                    lt = cir.text(l)
                    if (y.get("op") == "<" and rt == "0") or (y.get("op") == "<=" and rt == "-1"):
                        atoms.add(lt)
                if y.get("k") == "BinaryOperator" and y.get("op") in (">", ">="):
                    l, r_ = cir.kids(y)
                    if (y.get("op") == ">" and cir.text(l) == "0") or (y.get("op") == ">=" and cir.text(l) == "-1"):
                        atoms.add(cir.text(r_))
    ninst = 0
    for x in cir.walk(fn):
        if x.get("k") != "ArraySubscriptExpr":
            continue
        idx = cir.strip(cir.kids(x)[1])
        if idx is None:
            continue
        srcs = set()
        txt = cir.text(idx)
        if idx.get("k") == "ArraySubscriptExpr":
            b = cir.strip(cir.kids(idx)[0])
            if b is not None and b.get("k") == "MemberExpr":
                srcs = {b.get("n")}
        elif idx.get("k") == "DeclRefExpr":
            srcs = local_src.get((idx.get("ref") or {}).get("id"), set())
            # only locals that are a plain copy of one array element
            if len(srcs) != 1:
                srcs = set()
        hit = srcs & table_arrays
        if not hit:
            continue
        ninst += 1
        arr = sorted(hit)[0]
        base = cir.strip(cir.kids(x)[0])
        bname = base.get("n") if base is not None and base.get("k") == "MemberExpr" else cir.text(base)
        construct = f"{bname}[{arr}]"
        if txt in atoms:
            res.ok("IDX-NONNEG", construct, {"index": txt})
        else:
            res.bad("IDX-NONNEG", construct, FILE, x.get("line"),
                    f"`{cir.text(x)}`: index comes from {arr}, which the table admits as -1, and no rejecting test excludes "
                    f"negative values before it is used as an index")
