"""C42 R-PROJECT-AGREE: sibling agreement of the default-context projection of the schema generators.

Several generators (XSD, grammar table, dm_control schema) emit, for an element reachable under <default>, the element's
*defaultable projection*: a filter over schema.expanded_attrs(element).  They describe one language, so the filters must be
the same predicate on attributes.  The rule finds the filters by role (a comprehension / filtering loop over the expansion
whose predicate consults the `nodefault` facet, helpers inlined), evaluates each predicate over a finite abstract domain
of attributes -- every field takes the constants any sibling compares it with, one fresh value and None; the predicates
touch attributes only through comparisons with constants and truthiness, so the domain is exhaustive for them -- and
compares the truth tables.  A disagreement is reported at the minority site with the attribute on which they differ.
Anything outside the modelled fragment is `undecided` (exit 2), never a violation.  ast only; nothing is executed.
"""
from __future__ import annotations

import ast
import itertools

from .. import pyfront as P

OTHER = "\x00other"


class Unmodelled(Exception):
    pass


class AbsAttr:
    """Abstract attribute: field -> value; facets: key -> value."""

    def __init__(self, fields, facets):
        self.fields, self.facets = fields, facets

    def show(self):
        d = {k: ("<any other>" if v == OTHER else v) for k, v in self.fields.items()}
        d["facets"] = {k: v for k, v in self.facets.items() if v}
        return d


class Facets:
    def __init__(self, d):
        self.d = d


class _Ret(Exception):
    def __init__(self, v):
        self.v = v


class Collector(ast.NodeVisitor):
    """Which fields / facet keys a predicate reads of variable `var`, and the constants they are compared with."""

    def __init__(self):
        self.fields, self.facets = {}, set()


def _from_expansion(expr, fn, depth=0):
    """Is `expr` (a list of) attributes coming out of schema.expanded_attrs(..)?"""
    if depth > 6:
        return False
    if isinstance(expr, ast.Call):
        f = expr.func
        if isinstance(f, ast.Attribute) and f.attr == "expanded_attrs":
            return True
        if isinstance(f, ast.Name) and f.id in ("list", "tuple", "sorted") and expr.args:
            return _from_expansion(expr.args[0], fn, depth + 1)
        return False
    if isinstance(expr, (ast.ListComp, ast.GeneratorExp)):
        g = expr.generators[0]
        return (isinstance(expr.elt, ast.Name) and isinstance(g.target, ast.Name) and expr.elt.id == g.target.id
                and _from_expansion(g.iter, fn, depth + 1))
    if isinstance(expr, ast.Name) and fn is not None and expr.id in fn.params and not any(
            isinstance(n, ast.Name) and n.id == expr.id and isinstance(n.ctx, ast.Store) for n in fn.mod.nodes(fn)):
        sites = [(c, g) for m in _ALL_MODS for g in m.funcs.values() for c in m.nodes(g)
                 if isinstance(c, ast.Call) and P.resolve(c, g)[0] == "func" and fn in P.resolve(c, g)[1]]
        ok = bool(sites)
        for c, g in sites:
            try:
                arg = P.bind_args(c, fn).get(expr.id)
            except Exception:
                arg = None
            ok = ok and arg is not None and _from_expansion(arg, g, depth + 1)
        return ok
    if isinstance(expr, ast.Name) and fn is not None:
        for n in fn.mod.nodes(fn):
            if isinstance(n, ast.Assign) and len(n.targets) == 1 and isinstance(n.targets[0], ast.Name) \
                    and n.targets[0].id == expr.id and n.value is not expr._parent \
                    and not _contains(n.value, expr) and _from_expansion_assign(n, fn, depth + 1):
                return True
    return False


_ALL_MODS = []


def _contains(root, node):
    return any(x is node for x in ast.walk(root))


def _from_expansion_assign(assign, fn, depth):
    v = assign.value
    if isinstance(v, (ast.ListComp, ast.GeneratorExp)):
        g = v.generators[0]
        if isinstance(g.iter, ast.Name) and g.iter.id == assign.targets[0].id:
            # attrs = [a for a in attrs if ..]: look at the other definitions of the name
            return any(isinstance(n, ast.Assign) and n is not assign and len(n.targets) == 1
                       and isinstance(n.targets[0], ast.Name) and n.targets[0].id == g.iter.id
                       and not (isinstance(n.value, (ast.ListComp, ast.GeneratorExp))
                                and isinstance(n.value.generators[0].iter, ast.Name)
                                and n.value.generators[0].iter.id == g.iter.id)
                       and _from_expansion(n.value, fn, depth + 1)
                       for n in fn.mod.nodes(fn))
    return _from_expansion(v, fn, depth)


# ----------------------------------------------------------------------------- evaluation
class Eval:
    def __init__(self, fn, collect=None, ctx=None):
        self.fn, self.collect = fn, collect
        self.ctx = ctx                    # context flags (free boolean names of the predicate): name -> assumed value
        self.ctx_seen = set()

    def ev(self, n, env, fn, depth=0):
        if depth > 8:
            raise Unmodelled("helper nesting too deep")
        if isinstance(n, ast.Constant):
            return n.value
        if isinstance(n, (ast.Tuple, ast.List, ast.Set)):
            return tuple(self.ev(e, env, fn, depth) for e in n.elts)
        if isinstance(n, ast.Name):
            if n.id in env:
                return env[n.id]
            try:
                v = P.lit(n, n._mod if hasattr(n, "_mod") else fn.mod, fn.cls if fn else None)
            except P.NotLit:
                if self.collect is not None or (self.ctx is not None and n.id in self.ctx):
                    # a free name used as a truth value: the context flag ("this element is in default context")
                    self.ctx_seen.add(n.id)
                    return True if self.ctx is None else self.ctx[n.id]
                raise Unmodelled(f"name `{n.id}`")
            return tuple(v) if isinstance(v, (list, frozenset, set)) else v
        if isinstance(n, ast.Attribute):
            base = n.value
            if isinstance(base, ast.Name) and base.id in env and isinstance(env[base.id], AbsAttr):
                a = env[base.id]
                if n.attr == "facets":
                    return Facets(a.facets)
                if self.collect is not None:
                    self.collect.fields.setdefault(n.attr, set())
                    return OTHER
                if n.attr not in a.fields:
                    raise Unmodelled(f"field `{n.attr}`")
                return a.fields[n.attr]
            try:
                v = P.lit(n, n._mod, fn.cls if fn else None)
            except (P.NotLit, AttributeError):
                raise Unmodelled(f"attribute `{P.text(n)}`")
            return tuple(v) if isinstance(v, (list, frozenset, set)) else v
        if isinstance(n, ast.BoolOp):
            vals = None
            for v in n.values:
                r = self.ev(v, env, fn, depth)
                if self.collect is None:
                    if isinstance(n.op, ast.And) and not self.truth(r):
                        return r
                    if isinstance(n.op, ast.Or) and self.truth(r):
                        return r
                vals = r
            return vals
        if isinstance(n, ast.UnaryOp) and isinstance(n.op, ast.Not):
            return not self.truth(self.ev(n.operand, env, fn, depth))
        if isinstance(n, ast.IfExp):
            if self.collect is not None:
                self.ev(n.test, env, fn, depth), self.ev(n.body, env, fn, depth)
                return self.ev(n.orelse, env, fn, depth)
            return self.ev(n.body if self.truth(self.ev(n.test, env, fn, depth)) else n.orelse, env, fn, depth)
        if isinstance(n, ast.Compare):
            left = self.ev(n.left, env, fn, depth)
            lnode = n.left
            out = True
            for op, rn in zip(n.ops, n.comparators):
                right = self.ev(rn, env, fn, depth)
                self._note(lnode, right), self._note(rn, left)
                if isinstance(op, (ast.In, ast.NotIn)) and isinstance(right, Facets):
                    if self.collect is not None and isinstance(left, str):
                        self.collect.facets.add(left)
                    r = bool(right.d.get(left))
                    r = r if isinstance(op, ast.In) else not r
                elif isinstance(op, (ast.Eq, ast.Is)):
                    r = left == right
                elif isinstance(op, (ast.NotEq, ast.IsNot)):
                    r = left != right
                elif isinstance(op, ast.In):
                    r = self._in(left, right)
                elif isinstance(op, ast.NotIn):
                    r = not self._in(left, right)
                else:
                    raise Unmodelled(f"comparison `{P.text(n)}`")
                out = out and r
                left, lnode = right, rn
            return out
        if isinstance(n, ast.Subscript):
            base = self.ev(n.value, env, fn, depth)
            if isinstance(base, Facets):
                k = self.ev(n.slice, env, fn, depth)
                if self.collect is not None and isinstance(k, str):
                    self.collect.facets.add(k)
                return base.d.get(k)
            raise Unmodelled(f"subscript `{P.text(n)}`")
        if isinstance(n, ast.Call):
            f = n.func
            if isinstance(f, ast.Attribute) and f.attr == "get" and not n.keywords and 1 <= len(n.args) <= 2:
                base = self.ev(f.value, env, fn, depth)
                if isinstance(base, Facets):
                    k = self.ev(n.args[0], env, fn, depth)
                    if self.collect is not None and isinstance(k, str):
                        self.collect.facets.add(k)
                    v = base.d.get(k)
                    if v is None and len(n.args) == 2:
                        return self.ev(n.args[1], env, fn, depth)
                    return v
            if isinstance(f, ast.Name) and f.id == "bool" and len(n.args) == 1:
                return self.truth(self.ev(n.args[0], env, fn, depth))
            kind, payload = P.resolve(n, fn)
            if kind == "func" and len(payload) == 1:
                return self.call(n, payload[0], env, fn, depth)
            raise Unmodelled(f"call `{P.text(n)}`")
        raise Unmodelled(f"expression `{P.text(n)}`")

    def _note(self, node, const):
        """record that attribute field `node` is compared with `const` (collection pass)"""
        if self.collect is None or not isinstance(node, ast.Attribute):
            return
        if node.attr in self.collect.fields:
            vals = const if isinstance(const, tuple) else (const,)
            for v in vals:
                if isinstance(v, (str, int, bool, type(None))) and v != OTHER:
                    self.collect.fields[node.attr].add(v)

    @staticmethod
    def _in(left, right):
        if not isinstance(right, tuple):
            raise Unmodelled("membership in a non-literal container")
        return left in right

    @staticmethod
    def truth(v):
        if isinstance(v, (AbsAttr, Facets)):
            raise Unmodelled("truthiness of an attribute object")
        return bool(v)

    def call(self, call, g, env, fn, depth):
        params = [p for p in g.params if p != "self"]
        if call.keywords or len(call.args) != len(params):
            raise Unmodelled(f"call `{P.text(call)}` (argument binding)")
        inner = {p: self.ev(a, env, fn, depth) for p, a in zip(params, call.args)}
        try:
            self.block(g.node.body, inner, g, depth + 1)
        except _Ret as r:
            return r.v
        return None

    def block(self, stmts, env, fn, depth):
        for s in stmts:
            if isinstance(s, ast.Expr) and isinstance(s.value, ast.Constant):
                continue
            if isinstance(s, ast.Return):
                raise _Ret(None if s.value is None else self.ev(s.value, env, fn, depth))
            if isinstance(s, ast.If):
                if self.collect is not None:
                    self.ev(s.test, env, fn, depth)
                    for b in (s.body, s.orelse):
                        try:
                            self.block(b, dict(env), fn, depth)
                        except _Ret:
                            pass
                    continue
                self.block(s.body if self.truth(self.ev(s.test, env, fn, depth)) else s.orelse, env, fn, depth)
                continue
            if isinstance(s, ast.Assign) and len(s.targets) == 1 and isinstance(s.targets[0], ast.Name):
                env[s.targets[0].id] = self.ev(s.value, env, fn, depth)
                continue
            if isinstance(s, ast.Pass):
                continue
            raise Unmodelled(f"statement `{P.text(s)[:60]}`")


def _filters(mod):
    """(fn, var, [predicate exprs], node, negated) for every filter over an attribute expansion in `mod`."""
    out = []
    for fn in mod.funcs.values():
        for n in mod.nodes(fn):
            if isinstance(n, ast.comprehension) and isinstance(n.target, ast.Name) and n.ifs \
                    and _from_expansion(n.iter, fn):
                out.append((fn, n.target.id, list(n.ifs), n._parent, False))
            elif isinstance(n, ast.For) and isinstance(n.target, ast.Name) and _from_expansion(n.iter, fn):
                first = next((s for s in n.body if not (isinstance(s, ast.Expr) and isinstance(s.value, ast.Constant))), None)
                if isinstance(first, ast.If) and not first.orelse and len(first.body) == 1 \
                        and isinstance(first.body[0], ast.Continue):
                    out.append((fn, n.target.id, [first.test], n, True))
                elif isinstance(first, ast.If) and not first.orelse and len(n.body) == 1:
                    out.append((fn, n.target.id, [first.test], n, False))
    return out


def rule_project_agree(res, mods, und):
    res.rule("R-PROJECT-AGREE", "the generators that emit an element's defaultable projection (a filter over "
             "schema.expanded_attrs(element) that consults the `nodefault` facet; found by role, helpers inlined) apply the "
             "same predicate: each filter is evaluated over a finite abstract domain of attributes (every field takes the "
             "constants any sibling compares it with, a fresh value and None; facets present / absent) and the truth tables "
             "are compared; the minority site is reported with the attribute on which they differ", floor=3)
    _ALL_MODS[:] = list(mods)
    cands = []
    for mod in mods:
        for fn, var, preds, node, negated in _filters(mod):
            col = Collector()
            ev = Eval(fn, col)
            try:
                for p in preds:
                    ev.ev(p, {var: AbsAttr({}, {})}, fn)
            except Unmodelled as e:
                if "nodefault" in ast.dump(node):
                    und.add("R-PROJECT-AGREE", f"{mod.name}.{fn.qual}", mod.rel, node.lineno,
                            f"projection predicate outside the modelled fragment: {e}")
                continue
            if "nodefault" not in col.facets:
                continue
            cands.append((mod, fn, var, preds, node, negated, col, sorted(ev.ctx_seen)))
    if len(cands) < 2:
        return
    fields, facets = {}, set()
    for c in cands:
        for k, v in c[6].fields.items():
            fields.setdefault(k, set()).update(v)
        facets |= c[6].facets
    fnames, fkeys = sorted(fields), sorted(facets)
    doms = [sorted(fields[k], key=repr) + [OTHER, None] for k in fnames]
    points = []
    for combo in itertools.product(*doms):
        for fc in itertools.product((True, None), repeat=len(fkeys)):
            points.append(AbsAttr(dict(zip(fnames, combo)), dict(zip(fkeys, fc))))
    if len(points) > 200000:
        und.add("R-PROJECT-AGREE", "domain", cands[0][0].rel, 1, f"abstract domain too large ({len(points)} points)")
        return
    tables, kept_cands = [], []
    for cand in cands:
        mod, fn, var, preds, node, negated, col, ctxnames = cand
        if len(ctxnames) > 3:
            und.add("R-PROJECT-AGREE", f"{mod.name}.{fn.qual}", mod.rel, node.lineno, "too many free names in the projection predicate")
            return
        found = {}
        try:
            for vals in itertools.product((True, False), repeat=len(ctxnames)):
                ev = Eval(fn, ctx=dict(zip(ctxnames, vals)))
                row = []
                for a in points:
                    keep = all(ev.truth(ev.ev(p, {var: a}, fn)) for p in preds)
                    row.append((not keep) if negated else keep)
                if not all(row):                      # under this context the filter really projects
                    found.setdefault(tuple(row), vals)
        except Unmodelled as e:
            und.add("R-PROJECT-AGREE", f"{mod.name}.{fn.qual}", mod.rel, node.lineno,
                    f"projection predicate outside the modelled fragment: {e}")
            return
        if len(found) != 1:
            und.add("R-PROJECT-AGREE", f"{mod.name}.{fn.qual}", mod.rel, node.lineno,
                    f"the filter is a projection under {len(found)} different settings of its context flags {ctxnames}")
            return
        tables.append(next(iter(found)))
        kept_cands.append(cand[:7])
    cands = kept_cands
    groups = {}
    for c, t in zip(cands, tables):
        groups.setdefault(t, []).append(c)
    major = max(groups.values(), key=len)
    mt = next(t for t, g in groups.items() if g is major)
    tie = len(groups) > 1 and sum(1 for g in groups.values() if len(g) == len(major)) > 1
    for t, g in groups.items():
        for mod, fn, var, preds, node, negated, col in g:
            construct = f"{mod.name}.{fn.qual}:default-projection"
            if t == mt and not tie:
                res.ok("R-PROJECT-AGREE", construct, {"file": mod.rel, "line": node.lineno,
                                                      "predicate": " and ".join(P.text(p) for p in preds),
                                                      "points": len(points), "kept": sum(t)})
                continue
            ref = major[0] if g is not major else next(x[0] for tt, x in groups.items() if tt != t)
            rt = mt if g is not major else next(tt for tt in groups if tt != t)
            i = next(k for k in range(len(points)) if t[k] != rt[k])
            res.bad("R-PROJECT-AGREE", construct, mod.rel, node.lineno,
                    f"the defaultable projection here ({' and '.join(P.text(p) for p in preds)}) is not the predicate of "
                    f"{ref[0].name}.{ref[1].qual} (line {ref[4].lineno}): the attribute {points[i].show()} is "
                    f"{'kept' if t[i] else 'dropped'} here and {'kept' if rt[i] else 'dropped'} there, so for a schema that "
                    "declares such an attribute under an element reachable from <default> the generated outputs describe "
                    "different languages and at least one disagrees with the schema")
