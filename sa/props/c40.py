"""C40 Extension registries stay consistent under concurrent use (structural part: R-LOCK / R-ATOMIC-PROTO /
R-PROVENANCE on GlobalTable<T>).

Decided from the clang AST of every *instantiation* of mujoco::GlobalTable<T> (engine_global_table.h) seen in
src/engine/engine_plugin.cc and src/experimental/platform/ux/plugin.cc, of the explicit member specialisations
(ObjectKey/ObjectEqual/CopyObject), and of every caller of the *Unsafe accessors in src/:

  R-LOCK            every write to table storage (fields of the block record reached from the table, by-reference
                    hand-over of a slot to the copy function, stores of the count atomic) lies in the scope of a live
                    write-lock local obtained from the same table; the lock class really locks the mutex it is given:
                    a conditional lock() must not depend on state shared between different mutexes
  R-PUBLISH         the count is published by a release (or stronger) store of (count loaded under the lock)+1 that is
                    reached only on paths where the copy call returned true; each copy specialisation returns true only
                    after it assigned the whole destination and never after it wrote an error message
  R-READER-BOUND    in the lock-free readers every access to block storage (objects[], next) is reached only where an
                    index was tested `< bound` since its last modification, the bound being the parameter that internal
                    callers feed from count(), and count() is an acquire (or stronger) load
  R-NO-ERROR-LOCKED no call of a path-ending error function (mju_error*, mjERROR) in the closure (functions of the TU)
                    of any region where a write-lock local is alive
  R-PROVENANCE      every call of an accessor with a caller-supplied bound (the *Unsafe family and its C wrappers)
                    passes a value whose every definition in that function is a call of the count function of the same
                    table, or forwards its own parameter (then its callers are checked)
  R-UNIQ-SCAN       registration scans i = 0 .. count-1 under the lock before copying, ends the path on a key match,
                    and compares keys with the same key function and the same comparison function as the lookup; that
                    function folds case on both sides
  R-EQ-SYMMETRY     one-sided null tests in the ObjectEqual specialisations occur in both orientations
  R-KEY-NONEMPTY    the lock-free lookup stops at the first element whose key is empty; every function that registers an
                    object therefore establishes, by one of four idioms, that each candidate key field is non-empty

Not decided: linearizability / absence of torn reads over interleavings as such (model checking); what foreign code run
by dlopen() inside mj_loadAllPluginLibraries' locked region does; calls through function pointers.
"""
from __future__ import annotations

import os
import re

from .. import cfront, cir, cxx, engine, paths
from ..cfront import AnalysisError

LEVEL = "other"
TU_MAIN = "src/engine/engine_plugin.cc"
TU_EXTRA = ("src/experimental/platform/ux/plugin.cc",)
HDR = "src/engine/engine_global_table.h"
TEMPLATE = "GlobalTable"
FOLD = re.compile(r"^(std::)?to(w)?(lower|upper)$")


# ----------------------------------------------------------------------------------------------
# model of one translation unit


class Spec:
    pass


class TableTU:
    def __init__(self, tu, repo):
        self.tu = tu
        self.ir = cfront.load_tu(tu, repo, lang="cxx", types=True)
        decls = self.ir["decls"]
        self.tmpl = cxx.find_template(decls, TEMPLATE)
        if self.tmpl is None:
            raise AnalysisError(f"{tu}: class template {TEMPLATE} not found")
        self.funcs, self.by_id = cxx.all_functions(decls)
        self.label = {}
        for q, f in self.funcs:
            self.label[id(f)] = q
        self.specs = []
        raw = cxx.template_specs(self.tmpl)
        if not raw:
            raise AnalysisError(f"{tu}: no instantiation of {TEMPLATE}")
        # lock classes of the TU
        self.lock_classes = {}
        for d in cxx.iter_decls(decls):
            if d.get("k") == "CXXRecordDecl" and d.get("completeDefinition") and d.get("n") and not d.get("isImplicit"):
                kl = cxx.Klass(d)
                info = cxx.lock_class_info(kl) if kl.ctors else None
                if info:
                    self.lock_classes[d.get("n")] = (kl, info)
        if not self.lock_classes:
            raise AnalysisError(f"{tu}: no RAII write-lock class found (constructor lock() / destructor unlock())")
        for arg, node in raw:
            s = Spec()
            s.arg, s.node = arg, node
            s.name = f"{TEMPLATE}<{arg}>"
            s.kl = cxx.Klass(node, s.name)
            s.atomics = [f for f in s.kl.fields if cxx.is_atomic_type(f)]
            if len(s.atomics) != 1:
                raise AnalysisError(f"{s.name}: expected one atomic member (the count), found {[f['name'] for f in s.atomics]}")
            s.count = s.atomics[0]
            s.own_fields = {f["id"]: f["name"] for f in s.kl.fields if f not in s.atomics}
            # block record(s): record types of the non-atomic members
            s.block_fields = {}
            for f in s.kl.fields:
                if f in s.atomics:
                    continue
                rn = cxx.record_name_of_type(f["dt"] or f["t"])
                bt = cxx.find_template(decls, rn)
                recs = [n for _, n in cxx.template_specs(bt)] if bt is not None else cxx.find_records(decls, rn)
                for r in recs:
                    for c in cir.kids(r):
                        if c and c.get("k") == "FieldDecl":
                            s.block_fields[c.get("id")] = c.get("n")
            if not s.block_fields:
                raise AnalysisError(f"{s.name}: block record of the table storage not found")
            pre = s.name + "::"
            s.funcs = [(q, f) for q, f in self.funcs if q.startswith(pre)]
            # out-of-line member specialisations belong to the spec whose declaration they redeclare
            s.members_ool = {}
            for q, f in self.funcs:
                if "::" not in q and f.get("prev"):
                    own = cxx.out_of_line_owner(f, [(arg, node)])
                    if own:
                        self.label[id(f)] = f"{s.name}::{f.get('n')}"
                        for j, (q2, f2) in enumerate(cxx.nested_functions(f, self.label[id(f)])):
                            self.label[id(f2)] = q2
                        s.members_ool[f.get("n")] = f
            self.specs.append(s)

    def lab(self, fn):
        return self.label.get(id(fn), fn.get("n") or "?")

    # ---- who a piece of code belongs to (stable under lambda <-> named helper <-> private method refactorings)
    def _index(self):
        if getattr(self, "_root_of", None) is not None:
            return
        self._root_of, self._spec_of, self._callers = {}, {}, {}
        fnodes = {id(f): f for _, f in self.funcs}
        for q, f in self.funcs:
            if id(f) in self._root_of:
                continue
            for _q2, f2 in cxx.nested_functions(f, q):
                self._root_of.setdefault(id(f2), f)
        for s in self.specs:
            for _q, f in s.funcs:
                self._spec_of[id(f)] = s
            for f in s.members_ool.values():
                for _q2, f2 in cxx.nested_functions(f, self.lab(f)):
                    self._spec_of[id(f2)] = s
        for q, f in self.funcs:
            r = self._root_of[id(f)]
            for x in cxx.own_walk(cir.body(f)):
                if cir.is_call(x):
                    d = self.resolve(x)
                    if d is not None and id(d) in fnodes and d is not r:
                        self._callers.setdefault(id(d), {})[id(r)] = r

    def root_of(self, fn):
        self._index()
        return self._root_of.get(id(fn), fn)

    def spec_of(self, fn):
        self._index()
        return self._spec_of.get(id(fn))

    def callers(self, fn):
        """root functions of the TU that call fn directly (from their body or from a lambda in it)"""
        self._index()
        return list(self._callers.get(id(self.root_of(fn)), {}).values())

    def is_private_helper(self, fn):
        """fn has callers, and cannot have any outside what is analysed here: a free function with internal linkage, or
        a method of a table that only methods of the same table call"""
        r = self.root_of(fn)
        cs = self.callers(r)
        if not cs:
            return False
        s = self.spec_of(r)
        if s is None:
            return bool(r.get("internal"))
        return all(self.spec_of(c) is s for c in cs)

    def owner(self, fn):
        """The function a piece of code belongs to: a lambda belongs to the function it is written in, a private helper
        with a single caller to that caller (transitively)."""
        r = self.root_of(fn)
        seen = set()
        while id(r) not in seen:
            seen.add(id(r))
            cs = self.callers(r)
            if len(cs) != 1 or not self.is_private_helper(r):
                break
            r = cs[0]
        return r

    def owner_label(self, fn):
        o = self.owner(fn)
        s = self.spec_of(o)
        return self.short(s, o) if s is not None else self.lab(o)

    def lock_subject(self, fn, var):
        """What a lock local locks: the table whose lock method / mutex accessor produces it."""
        if getattr(self, "_mid_spec", None) is None:
            self._mid_spec = {}
            for s in self.specs:
                for mid in s.kl.method_ids():
                    self._mid_spec[mid] = s
        here = self.spec_of(fn)
        for x in cir.walk(var):
            if x.get("k") == "CXXMemberCallExpr":
                f = cir.strip(cir.kids(x)[0])
                s2 = self._mid_spec.get(f.get("mid")) if f is not None and f.get("k") == "MemberExpr" else None
                if s2 is not None:
                    return f"{TEMPLATE}<T>" if s2 is here else s2.name
        return cxx.record_name_of_type(cxx.type_of(var)) or "lock"

    def view(self, fn):
        """(fn with the statement-level calls of private helpers of the TU expanded, ids of fn's call nodes expanded)"""
        if getattr(self, "_views", None) is None:
            self._views = {}
        v = self._views.get(id(fn))
        if v is None:
            new, expanded, names = cxx.inline_calls(fn, self.resolve, pred=lambda h: self.is_private_helper(h) and
                                                    self.spec_of(h) is None)
            new.setdefault("file", fn.get("file") or self.tu)
            v = self._views[id(fn)] = (new, expanded, names)
        return v

    def short(self, s, fn):
        """Function label relative to the template: GlobalTable<T>::AppendIfUnique:lambda (constructs use owner_label)"""
        return self.lab(fn).replace(s.name, f"{TEMPLATE}<T>", 1)

    def resolve(self, call):
        """Definition node of a direct call's callee in this TU, or None."""
        c = cir.kids(call)
        if not c:
            return None
        f = cir.strip(c[0])
        if f is None:
            return None
        if f.get("k") == "DeclRefExpr":
            return self.by_id.get((f.get("ref") or {}).get("id"))
        if f.get("k") == "MemberExpr":
            return self.by_id.get(f.get("mid"))
        return None


class TemplEvents:
    """(rule, generic construct) -> per-instantiation verdicts; reported once per source construct."""

    def __init__(self):
        self.d = {}

    def add(self, rule, generic, spec, ok, file, line, msg, sample=None):
        self.d.setdefault((rule, generic), []).append((spec, ok, file, line, msg, sample))

    def from_events(self, rule, prefix, spec, ev, file):
        for c, e in ev.ev.items():
            self.add(rule, f"{prefix}:{c}", spec, e["ok"], file, e["line"], e["msg"], e["sample"])

    def flush(self, res):
        for (rule, generic), items in sorted(self.d.items()):
            badi = [x for x in items if not x[1]]
            if badi:
                specs = sorted({x[0] for x in badi})
                sp, ok, file, line, msg, _ = badi[0]
                res.bad(rule, generic, file, line, msg + f" [instantiations: {', '.join(specs)}]")
                # one report per source construct, but every instantiation remains an analysed instance
                res.rules[rule]["instances"] += len(badi) - 1
                for sp, ok, file, line, msg, sample in items:
                    if ok:
                        res.ok(rule, generic.replace(f"{TEMPLATE}<T>", sp, 1), dict({"file": file, "line": line}, **(sample or {})))
            else:
                for sp, ok, file, line, msg, sample in items:
                    res.ok(rule, generic.replace(f"{TEMPLATE}<T>", sp, 1), dict({"file": file, "line": line}, **(sample or {})))


# ----------------------------------------------------------------------------------------------
# storage accesses


def storage_member(s, lv):
    """Name of the table-storage field an lvalue chain goes through (block field or own non-atomic member)."""
    for m in cxx.member_chain(lv):
        if m.get("mid") in s.block_fields:
            return s.block_fields[m.get("mid")]
    for m in cxx.member_chain(lv):
        if m.get("mid") in s.own_fields and cxx.this_member(m):
            return s.own_fields[m.get("mid")]
    return None


def storage_writes(s, fn):
    """[(field name, node, kind)] writes to table storage / the count atomic in fn's own nodes."""
    out = []
    b = cir.body(fn)
    for lv, w, how in cxx.writes(b):
        name = storage_member(s, lv)
        if name:
            out.append((name, w, how))
    for op in cxx.atomic_ops(b):
        if op.mid == s.count["id"] and op.kind in ("store", "rmw", "cas"):
            out.append((s.count["name"], op.node, "atomic"))
    return out


def lock_regions(T, fn):
    return cxx.lock_regions(fn, tuple(T.lock_classes))


def lock_from_same_table(T, s, var):
    """The lock local is produced by a method of *this table (or constructed from its mutex accessor)."""
    mids = s.kl.method_ids()
    for x in cir.walk(var):
        if x.get("k") == "CXXMemberCallExpr":
            f = cir.strip(cir.kids(x)[0])
            if f is not None and f.get("k") == "MemberExpr" and f.get("mid") in mids and cxx.this_member(f):
                return True
    return False


# ----------------------------------------------------------------------------------------------
# R-LOCK


def rule_lock(T, res, TE):
    for s in T.specs:
        for q, fn in s.funcs:
            if fn.get("k") == "CXXConstructorDecl":
                continue        # construction of the function-local static singleton precedes any sharing
            ws = storage_writes(s, fn)
            if not ws:
                continue
            regions = lock_regions(T, fn)
            for name, node, how in ws:
                inside = [v for v, reg, _ in regions if id(node) in reg]
                same = [v for v in inside if lock_from_same_table(T, s, v)]
                generic = f"{T.owner_label(fn)}:write:{name}"
                if same:
                    TE.add("R-LOCK", generic, s.name, True, HDR, node.get("line"), None,
                           {"lock": same[0].get("n"), "how": how})
                elif inside:
                    TE.add("R-LOCK", generic, s.name, False, HDR, node.get("line"),
                           f"write to table storage `{name}` is inside a lock scope, but the lock local "
                           f"`{inside[0].get('n')}` is not obtained from this table's own lock method")
                else:
                    TE.add("R-LOCK", generic, s.name, False, HDR, node.get("line"),
                           f"write to table storage `{name}` ({how}) is not inside the scope of a live write-lock local: "
                           f"two registering threads can write the same slot / publish the same count")


def rule_lock_identity(T, res):
    """The lock class locks the mutex it is given; a skipped lock() must be justified by per-mutex state."""
    nmutex = len(T.specs)
    for cname, (kl, info) in sorted(T.lock_classes.items()):
        for ctor, call, conds, obj in info["lock_calls"]:
            key = f"{cname}::{cname}:lock-keyed-by-mutex"
            shared = []
            for c in conds:
                for x in cir.walk(c):
                    tgt = None
                    if x.get("k") == "DeclRefExpr" and (x.get("ref") or {}).get("k") == "VarDecl":
                        tgt = x
                    if cir.is_call(x):
                        d = T.resolve(x)
                        if d is not None:
                            for y in cir.walk(cir.body(d)):
                                if y.get("k") == "VarDecl" and (y.get("tls") or y.get("storageClass") == "static"):
                                    shared.append(f"{d.get('n')}()::{y.get('n')} ({'thread_local' if y.get('tls') else 'static'})")
                    if tgt is not None:
                        shared.append(cir.text(tgt))
            if not conds:
                res.ok("R-LOCK", key, {"file": HDR, "line": call.get("line"), "note": "unconditional lock()"})
            elif shared and nmutex > 1:
                res.bad("R-LOCK", key, HDR, call.get("line"),
                        f"{cname} skips {cir.text(obj)}.lock() when `{cir.text(conds[0])}` is false, and that condition "
                        f"reads {sorted(set(shared))}, one counter per thread shared by all {nmutex} table mutexes of this TU: "
                        f"a thread that already holds the lock of one table enters another table's critical section without "
                        f"locking that table's mutex")
            else:
                res.ok("R-LOCK", key, {"file": HDR, "line": call.get("line"), "mutexes": nmutex})


# ----------------------------------------------------------------------------------------------
# R-PUBLISH


class PublishRule(paths.Rule):
    """state: copy status  none | called | ok | fail | ('var', id)"""

    def __init__(self, s, ev, copy_calls, fn, region):
        self.s, self.ev, self.copy_calls, self.fn, self.region = s, ev, copy_calls, fn, region

    def initial(self, fn):
        return "none"

    def call(self, st, node, name, ctx):
        if id(node) in self.copy_calls:
            return "called"
        op = cxx.atomic_op(node)
        if op is not None and op.mid == self.s.count["id"] and op.kind in ("store", "rmw", "cas"):
            cn = self.s.count["name"]
            self.ev.note(f"publish:{cn}:after-successful-copy", st == "ok", node,
                         f"{op.describe()} is reached on a path where the copy of the new object "
                         + {"none": "was not attempted", "called": "was called but its result not tested",
                            "fail": "failed"}.get(st if isinstance(st, str) else "", "has an untested result")
                         + ": readers that acquire the new count see a slot that was never (completely) written")
            self.ev.note(f"publish:{cn}:release", cxx.is_release(op.order), node,
                         f"{op.describe()} is not release (or stronger): the object copied into the slot is not ordered "
                         f"before the count that readers acquire", {"order": op.order})
            okv = False
            why = "is not (count loaded under the lock) + 1"
            v = cir.strip(op.vals[0]) if op.kind == "store" and op.vals else None
            if v is not None and v.get("k") == "BinaryOperator" and v.get("op") == "+":
                a, b = cir.kids(v)
                for x, y in ((a, b), (b, a)):
                    if cxx.const_int(y) == 1 and cxx.ref_id(x):
                        defs = cxx.local_defs(self.fn, cxx.ref_id(x))
                        if len(defs) == 1 and defs[0][1] is not None:
                            lo = cxx.atomic_op(cir.strip(defs[0][1]))
                            if lo is not None and lo.kind == "load" and lo.mid == self.s.count["id"]:
                                if id(defs[0][0]) in self.region:
                                    okv = True
                                else:
                                    why = "adds 1 to a count that was loaded before the lock was taken"
            self.ev.note(f"publish:{cn}:value", okv, node, f"published value `{cir.text(v)}` {why}: slots are not dense / "
                         f"two registrations can obtain the same slot")
        return st

    def assign(self, st, node, ctx):
        if node.get("k") == "VarDecl":
            init = [c for c in cir.kids(node) if c is not None and not c.get("k", "").endswith("Attr")]
            if init and id(cir.strip(init[-1])) in self.copy_calls and st == "called":
                return ("var", node.get("id"))
            return st
        lv = cir.kids(node)[0]
        if node.get("k") == "BinaryOperator" and node.get("op") == "=" and \
                id(cir.strip(cir.kids(node)[1])) in self.copy_calls and cxx.ref_id(lv):
            return ("var", cxx.ref_id(lv))
        return st

    def branch(self, st, cond, taken, ctx):
        if id(cond) in self.copy_calls and st == "called":
            return "ok" if taken else "fail"
        if isinstance(st, tuple) and cxx.ref_id(cond) == st[1]:
            return "ok" if taken else "fail"
        return st


def copy_calls_in(T, s, fn):
    """Calls in fn that hand a storage slot to a callee by mutable reference."""
    out = {}
    for lv, w, how in cxx.writes(cir.body(fn)):
        if how == "refarg" and storage_member(s, lv) and cir.is_call(w):
            out[id(w)] = w
    return out


class CopyRule(paths.Rule):
    """A copy specialisation.  state: (destination wholly assigned, error message written)"""

    def __init__(self, dst_id, err_ids, ev):
        self.dst, self.err, self.ev = dst_id, err_ids, ev
        self.unknown = 0

    def initial(self, fn):
        return (False, False)

    def call(self, st, node, name, ctx):
        if node.get("k") == "CXXOperatorCallExpr":
            ks = cir.kids(node)
            if cir.text(ks[0]) == "operator=" and len(ks) > 1 and cxx.ref_id(ks[1]) == self.dst:
                return (True, st[1])
        for a in cir.kids(node)[1:]:
            if cxx.ref_id(a) in self.err:
                return (st[0], True)
        return st

    def assign(self, st, node, ctx):
        if node.get("k") != "VarDecl" and node.get("k") == "BinaryOperator" and node.get("op") == "=" and \
                cxx.ref_id(cir.kids(node)[0]) == self.dst:
            return (True, st[1])
        return st

    def ret(self, st, node, ctx):
        c = [x for x in cir.kids(node) if x is not None]
        v = cxx.const_truth(c[0]) if c else None
        if v is None:
            self.unknown += 1
            return
        if v:
            raw = cir.text(c[0])
            self.ev.note("success-implies-copied", st[0] and not st[1], node,
                         f"`return {raw};` reports success (converts to true) on a path where "
                         + ("an error message was written" if st[1] else "the destination was not assigned")
                         + (" and the destination was not assigned" if st[1] and not st[0] else "")
                         + ": AppendIfUnique publishes a slot that was never written")
        else:
            self.ev.note("failure-leaves-count", True, node, None)


def rule_publish(T, res, TE):
    done_copy = set()
    for s in T.specs:
        pubs = 0
        for q, fn in s.funcs:
            if fn.get("k") == "CXXConstructorDecl":
                continue
            ops = [o for o in cxx.atomic_ops(cir.body(fn)) if o.mid == s.count["id"] and o.kind in ("store", "rmw", "cas")]
            if not ops:
                continue
            pubs += 1
            cc = copy_calls_in(T, s, fn)
            region = set()
            for v, reg, _ in lock_regions(T, fn):
                region |= reg
            ev = cxx.Events()
            paths.explore(PublishRule(s, ev, cc, fn, region), None, fn)
            if not ev.ev:
                raise AnalysisError(f"{T.lab(fn)}: publication of the count not visited")
            TE.from_events("R-PUBLISH", T.owner_label(fn), s.name, ev, HDR)
            # the copy function(s) of this instantiation
            for w in cc.values():
                d = T.resolve(w)
                if d is None or cir.body(d) is None:
                    raise AnalysisError(f"{T.lab(fn)}: copy function `{cir.callee(w)}` has no definition in {T.tu}")
                if id(d) in done_copy:
                    continue
                done_copy.add(id(d))
                ps = cir.params(d)
                pt = cxx.call_param_types(w) or []
                args = cxx.call_args(w)
                dst = None
                errs = set()
                for i, a in enumerate(args):
                    if i < len(ps) and i < len(pt) and cxx.is_mutable_ref(pt[i]):
                        if storage_member(s, a):
                            dst = ps[i].get("id")
                        else:
                            errs.add(ps[i].get("id"))
                if dst is None:
                    raise AnalysisError(f"{T.lab(d)}: destination parameter not identified")
                ev2 = cxx.Events()
                cr = CopyRule(dst, errs, ev2)
                d.setdefault("file", T.tu)
                paths.explore(cr, None, d)
                if cr.unknown:
                    raise AnalysisError(f"{T.lab(d)}: returns a non-constant result; success paths cannot be decided")
                file = d.get("file") or T.tu
                for c, e in sorted(ev2.ev.items()):
                    key = f"{T.lab(d)}:{c}"
                    if e["ok"]:
                        res.ok("R-PUBLISH", key, {"file": file, "line": e["line"]})
                    else:
                        res.bad("R-PUBLISH", key, file, e["line"], e["msg"])
        if pubs == 0:
            raise AnalysisError(f"{s.name}: no function publishes the count")


# ----------------------------------------------------------------------------------------------
# R-READER-BOUND


def count_methods(s):
    """{method decl id: (method def, load op)} for methods whose body is `return <count>.load(order)`."""
    out = {}
    for name, ms in s.kl.methods.items():
        d = s.kl.method(name)
        if d is None or cir.params(d):
            continue
        st = [x for x in cir.kids(cir.body(d)) if x is not None]
        if len(st) == 1 and st[0].get("k") == "ReturnStmt" and cir.kids(st[0]):
            op = cxx.atomic_op(cir.strip(cir.kids(st[0])[0]))
            if op is not None and op.kind == "load" and op.mid == s.count["id"]:
                for m in ms:
                    out[m.get("id")] = (d, op)
    return out


def is_count_expr(s, cms, e):
    """e is count() on this / an acquire load of the count atomic."""
    e = cir.strip(e)
    if e is None:
        return False
    if e.get("k") == "CXXMemberCallExpr":
        f = cir.strip(cir.kids(e)[0])
        if f is not None and f.get("k") == "MemberExpr" and f.get("mid") in cms:
            return True
    op = cxx.atomic_op(e)
    return op is not None and op.kind == "load" and op.mid == s.count["id"] and cxx.is_acquire(op.order)


def bound_params(s, cms):
    """{method def id(): {param index}}: parameters that internal callers feed from count()."""
    out = {}
    defs = {}
    for name, ms in s.kl.methods.items():
        d = s.kl.method(name)
        if d is not None:
            for m in ms:
                defs[m.get("id")] = d
    for q, fn in s.funcs:
        for n in cxx.own_walk(cir.body(fn)):
            if n.get("k") == "CXXMemberCallExpr":
                f = cir.strip(cir.kids(n)[0])
                if f is not None and f.get("k") == "MemberExpr" and f.get("mid") in defs and cxx.this_member(f):
                    for i, a in enumerate(cir.kids(n)[1:]):
                        if is_count_expr(s, cms, a):
                            out.setdefault(id(defs[f.get("mid")]), (defs[f.get("mid")], set()))[1].add(i)
    return out


class ReaderRule(paths.Rule):
    """state: frozenset of variable ids known `< bound` since their last modification."""
    use_kinds = frozenset({"MemberExpr"})

    def __init__(self, s, bounds, ev, cms):
        self.s, self.bounds, self.ev, self.cms = s, set(bounds), ev, cms

    def initial(self, fn):
        return frozenset()

    def assign(self, st, node, ctx):
        if node.get("k") == "VarDecl":
            vid = node.get("id")
            init = [c for c in cir.kids(node) if c is not None and not c.get("k", "").endswith("Attr")]
            if init and is_count_expr(self.s, self.cms, init[-1]):
                self.bounds.add(vid)
        else:
            vid = cxx.ref_id(cir.kids(node)[0])
            if vid in self.bounds:
                self.bounds.discard(vid)
        return frozenset(x for x in st if x != vid)

    def branch(self, st, cond, taken, ctx):
        sd = cxx.cmp_sides(cond)
        if not sd:
            return st
        op, a, b = sd
        ia, ib = cxx.ref_id(a), cxx.ref_id(b)
        if ib in self.bounds and ia and ia not in self.bounds:
            v = ia
        elif ia in self.bounds and ib and ib not in self.bounds:
            v, op = ib, cxx.CMP_MIRROR[op]
        else:
            return st
        if (op == "<" and taken) or (op == ">=" and not taken):
            return st | {v}
        return st

    def use(self, st, node, ctx):
        name = self.s.block_fields.get(node.get("mid"))
        if name:
            self.ev.note(f"read:{name}", bool(st), node,
                         f"block storage `{cir.text(node)}` is accessed on a path where no index is known to be below the "
                         f"caller's bound (the count obtained by an acquire load): the access is not ordered after the "
                         f"writer's update of that storage")
        return st


def rule_readers(T, res, TE):
    for s in T.specs:
        cms = count_methods(s)
        if not cms:
            raise AnalysisError(f"{s.name}: no count() accessor (return of an atomic load of the count) found")
        seen = set()
        for mid, (d, op) in cms.items():
            if id(d) in seen:
                continue
            seen.add(id(d))
            TE.add("R-READER-BOUND", f"{T.short(s, d)}:acquire-load", s.name, cxx.is_acquire(op.order), HDR,
                   op.node.get("line"),
                   f"{op.describe()} in the count accessor is not acquire (or stronger): objects below the returned count "
                   f"are not guaranteed to be completely written", {"order": op.order})
        bp = bound_params(s, cms)
        for q, fn in s.funcs:
            if fn.get("k") == "CXXConstructorDecl" or lock_regions(T, fn):
                continue
            reads = [n for n in cxx.own_walk(cir.body(fn)) if n.get("k") == "MemberExpr" and n.get("mid") in s.block_fields]
            if not reads:
                continue
            d, idxs = bp.get(id(fn), (fn, set()))
            ps = cir.params(fn)
            bounds = {ps[i].get("id") for i in idxs if i < len(ps)}
            ev = cxx.Events()
            paths.explore(ReaderRule(s, bounds, ev, cms), None, fn)
            if not ev.ev:
                raise AnalysisError(f"{T.lab(fn)}: storage reads not visited")
            TE.from_events("R-READER-BOUND", T.short(s, fn), s.name, ev, HDR)
            fn["_bound_idx"] = sorted(idxs)


# ----------------------------------------------------------------------------------------------
# R-NO-ERROR-LOCKED


def error_reach(T):
    """fn id() -> list of chains [(function label, line)...] reaching a non-returning error call."""
    memo = {}

    def reach(fn, stack):
        k = id(fn)
        if k in memo:
            return memo[k]
        if k in stack:
            return []
        memo[k] = []
        out = []
        errvars = paths.error_msg_vars(fn)
        for n in cxx.own_walk(cir.body(fn)):
            if cir.is_call(n):
                if paths.is_noreturn_call(n, errvars):
                    out.append([(cir.callee(n), n.get("line"))])
                    continue
                d = T.resolve(n)
                if d is not None and cir.body(d) is not None:
                    for ch in reach(d, stack | {k}):
                        out.append([(T.lab(d), n.get("line"))] + ch)
            elif n.get("k") == "LambdaExpr":
                op = cxx.lambda_operator(n)
                if op is not None and cir.body(op) is not None:
                    for ch in reach(op, stack | {k}):
                        out.append([("lambda", n.get("line"))] + ch)
        memo[k] = out[:6]
        return memo[k]
    return reach


def rule_no_error(T, res, TE):
    reach = error_reach(T)
    n = 0
    nkey = {}
    spec_of = {}
    for s in T.specs:
        for q, fn in s.funcs:
            spec_of[id(fn)] = s
    for q, fn in T.funcs:
        regs = lock_regions(T, fn)
        if not regs:
            s = spec_of.get(id(fn))
            if s is not None and fn.get("k") != "CXXConstructorDecl" and any(
                    o.mid == s.count["id"] and o.kind in ("store", "rmw", "cas") for o in cxx.atomic_ops(cir.body(fn))):
                # a registration function without any lock scope: vacuous here, reported by R-LOCK
                TE.add("R-NO-ERROR-LOCKED", f"{T.owner_label(fn)}:lock-region:<none>", s.name, True, HDR, fn.get("line"), None,
                       {"note": "no write-lock local in the registration function (see R-LOCK)"})
            continue
        fn.setdefault("file", T.tu)
        errvars = paths.error_msg_vars(fn)
        for var, region, stmts in regs:
            n += 1
            # construct: <function the code belongs to>:lock-region:<table the lock is taken on> -- the same whether the
            # region is written in a lambda, a named helper or the API function itself, whatever the lock local is called
            base = f"{T.owner_label(fn)}:lock-region:{T.lock_subject(fn, var)}"
            inst = (getattr(spec_of.get(id(fn)), "name", None), base)      # numbered per instantiation
            nkey[inst] = nkey.get(inst, 0) + 1
            rkey = base if nkey[inst] == 1 else f"{base}#{nkey[inst]}"
            chains = []
            external = set()
            for st in stmts:
                for x in cxx.own_walk(st):
                    if cir.is_call(x):
                        if paths.is_noreturn_call(x, errvars):
                            chains.append([(cir.callee(x), x.get("line"))])
                            continue
                        d = T.resolve(x)
                        if d is not None and cir.body(d) is not None:
                            for ch in reach(d, frozenset()):
                                chains.append([(T.lab(d), x.get("line"))] + ch)
                        else:
                            nm = cir.callee(x)
                            if nm and not nm.startswith("operator"):
                                external.add(nm)
                    elif x.get("k") == "LambdaExpr":
                        op = cxx.lambda_operator(x)
                        if op is not None:
                            for ch in reach(op, frozenset()):
                                chains.append([("lambda", x.get("line"))] + ch)
            s = spec_of.get(id(fn))
            file = fn.get("file") or T.tu
            if s is not None:
                file = HDR
            msg = None
            if chains:
                ch = chains[0]
                msg = (f"while the write-lock local `{var.get('n')}` is alive, a path-ending error call is reachable: "
                       + " -> ".join(f"{a} (line {b})" for a, b in ch)
                       + (f" (and {len(chains) - 1} more)" if len(chains) > 1 else "")
                       + ": a handler that does not return through the frame (longjmp) leaves the mutex locked and the "
                         "per-thread lock count raised")
            if s is not None:
                TE.add("R-NO-ERROR-LOCKED", rkey, s.name, not chains, file,
                       var.get("line"), msg, {"external_calls": sorted(external)[:12]})
            else:
                key = rkey
                if chains:
                    res.bad("R-NO-ERROR-LOCKED", key, file, var.get("line"), msg)
                else:
                    res.ok("R-NO-ERROR-LOCKED", key, {"file": file, "line": var.get("line"),
                                                      "external_calls": sorted(external)[:12]})
    return n


# ----------------------------------------------------------------------------------------------
# R-UNIQ-SCAN, R-EQ-SYMMETRY


def _key_call(T, e):
    """(key function def/id, argument) when e is K(x) possibly converted; else None."""
    e = cir.strip(e)
    while e is not None and e.get("k") in ("CXXConstructExpr", "CXXTemporaryObjectExpr") and len(cir.kids(e)) == 1:
        e = cir.strip(cir.kids(e)[0])
    if e is not None and e.get("k") in ("CallExpr", "CXXMemberCallExpr"):
        f = cir.strip(cir.kids(e)[0])
        fid = (f.get("ref") or {}).get("id") if f is not None and f.get("k") == "DeclRefExpr" else \
            (f.get("mid") if f is not None else None)
        a = cir.kids(e)[1:]
        if fid and len(a) == 1:
            d = T.by_id.get(fid)
            return (id(d) if d is not None else fid), a[0]
    return None


def _unwrap(e):
    """Strip casts and single-argument (copy/conversion) constructions."""
    e = cir.strip(e)
    while e is not None and e.get("k") in ("CXXConstructExpr", "CXXTemporaryObjectExpr") and len(cir.kids(e)) == 1:
        e = cir.strip(cir.kids(e)[0])
    return e


def _callee_id(T, call):
    f = cir.strip(cir.kids(call)[0])
    if f is None:
        return None, None
    fid = (f.get("ref") or {}).get("id") if f.get("k") == "DeclRefExpr" else f.get("mid")
    d = T.by_id.get(fid)
    return (id(d) if d is not None else fid), d


def folds_case(d):
    """The comparison function compares fold(a[i]) with fold(b[i]) using the same case-folding function."""
    if d is None:
        return False
    for n in cir.walk(cir.body(d)):
        sd = cxx.cmp_sides(n) if n.get("k") == "BinaryOperator" else None
        if sd and sd[0] in ("!=", "=="):
            a, b = cir.strip(sd[1]), cir.strip(sd[2])
            if cir.is_call(a) and cir.is_call(b) and cir.callee(a) == cir.callee(b) and FOLD.match(cir.callee(a) or ""):
                return True
    return False


def _nested_stmt(st):
    """the statement in the nested view (norm.nest): early continue / break / return inside it are if-else structure"""
    from .. import norm
    v = norm.nest({"k": "FunctionDecl", "n": "<view>", "i": [{"k": "CompoundStmt", "line": st.get("line"), "i": [st]}]})
    return [x for x in cir.kids(cir.body(v)) if x is not None][0]


def rule_uniq(T, res, TE, primary, key_ids, reg_methods):
    from .. import norm
    from .c26 import counted_loop
    fold_done = False
    for s in T.specs:
        cms = count_methods(s)
        # registration function: has a lock region and publishes
        reg = None
        for q, fn in s.funcs:
            if fn.get("k") != "CXXConstructorDecl" and any(o.mid == s.count["id"] and o.kind in ("store", "rmw", "cas")
                                                           for o in cxx.atomic_ops(cir.body(fn))):
                reg = fn
        if reg is None:
            raise AnalysisError(f"{s.name}: registration function (publication of the count) not found")
        pre = T.owner_label(reg)
        body = cir.body(reg)
        cc = copy_calls_in(T, s, reg)
        # count local
        cvars = {}
        for n in cxx.own_walk(body):
            if n.get("k") == "VarDecl":
                defs = cxx.local_defs(reg, n.get("id"))
                if len(defs) == 1 and defs[0][1] is not None:
                    op = cxx.atomic_op(cir.strip(defs[0][1]))
                    if (op is not None and op.kind == "load" and op.mid == s.count["id"]) or is_count_expr(s, cms, defs[0][1]):
                        cvars[n.get("id")] = n
        # the scan: a loop counting a local from 0 up to the count local by one (for or while, c26.counted_loop)
        scan = None
        for lp in cxx.own_walk(body):
            if lp.get("k") not in ("ForStmt", "WhileStmt"):
                continue
            ks = list(cir.kids(lp))
            cond = (ks + [None] * 5)[2] if lp.get("k") == "ForStmt" else ks[0]
            sd = cxx.cmp_sides(cond) if cond is not None else None
            if sd and sd[0] == ">":
                sd = ("<", sd[2], sd[1])
            if not sd or sd[0] not in ("<", "!=") or cxx.ref_id(sd[2]) not in cvars or cxx.ref_id(sd[1]) is None:
                continue
            ivid = cxx.ref_id(sd[1])
            cl = counted_loop(body, lp, ivid)
            scan = (lp, ivid, not cl["problems"] and cl["start"] == "0", ks[-1])
            break
        ok_range = False
        if scan is not None and scan[2]:
            lp = scan[0]
            # under the lock (a missing lock is R-LOCK's report) ...
            regs = lock_regions(T, reg)
            locked = not regs or any(id(lp) in region for _v, region, _st in regs)
            # ... and on every path to the copy: the copy lies in a statement that follows the loop in its statement list
            par = cxx.enclosing_map(body)
            a_ = lp
            while id(a_) in par and par[id(a_)].get("k") == "CompoundStmt" and \
                    [x for x in cir.kids(par[id(a_)]) if x is not None] == [a_]:
                a_ = par[id(a_)]           # a block holding nothing but the loop
            P = par.get(id(a_))
            if P is None or P.get("k") != "CompoundStmt":
                raise AnalysisError(f"{T.lab(reg)}: the uniqueness scan (line {lp.get('line')}) is a branch / body of another "
                                    f"statement: whether it precedes the copy on every path is not decided")
            sibs = list(cir.kids(P))
            later = sibs[[i for i, x in enumerate(sibs) if x is a_][0] + 1:]
            after = {id(x) for st in later if st is not None for x in cxx.own_walk(st)}
            ok_range = locked and bool(cc) and all(cid in after for cid in cc)
        TE.add("R-UNIQ-SCAN", f"{pre}:scan-range", s.name, ok_range, HDR, (scan[0] if scan else reg).get("line"),
               "registration has no scan `for (i = 0; i < count; ++i)` over the count loaded under the lock, placed after "
               "taking the lock and before copying the new object: an existing key can be missed and occupy two slots")
        if scan is None:
            continue
        # key match inside the scan, read in the nested view of the loop (early continue / return are if-else structure):
        # the branch of the comparison on which the keys are equal
        nbody = cir.kids(_nested_stmt(scan[0]))[-1]
        match = None
        for n in cxx.own_walk(nbody):
            if n.get("k") != "IfStmt" or match is not None:
                continue
            _pre, cond, then, els = norm._if_parts(n)
            for side, branch in ((True, then), (False, els)):
                atoms = norm.split_cond(cond, side)
                for atom, pol in atoms:
                    e = cir.strip(cxx.resolve_local(atom, reg)) if cxx.ref_id(atom) else cir.strip(atom)
                    if e is None or e.get("k") != "CallExpr" or len(cir.kids(e)) != 3:
                        continue
                    k1, k2 = _key_call(T, cir.kids(e)[1]), _key_call(T, cir.kids(e)[2])
                    if not (k1 and k2 and k1[0] == k2[0]):
                        continue
                    if not pol:
                        continue            # this side is reached when the keys differ
                    if len(atoms) != 1:
                        raise AnalysisError(f"{T.lab(reg)}: the key comparison at line {n.get('line')} is combined with other "
                                            f"conditions: what happens on a key match is not decided")
                    match = (n, e, k1, k2, branch)
        if match is None:
            TE.add("R-UNIQ-SCAN", f"{pre}:key-match-ends-path", s.name, False, HDR, scan[0].get("line"),
                   "the scan does not compare key(new object) with key(existing object) through one comparison call")
            continue
        n, cond, k1, k2, mbranch = match
        br = [mbranch if mbranch is not None else {"k": "CompoundStmt", "line": n.get("line"), "i": []}]
        key_ids[s.name] = k1[0]
        # the registration entry points: the function the registration code belongs to and the methods of the table
        # through which it is reached
        entry = {}
        work = [T.root_of(reg)]
        while work:
            f_ = work.pop()
            if id(f_) in entry:
                continue
            entry[id(f_)] = f_
            work.extend(c for c in T.callers(f_) if T.spec_of(c) is s)
        reg_methods[s.name] = entry
        ivid = scan[1]
        rets = [x for x in cxx.own_walk(br[0]) if x.get("k") == "ReturnStmt"]
        vals = [cir.kids(r)[0] if cir.kids(r) else None for r in rets]
        good_vals = all(v is not None and (cxx.ref_id(v) == ivid or (cxx.const_int(v) or 0) < 0) for v in vals)
        has_slot = any(v is not None and cxx.ref_id(v) == ivid for v in vals)
        okm = cxx.always_ends(br[0], lambda c: cir.callee(c) in paths.NORETURN) and good_vals and has_slot
        TE.add("R-UNIQ-SCAN", f"{pre}:key-match-ends-path", s.name, okm, HDR, n.get("line"),
               "after a key match the registration does not always end the path with the existing slot or a negative "
               "error value: a second object with the same key can be appended")
        # sibling agreement with the lookup
        cmp_id, cmp_def = _callee_id(T, cond)
        look = []
        for q, fn in s.funcs:
            if fn is reg or lock_regions(T, fn):
                continue
            ps = {p.get("id") for p in cir.params(fn)}
            for x in cxx.own_walk(cir.body(fn)):
                if x.get("k") in ("CallExpr", "CXXOperatorCallExpr") and len(cir.kids(x)) == 3:
                    cid, _ = _callee_id(T, x)
                    args = cir.kids(x)[1:]
                    # one argument is (a local holding) key(element), the other comes from a parameter
                    ka = []
                    for a in args:
                        r = cxx.resolve_local(_unwrap(a), fn)
                        kc = _key_call(T, r)
                        ka.append(kc[0] if kc else None)
                    pa = [any(cxx.ref_id(y) in ps for y in cir.walk(a)) for a in args]
                    if (ka[0] and pa[1]) or (ka[1] and pa[0]):
                        look.append((fn, x, cid, ka[0] or ka[1]))
        for fn, x, cid, kid in look:
            agree = cid == cmp_id and kid == k1[0]
            TE.add("R-UNIQ-SCAN", f"{T.short(s, fn)}:comparator-agrees-with-registration", s.name, agree, HDR, x.get("line"),
                   f"the lookup compares keys with `{cir.text(cir.kids(x)[0])}` but registration's uniqueness scan uses "
                   f"`{cir.callee(cond)}` (or a different key function): lookups by name and the uniqueness scan disagree "
                   f"about which keys are equal, so one key can occupy two slots or a registered key is not found",
                   {"comparison": cir.callee(cond)})
        if primary and not fold_done:
            fold_done = True
            if cmp_def is None:
                raise AnalysisError(f"comparison function {cir.callee(cond)} has no definition in {T.tu}")
            key = f"{cir.callee(cond)}:folds-case-on-both-sides"
            if folds_case(cmp_def):
                res.ok("R-UNIQ-SCAN", key, {"file": cmp_def.get("file") or HDR, "line": cmp_def.get("line")})
            else:
                res.bad("R-UNIQ-SCAN", key, cmp_def.get("file") or HDR, cmp_def.get("line"),
                        f"{cir.callee(cond)} does not compare case-folded characters of both keys with the same folding function")
        # equality function used on a key match
        eqs = [x for x in cxx.own_walk(br[0]) if x.get("k") == "CallExpr" and len(cir.kids(x)) == 3 and
               (T.resolve(x) is not None)]
        for x in eqs[:1]:
            d = T.resolve(x)
            eq_symmetry(T, res, d)


def eq_symmetry(T, res, d):
    ps = cir.params(d)
    if len(ps) != 2:
        return
    pid = [p.get("id") for p in ps]
    seen = {}

    def path_of(e):
        """(param index, member path text) for p.f / p.f[i]."""
        e = cir.strip(e)
        root = cxx.lvalue_root(e)
        rid = cxx.ref_id(root)
        if rid in pid and e is not root:
            t = cir.text(e)
            nm = ps[pid.index(rid)].get("n") or ""
            return pid.index(rid), t[len(nm):] if t.startswith(nm) else t
        return None
    for n in cxx.own_walk(cir.body(d)):
        if n.get("k") != "IfStmt":
            continue
        c = list(cir.kids(n))
        idx = (1 if n.get("hasInit") else 0) + (1 if n.get("hasVar") else 0)
        cond = cir.strip(c[idx])
        if cond is None or cond.get("k") != "BinaryOperator" or cond.get("op") != "&&":
            continue
        a, b = (cir.strip(x) for x in cir.kids(cond))
        for pos, neg in ((a, b), (b, a)):
            if neg is not None and neg.get("k") == "UnaryOperator" and neg.get("op") == "!":
                p1, p2 = path_of(pos), path_of(cir.kids(neg)[0])
                if p1 and p2 and p1[0] != p2[0] and p1[1] == p2[1]:
                    seen.setdefault(p1[1], []).append((p1[0], n))
    file = d.get("file") or T.tu
    for path, items in sorted(seen.items()):
        key = f"{T.lab(d)}:one-sided-null:{path.lstrip('.')}"
        orient = {i for i, _ in items}
        if orient == {0, 1}:
            res.ok("R-EQ-SYMMETRY", key, {"file": file, "line": items[0][1].get("line")})
        else:
            dup = items[-1][1]
            a, b = ps[0].get("n"), ps[1].get("n")
            have = a if 0 in orient else b
            miss = b if 0 in orient else a
            res.bad("R-EQ-SYMMETRY", key, file, dup.get("line"),
                    f"the test `{have}{path} && !{miss}{path}` occurs {len(items)} time(s) but the mirrored test "
                    f"`{miss}{path} && !{have}{path}` never: an object whose {path.lstrip('.')} is null compares equal to a "
                    f"registered one whose {path.lstrip('.')} is set, so a conflicting re-registration is accepted as identical")


# ----------------------------------------------------------------------------------------------
# R-KEY-NONEMPTY

STRLEN = {"strlen", "strklen", "strnlen", "std::strlen"}


def _if_conds(fn):
    for n in cxx.own_walk(cir.body(fn)):
        if n.get("k") == "IfStmt":
            c = list(cir.kids(n))
            idx = (1 if n.get("hasInit") else 0) + (1 if n.get("hasVar") else 0)
            yield n, c[idx], c[idx + 1:]
        elif n.get("k") in ("WhileStmt",):
            yield n, cir.kids(n)[0], [cir.kids(n)[-1]]
        elif n.get("k") == "ConditionalOperator":
            yield n, cir.kids(n)[0], list(cir.kids(n)[1:])


def sentinel_readers(T, s, key_id):
    """Readers that end the lookup when key(element).empty(): [(fn, node)].

    The test may be an `if` / loop condition or the condition of a returned `?:`, directly or through a single-definition
    bool local, in either polarity (`if (k.empty()) return 0;`, `ok = !(p && k.empty()); return ok ? p : 0;`): what counts
    is that the side on which the key is empty ends the path."""
    from .. import norm
    out = []
    for q, fn in s.funcs:
        if lock_regions(T, fn) or fn.get("k") == "CXXConstructorDecl":
            continue
        returned = {id(cir.strip(cir.kids(r)[0])) for r in cxx.own_walk(cir.body(fn))
                    if r.get("k") == "ReturnStmt" and cir.kids(r) and cir.kids(r)[0] is not None}

        def key_empty(x):
            x = cir.strip(x)
            if x is None or x.get("k") != "CXXMemberCallExpr" or cir.callee(x) != "empty":
                return False
            f = cir.strip(cir.kids(x)[0])
            obj = cxx.resolve_local(_unwrap(cir.kids(f)[0]), fn) if f is not None and cir.kids(f) else None
            kc = _key_call(T, obj)
            return bool(kc) and kc[0] == key_id
        for n, cond, br in _if_conds(fn):
            c = cxx.resolve_local(cond, fn) if cxx.ref_id(cond) else cond
            for side in (True, False):
                branch = br[0] if side else (br[1] if len(br) > 1 else None)
                if not any(pol and key_empty(atom) for atom, pol in norm.split_cond(c, side)):
                    continue
                if n.get("k") == "ConditionalOperator":
                    ends = id(n) in returned
                else:
                    ends = branch is not None and n.get("k") == "IfStmt" and cxx.always_ends(branch)
                if ends:
                    out.append((fn, n))
    return out


def key_fields(keydef):
    """Member paths of the object parameter that the key function can return as the key's characters."""
    ps = cir.params(keydef)
    if len(ps) != 1:
        return set()
    pid, pn = ps[0].get("id"), ps[0].get("n") or ""
    out = set()
    for r in cir.walk(cir.body(keydef)):
        if r.get("k") != "ReturnStmt":
            continue
        for x in cir.walk(r):
            if x.get("k") == "MemberExpr" and cxx.ref_id(cxx.lvalue_root(x)) == pid:
                t = cir.text(x)
                out.add(t[len(pn):].lstrip(".") if t.startswith(pn) else t)
                break
    return out


def _field_of(e, bases):
    """member path text if e is <base>.F / <base>->F with base variable in bases."""
    e = cir.strip(e)
    if e is None or e.get("k") != "MemberExpr":
        return None
    root = cxx.lvalue_root(e)
    if cxx.ref_name(root) in bases:
        return e.get("n")
    return None


def nonempty_evidence(T, G, bases, field):
    """Why G may assume <obj>.<field> is a non-empty string, or None.  Idioms (one line each):
    E1 `F[0]` tested in a condition                 E2 strlen-family(F) tested in a condition
    E3 F passed, in a condition, to a TU function that tests strlen(param) / param[0] itself
    E4 every non-null assignment to F is `s.c_str()` nested in `if (!s.empty())`"""
    for n, cond, br in _if_conds(G):
        for x in cir.walk(cond):
            if x.get("k") == "ArraySubscriptExpr" and _field_of(cir.kids(x)[0], bases) == field and \
                    cxx.const_int(cir.kids(x)[1]) == 0:
                return "E1 first character tested"
            if cir.is_call(x) and (cir.callee(x) in STRLEN):
                if any(_field_of(a, bases) == field for a in cir.args(x)):
                    return f"E2 {cir.callee(x)}() tested"
            if x.get("k") == "CallExpr":
                d = T.resolve(x)
                if d is not None and cir.body(d) is not None:
                    for i, a in enumerate(cir.args(x)):
                        if _field_of(a, bases) == field and i < len(cir.params(d)):
                            p = cir.params(d)[i]
                            for n2, c2, b2 in _if_conds(d):
                                for y in cir.walk(c2):
                                    if cir.is_call(y) and cir.callee(y) in STRLEN and \
                                            any(cxx.ref_id(z) == p.get("id") for z in cir.args(y)):
                                        return f"E3 validated by {d.get('n')}()"
                                    if y.get("k") == "ArraySubscriptExpr" and cxx.ref_id(cir.kids(y)[0]) == p.get("id") and \
                                            cxx.const_int(cir.kids(y)[1]) == 0:
                                        return f"E3 validated by {d.get('n')}()"
    # E4 (read in the nested view: `if (s.empty()) continue; F = s.c_str();` is `if (!s.empty()) F = s.c_str();`)
    from .. import norm
    try:
        nbody = cir.body(norm.nest(G, fatal=True))
    except AnalysisError:
        raise
    except Exception as ex:       # a statement shape the nested view does not cover: this idiom cannot be read
        raise AnalysisError(f"{T.lab(G)}: nested view not available ({type(ex).__name__}: {ex})")
    assigns = []
    for lv, w, how in cxx.writes(nbody):
        if how == "assign" and _field_of(lv, bases) == field and w.get("k") == "BinaryOperator":
            rhs = cir.strip(cir.kids(w)[1])
            if rhs is not None and rhs.get("k") in ("CXXNullPtrLiteralExpr", "GNUNullExpr"):
                continue
            assigns.append((w, rhs))
    if assigns:
        good = 0
        for w, rhs in assigns:
            okk = False
            if rhs is not None and rhs.get("k") == "CXXMemberCallExpr" and cir.callee(rhs) == "c_str":
                f = cir.strip(cir.kids(rhs)[0])
                sid = cxx.ref_id(cir.kids(f)[0]) if f is not None and cir.kids(f) else None
                for g, pol in (norm.guards(nbody, w) or []) if sid else ():
                    e = cir.strip(g)
                    if not pol and e is not None and e.get("k") == "CXXMemberCallExpr" and cir.callee(e) == "empty":
                        f2 = cir.strip(cir.kids(e)[0])
                        if f2 is not None and cir.kids(f2) and cxx.ref_id(cir.kids(f2)[0]) == sid:
                            okk = True
            good += okk
        if good == len(assigns):
            return "E4 assigned only from non-empty std::string"
    return None


def rule_key_nonempty(T, res, key_ids, reg_methods):
    """Readers stop at the first element whose key is empty; so no registration may store an empty key."""
    for s in T.specs:
        kid = key_ids.get(s.name)
        if kid is None:
            continue
        keydef = next((f for q, f in T.funcs if id(f) == kid), None)
        sents = sentinel_readers(T, s, kid)
        if not sents or keydef is None:
            continue
        fields = key_fields(keydef)
        if not fields:
            raise AnalysisError(f"{T.lab(keydef)}: key fields not identified")
        M = reg_methods.get(s.name) or {}
        # private helpers of the TU (validation chain moved to a helper, registration loop moved to a function template) are
        # read inside their callers; a helper all of whose calls were expanded has no obligations of its own
        all_calls, expanded_calls = {}, set()
        for q, F in T.funcs:
            for x in cxx.own_walk(cir.body(F)):
                if cir.is_call(x):
                    d = T.resolve(x)
                    if d is not None:
                        all_calls.setdefault(id(d), []).append(id(x))
            if T.spec_of(F) is None:
                expanded_calls |= T.view(F)[1]
        for q, G0 in T.funcs:
            if any(f is G0 for _, f in s.funcs) or T.spec_of(G0) is not None:
                continue
            if T.is_private_helper(G0) and all_calls.get(id(G0)) and all(c in expanded_calls for c in all_calls[id(G0)]):
                continue
            G = T.view(G0)[0]
            sites = [n for n in cxx.own_walk(cir.body(G)) if n.get("k") == "CXXMemberCallExpr" and
                     id(T.resolve(n) or G) in M]
            if not sites:
                continue
            bases = set()
            for n in sites:
                a = cir.kids(n)[1] if len(cir.kids(n)) > 1 else None
                r = cxx.lvalue_root(_unwrap(a))
                if cxx.ref_name(r):
                    bases.add(cxx.ref_name(r))
            # locals copied from *X / X: X is the same object for the purpose of the tests
            for n in cxx.own_walk(cir.body(G)):
                if n.get("k") == "VarDecl" and n.get("n") in bases:
                    for x in cir.walk(n):
                        if x.get("k") == "DeclRefExpr" and (x.get("ref") or {}).get("k") in ("ParmVarDecl", "VarDecl") \
                                and (x.get("ref") or {}).get("n") != n.get("n"):
                            bases.add((x.get("ref") or {}).get("n"))
            G.setdefault("file", T.tu)
            glab = T.lab(G0)
            if sum(1 for _, g in T.funcs if T.lab(g) == glab) > 1:
                glab = f"{glab}<{s.arg}>"          # instantiations of a function template
            for f in sorted(fields):
                key = f"{glab}:key-nonempty:{f}"
                why = nonempty_evidence(T, G, bases, f.split(".")[-1].split("[")[0])
                if why:
                    res.ok("R-KEY-NONEMPTY", key, {"file": G.get("file") or T.tu, "line": sites[0].get("line"), "idiom": why})
                else:
                    res.bad("R-KEY-NONEMPTY", key, G.get("file") or T.tu, sites[0].get("line"),
                            f"{T.lab(G0)} registers an object whose key can be `{f}` without establishing that it is a "
                            f"non-empty string, but {T.short(s, sents[0][0])} treats an empty key as the end of the table: "
                            f"after registering `{f} == \"\"` every object in a later slot can no longer be found by key")


# ----------------------------------------------------------------------------------------------
# R-PROVENANCE


def provenance(res, tables, repo):
    """Call sites of bound-taking accessors (members with count-fed parameters and their wrappers)."""
    # 1. member accessors and the position of their bound parameter (from R-READER-BOUND's discovery)
    T = tables[0]
    count_funcs = {}     # free function name -> table arg
    wrappers = {}        # free function name -> (table arg, bound param index)
    member_u = {}        # method def id() -> (spec, index set)
    for TT in tables:
        for s in TT.specs:
            for q, fn in s.funcs:
                if fn.get("_bound_idx"):
                    member_u[id(fn)] = (s, fn["_bound_idx"])
    # 2. free functions of the C++ TUs: count wrappers and accessor wrappers
    sites = 0
    for TT in tables:
        spec_by_method = {}
        cms_all = {}
        for s in TT.specs:
            for mid in s.kl.method_ids():
                spec_by_method[mid] = s
            for mid in count_methods(s):
                cms_all[mid] = s
        for q, fn in TT.funcs:
            if "::" in q or ":lambda" in q or fn.get("k") != "FunctionDecl":
                continue
            st = [x for x in cir.kids(cir.body(fn)) if x is not None]
            if len(st) == 1 and st[0].get("k") == "ReturnStmt" and cir.kids(st[0]):
                e = cir.strip(cir.kids(st[0])[0])
                if e is not None and e.get("k") == "CXXMemberCallExpr":
                    f = cir.strip(cir.kids(e)[0])
                    if f is not None and f.get("mid") in cms_all:
                        count_funcs[fn.get("n")] = cms_all[f.get("mid")].arg
    res.extra["count_functions"] = dict(count_funcs)

    def classify(arg, fn, table_arg, cms_local=None, spec=None):
        """'count' | 'param:<i>' | reason string starting with '!'"""
        e = cir.strip(arg)
        if e is None:
            return "!no argument"
        if spec is not None and is_count_expr(spec, cms_local, e):
            return "count"
        if e.get("k") == "CallExpr" and cir.callee(e) in count_funcs:
            if count_funcs[cir.callee(e)] != table_arg:
                return f"!{cir.callee(e)}() counts a different table ({count_funcs[cir.callee(e)]}, accessor reads {table_arg})"
            return "count"
        if e.get("k") == "DeclRefExpr":
            r = e.get("ref") or {}
            if r.get("k") == "ParmVarDecl":
                ps = cir.params(fn)
                for i, p in enumerate(ps):
                    if p.get("id") == r.get("id") or (p.get("n") == r.get("n") and r.get("id") is None):
                        if any(cxx.ref_id(lv) == p.get("id") for lv, w, h in cxx.writes(cir.body(fn), own=False)):
                            return f"!parameter {p.get('n')} is modified before it is used as the bound"
                        return f"param:{i}"
            if r.get("k") == "VarDecl":
                defs = cxx.local_defs(fn, r.get("id"))
                if not defs:
                    return f"!`{r.get('n')}` is not a local of this function"
                for dn, val in defs:
                    if val is None:
                        return f"!`{r.get('n')}` has a definition that is not a count call (line {dn.get('line')})"
                    c = classify(val, fn, table_arg, cms_local, spec)
                    if c != "count":
                        return f"!`{r.get('n')}` is defined from `{cir.text(val)}` (line {dn.get('line')})" if not c.startswith("!") else c
                return "count"
        return f"!`{cir.text(e)}` is not obtained from the table's count"

    # 3. member call sites in the C++ TUs (wrappers discovered here)
    pending = []
    for TT in tables:
        for q, fn in TT.funcs:
            s_here = None
            for s in TT.specs:
                if any(f is fn for _, f in s.funcs):
                    s_here = s
            for n in cxx.own_walk(cir.body(fn)):
                if n.get("k") != "CXXMemberCallExpr":
                    continue
                d = TT.resolve(n)
                if d is None or id(d) not in member_u:
                    continue
                s, idxs = member_u[id(d)]
                cms = count_methods(s)
                for i in idxs:
                    a = cir.kids(n)[1:][i]
                    sites += 1
                    c = classify(a, fn, s.arg, cms, s if s_here is s else None)
                    key = f"{TT.lab(fn)}->{d.get('n')}:bound"
                    file = (fn.get("file") or TT.tu) if s_here is None else HDR
                    if c == "count":
                        res.ok("R-PROVENANCE", key, {"file": file, "line": n.get("line"), "bound": cir.text(a)})
                    elif c.startswith("param:") and fn.get("k") == "FunctionDecl":
                        wrappers[fn.get("n")] = (s.arg, int(c.split(":")[1]))
                        res.ok("R-PROVENANCE", key, {"file": file, "line": n.get("line"), "bound": cir.text(a),
                                                     "note": "forwards its own parameter: callers are checked"})
                    elif c.startswith("param:"):
                        # a member forwarding its own bound parameter: covered if that parameter is itself count-fed
                        if id(fn) in member_u and int(c.split(":")[1]) in member_u[id(fn)][1]:
                            res.ok("R-PROVENANCE", key, {"file": file, "line": n.get("line"), "bound": cir.text(a)})
                        else:
                            res.bad("R-PROVENANCE", key, file, n.get("line"),
                                    f"bound `{cir.text(a)}` of {d.get('n')} is a parameter no internal caller feeds from count()")
                    else:
                        res.bad("R-PROVENANCE", key, file, n.get("line"),
                                f"bound argument of {d.get('n')}: {c[1:]}: the accessor may read slots that are not yet published")
    if not wrappers:
        raise AnalysisError("no C wrapper of a bound-taking accessor found (anchors mjp_get*Unsafe moved?)")
    res.extra["unsafe_wrappers"] = {k: list(v) for k, v in wrappers.items()}
    # 4. callers of the wrappers anywhere under src/
    names = sorted(wrappers)
    pat = re.compile(r"\b(" + "|".join(map(re.escape, names)) + r")\s*\(")
    tus = []
    for dp, dn, fns in os.walk(os.path.join(repo, "src")):
        for f in sorted(fns):
            if not f.endswith((".c", ".cc", ".cpp", ".h", ".hh")):
                continue
            p = os.path.join(dp, f)
            try:
                txt = open(p, errors="replace").read()
            except OSError:
                continue
            if pat.search(txt):
                rel = os.path.relpath(p, repo)
                if rel.endswith((".h", ".hh")):
                    # declarations only are fine; a call in a header is outside what is parsed here
                    body = re.sub(r"//[^\n]*", "", txt)
                    for m in pat.finditer(body):
                        line_start = body.rfind("\n", 0, m.start()) + 1
                        prefix = body[line_start:m.start()]
                        if not re.search(r"\b(const|MJAPI|extern|[A-Za-z_]\w*\s*\*)\s*$", prefix.strip() + " ") and "=" in prefix:
                            raise AnalysisError(f"{rel}: call of {m.group(1)} in a header is not analysed")
                    continue
                tus.append(rel)
    res.count("tus_calling_unsafe_wrappers", len(tus))
    for tu in sorted(tus):
        if tu in [t.tu for t in tables]:
            u_funcs = [(q, fn) for TT in tables if TT.tu == tu for q, fn in TT.funcs]
        else:
            lang = "c" if tu.endswith(".c") else "cxx"
            u = engine.unit(tu, repo) if lang == "c" else cir.Unit(cfront.load_tu(tu, repo, lang="cxx"))
            u_funcs = [(n, f) for n, f in sorted(u.funcs.items()) if (f.get("file") or tu) == tu]
        for q, fn in u_funcs:
            nth = {}
            for n in cir.walk(cir.body(fn)):
                if n.get("k") == "CallExpr" and cir.callee(n) in wrappers:
                    targ, i = wrappers[cir.callee(n)]
                    a = cir.args(n)[i]
                    sites += 1
                    c = classify(a, fn, targ)
                    nth[cir.callee(n)] = nth.get(cir.callee(n), 0) + 1
                    key = f"{q}->{cir.callee(n)}:bound" + (f"#{nth[cir.callee(n)]}" if nth[cir.callee(n)] > 1 else "")
                    if c == "count":
                        res.ok("R-PROVENANCE", key, {"file": tu, "line": n.get("line"), "bound": cir.text(a)})
                    elif c.startswith("param:"):
                        res.bad("R-PROVENANCE", key, tu, n.get("line"),
                                f"{q} forwards its own parameter as the bound of {cir.callee(n)}: second-level wrappers are "
                                f"not followed; obtain the bound from the count function in this function")
                    else:
                        res.bad("R-PROVENANCE", key, tu, n.get("line"),
                                f"bound argument of {cir.callee(n)}: {c[1:]}: the accessor may read slots that are not yet published")
    res.count("unsafe_call_sites", sites)


# ----------------------------------------------------------------------------------------------


def run(res, tier):
    repo = cfront.REPO
    res.rule("R-LOCK", "storage writes and count stores only inside the scope of a write-lock local of the same table; "
             "the lock class locks the mutex it is given (no skip justified by state shared between mutexes)", floor=13)
    res.rule("R-PUBLISH", "count published by a release store of (count under lock)+1 only after the copy returned true; "
             "copy specialisations return true only after assigning the destination, never after writing an error",
             floor=16)
    res.rule("R-READER-BOUND", "lock-free readers access block storage only where an index is known < the count-fed "
             "bound; count() is an acquire load", floor=16)
    res.rule("R-NO-ERROR-LOCKED", "no path-ending error call in the call closure of a region where a write lock is alive",
             floor=5)
    res.rule("R-PROVENANCE", "bounds passed to *Unsafe accessors come from the count function of the same table in the "
             "same function (or are forwarded parameters of a wrapper whose callers are checked)", floor=15)
    res.rule("R-UNIQ-SCAN", "uniqueness scan over [0,count) under the lock before the copy; key match ends the path; "
             "same key and comparison functions as the lookup; comparison folds case", floor=13)
    res.rule("R-EQ-SYMMETRY", "one-sided null tests of the equality specialisations occur in both orientations", floor=2)
    res.rule("R-KEY-NONEMPTY", "readers treat an empty key as end of table, so every function that registers an object "
             "establishes (idioms E1-E4) that each field the key function can return is a non-empty string", floor=6)

    tables = [TableTU(TU_MAIN, repo)]
    for tu in TU_EXTRA:
        if os.path.exists(os.path.join(repo, tu)):
            tables.append(TableTU(tu, repo))
    res.count("tus", len(tables))
    TE = TemplEvents()
    nreg = 0
    for i, T in enumerate(tables):
        res.count("instantiations", len(T.specs))
        res.count("functions", len(T.funcs))
        rule_lock(T, res, TE)
        if i == 0:
            rule_lock_identity(T, res)
        rule_publish(T, res, TE)
        rule_readers(T, res, TE)
        nreg += rule_no_error(T, res, TE)
        key_ids, reg_methods = {}, {}
        rule_uniq(T, res, TE, (i == 0), key_ids, reg_methods)
        rule_key_nonempty(T, res, key_ids, reg_methods)
    TE.flush(res)
    res.count("lock_regions", nreg)
    provenance(res, tables, repo)
    res.extra["instantiations"] = {T.tu: [s.name for s in T.specs] for T in tables}
    res.extra["lock_classes"] = sorted({c for T in tables for c in T.lock_classes})

    res.explanation = (
        "Every instantiation of GlobalTable<T> in engine_plugin.cc and experimental/platform/ux/plugin.cc is analysed on "
        "its instantiated (type-checked) AST: storage writes only under the table's own write-lock local; count published "
        "by release store of count+1 only after a successful copy, with each CopyObject specialisation returning true only "
        "after assigning the destination; lock-free readers touch block storage only below the count-fed bound; no "
        "path-ending error call while a write lock is alive (closure inside the TU); every *Unsafe call site in src/ feeds "
        "the bound from the same table's count function; uniqueness scan range, key-match handling and comparator "
        "agreement with the lookup; symmetry of the null tests in ObjectEqual. Reports on template code are given once per "
        "source construct with the list of instantiations.")
    res.not_decided = (
        "linearizability and absence of torn reads over interleavings as such are model checking and not decided here; "
        "foreign code executed by dlopen() inside the locked region of mj_loadAllPluginLibraries (library initialisers that "
        "register plugins and may call mju_error) and calls through function pointers are outside the closure; R-KEY-NONEMPTY "
        "accepts the existence of a recognised emptiness test in the registering function, not its dominance")
    res.assumptions = [
        "function-local static initialisation of the singleton is thread-safe (C++11 magic statics)",
        "std::mutex lock/unlock and std::atomic operations have their specified semantics",
    ]
    res.trusted.append("sa.paths all-paths engine; sa.cxx atomic/lock recognisers; clang template instantiation")


# ----------------------------------------------------------------------------------------------
# self-test fixtures (thorough tier)

PL = "src/engine/engine_plugin.cc"
_COPY_IF = "      if (!CopyObject(block->objects[local_idx], obj, err)) {\n        return -1;\n      }\n\n      // increment the global count with a release memory barrier\n      count_.store(count + 1, std::memory_order_release);\n"

MUTANTS = [
    # ---- must fire
    {"id": "no-lock", "expect": ("R-LOCK", "AppendIfUnique:write:objects"),
     "edits": [(HDR, "      auto lock = LockExclusively();\n", "")]},
    {"id": "lock-scope-too-small", "expect": ("R-LOCK", "AppendIfUnique:write:count_"),
     "edits": [(HDR, "      auto lock = LockExclusively();\n\n      int count = count_.load(std::memory_order_acquire);",
                "      int count;\n      {\n        auto lock = LockExclusively();\n        count = count_.load(std::memory_order_acquire);\n      }")]},
    {"id": "publish-before-copy", "expect": ("R-PUBLISH", "publish:count_:after-successful-copy"),
     "edits": [(HDR, _COPY_IF, "      count_.store(count + 1, std::memory_order_release);\n      if (!CopyObject(block->objects[local_idx], obj, err)) {\n        return -1;\n      }\n")]},
    {"id": "publish-ignores-copy-result", "expect": ("R-PUBLISH", "publish:count_:after-successful-copy"),
     "edits": [(HDR, "      if (!CopyObject(block->objects[local_idx], obj, err)) {\n        return -1;\n      }\n", "      CopyObject(block->objects[local_idx], obj, err);\n")]},
    {"id": "publish-relaxed", "expect": ("R-PUBLISH", "publish:count_:release"),
     "edits": [(HDR, "count_.store(count + 1, std::memory_order_release);", "count_.store(count + 1, std::memory_order_relaxed);")]},
    {"id": "publish-plus-two", "expect": ("R-PUBLISH", "publish:count_:value"),
     "edits": [(HDR, "count_.store(count + 1, std::memory_order_release);", "count_.store(count + 2, std::memory_order_release);")]},
    {"id": "copy-true-on-error", "expect": ("R-PUBLISH", "GlobalTable<mjpDecoder>::CopyObject:success-implies-copied"),
     "edits": [(PL, "        std::snprintf(err, sizeof(err), \"failed to allocate memory for decoder content_type\");\n      }\n      return false;",
                "        std::snprintf(err, sizeof(err), \"failed to allocate memory for decoder content_type\");\n      }\n      return true;")]},
    {"id": "count-relaxed", "expect": ("R-READER-BOUND", "count:acquire-load"),
     "edits": [(HDR, "    return count_.load(std::memory_order_acquire);", "    return count_.load(std::memory_order_relaxed);")]},
    {"id": "slot-not-bounded", "expect": ("R-READER-BOUND", "GetAtSlotUnsafe:read:objects"),
     "edits": [(HDR, "    if (slot < 0 || slot >= nslot) {", "    if (slot < 0 || nslot < 0) {")]},
    {"id": "key-scan-not-bounded", "expect": ("R-READER-BOUND", "GetByKeyUnsafe:read:objects"),
     "edits": [(HDR, "          i < TableBlock<T>::kBlockSize && found_slot < nslot;", "          i < TableBlock<T>::kBlockSize;")]},
    {"id": "error-in-locked-lambda", "expect": ("R-NO-ERROR-LOCKED", "AppendIfUnique:lock-region"),
     "edits": [(HDR, "                          HumanReadableTypeName(), std::string(ObjectKey(obj)).c_str());\n            return -1;",
                "                          HumanReadableTypeName(), std::string(ObjectKey(obj)).c_str());\n            mju_error(\"%s\", err);")]},
    {"id": "error-in-copy-closure", "expect": ("R-NO-ERROR-LOCKED", "AppendIfUnique:lock-region"),
     "edits": [(PL, "      std::snprintf(err, sizeof(err), \"failed to allocate memory for resource provider prefix\");\n    }\n    return false;",
                "      mju_error(\"failed to allocate memory for resource provider prefix\");\n    }\n    return false;")]},
    {"id": "bound-from-model", "expect": ("R-PROVENANCE", "mj_passive->mjp_getPluginAtSlotUnsafe:bound"),
     "edits": [("src/engine/engine_passive.c", "    const int nslot = mjp_pluginCount();", "    const int nslot = m->nplugin;")]},
    {"id": "bound-from-other-table", "expect": ("R-PROVENANCE", "compute_plugin_sensors->mjp_getPluginAtSlotUnsafe:bound"),
     "edits": [("src/engine/engine_sensor.c", "  const int nslot = mjp_pluginCount();", "  const int nslot = mjp_resourceProviderCount();")]},
    {"id": "bound-redefined", "expect": ("R-PROVENANCE", "mjc_getSDF->mjp_getPluginAtSlotUnsafe:bound"),
     "edits": [("src/engine/engine_collision_sdf.c", "  const int nslot = mjp_pluginCount();\n  const int slot = m->plugin[instance];",
                "  int nslot = mjp_pluginCount();\n  const int slot = m->plugin[instance];\n  if (slot >= nslot) nslot = slot + 1;")]},
    {"id": "scan-from-one", "expect": ("R-UNIQ-SCAN", "AppendIfUnique:scan-range"),
     "edits": [(HDR, "      for (int i = 0; i < count; ++i, ++local_idx) {", "      for (int i = 1; i < count; ++i, ++local_idx) {")]},
    {"id": "match-falls-through", "expect": ("R-UNIQ-SCAN", "AppendIfUnique:key-match-ends-path"),
     "edits": [(HDR, "          } else {\n            return i;\n          }", "          } else {\n            break;\n          }")]},
    {"id": "lookup-case-sensitive", "expect": ("R-UNIQ-SCAN", "GetByKeyUnsafe:comparator-agrees-with-registration"),
     "edits": [(HDR, "        if (CaseInsensitiveEqual(candidate_key, key)) {", "        if (std::operator==(candidate_key, key)) {")]},
    {"id": "no-case-folding", "expect": ("R-UNIQ-SCAN", "CaseInsensitiveEqual:folds-case-on-both-sides"),
     "edits": [(HDR, "    if (std::tolower(s1[i]) != std::tolower(s2[i])) {", "    if (std::tolower(s1[i]) != s2[i]) {")]},
    {"id": "plugin-empty-name-accepted", "expect": ("R-KEY-NONEMPTY", "mjp_registerPlugin:key-nonempty:name"),
     "edits": [(PL, "  } else if (plugin->name[0] == '\\0') {\n    mju_error(\"plugin->name is an empty string\");\n", "")]},
    # ---- controls
    {"id": "ok-strengthen-seq-cst", "expect": None,
     "edits": [(HDR, "count_.store(count + 1, std::memory_order_release);", "count_.store(count + 1);"),
               (HDR, "    return count_.load(std::memory_order_acquire);", "    return count_.load(std::memory_order_seq_cst);")]},
    {"id": "ok-rename-locals", "expect": None,
     "edits": [(HDR, "local_idx", "li", 99), (HDR, "existing", "cur", 99), (HDR, "found_slot", "seen", 99),
               (HDR, "auto lock = LockExclusively();", "auto guard = LockExclusively();")]},
    {"id": "ok-reorder-independent", "expect": None,
     "edits": [(HDR, "      int local_idx = 0;\n      TableBlock<T>* block = &first_block_;\n", "      TableBlock<T>* block = &first_block_;\n      int local_idx = 0;\n")]},
    {"id": "ok-direct-lock-construction", "expect": None,
     "edits": [(HDR, "      auto lock = LockExclusively();\n", "      ReentrantWriteLock lock(mutex());\n")]},
    {"id": "ok-copy-result-in-variable", "expect": None,
     "edits": [(HDR, "      if (!CopyObject(block->objects[local_idx], obj, err)) {\n        return -1;\n      }\n",
                "      bool copied = CopyObject(block->objects[local_idx], obj, err);\n      if (!copied) {\n        return -1;\n      }\n")]},
    {"id": "ok-bound-assigned-later", "expect": None,
     "edits": [("src/engine/engine_passive.c", "    const int nslot = mjp_pluginCount();", "    int nslot;\n    nslot = mjp_pluginCount();")]},
    # ---- refactored shapes (refactors/D-p2, D-p3): the same code as a named method / helper / template, inverted guards
    {"id": "ok-registration-in-named-method", "expect": None,
     "edits": [(HDR, "    int slot = [&]() {\n      auto lock = LockExclusively();\n",
                "    const int slot = TryAppendLocked(obj, err);\n    if (slot >= 0) {\n      return slot;\n    }\n"
                "    err[sizeof(err) - 1] = '\\0';\n    mju_error(\"%s\", err);\n    return slot;\n  }\n\n"
                "  int TryAppendLocked(const T& obj, ErrorMessage& err) {\n    {\n      auto lock = LockExclusively();\n"),
               (HDR, "      return count;\n    }();\n", "      return count;\n    }\n  }\n\n  int UnusedTail(const T& obj, ErrorMessage& err, int slot) {\n")]},
    {"id": "ok-scan-match-inverted-continue", "expect": None,
     "edits": [(HDR, "        if (CaseInsensitiveEqual(ObjectKey(obj), ObjectKey(existing))) {\n",
                "        if (!CaseInsensitiveEqual(ObjectKey(obj), ObjectKey(existing))) {\n          continue;\n        }\n        {\n")]},
    {"id": "ok-scan-match-result-in-local", "expect": None,
     "edits": [(HDR, "        if (CaseInsensitiveEqual(ObjectKey(obj), ObjectKey(existing))) {\n",
                "        const bool same_key = CaseInsensitiveEqual(ObjectKey(obj), ObjectKey(existing));\n        if (same_key) {\n")]},
    {"id": "ok-sentinel-folded-into-return", "expect": None,
     "edits": [(HDR, "    if (obj && ObjectKey(*obj).empty()) {\n      return nullptr;\n    }\n\n    return obj;",
                "    const bool initialized = !(obj && ObjectKey(*obj).empty());\n    return initialized ? obj : nullptr;")]},
    {"id": "ok-plugin-validation-in-helper", "expect": None,
     "edits": [(PL, "int mjp_registerPlugin(const mjpPlugin* plugin) {\n  if (!plugin->name) {",
                "static void CheckPluginFields(const mjpPlugin* plugin) {\n  if (!plugin->name) {"),
               (PL, "              kMaxAttributes);\n  }\n\n  return GlobalTable<mjpPlugin>::GetSingleton().AppendIfUnique(*plugin);",
                "              kMaxAttributes);\n  }\n}\n\nint mjp_registerPlugin(const mjpPlugin* plugin) {\n  CheckPluginFields(plugin);\n"
                "  return GlobalTable<mjpPlugin>::GetSingleton().AppendIfUnique(*plugin);")]},
    {"id": "ok-extension-loop-in-template", "expect": None,
     "edits": [(PL, "// register a resource decoder\nvoid mjp_registerDecoder(",
                "template <typename T>\nstatic void RegisterForEachExtension(T& object_copy, const char* extensions) {\n"
                "  std::string extensions_str(extensions);\n  std::stringstream ss(extensions_str);\n  std::string extension;\n"
                "  while (std::getline(ss, extension, '|')) {\n    if (extension.empty()) {\n      continue;\n    }\n"
                "    object_copy.extension = extension.c_str();\n    GlobalTable<T>::GetSingleton().AppendIfUnique(object_copy);\n  }\n}\n\n"
                "// register a resource decoder\nvoid mjp_registerDecoder("),
               (PL, "    std::string extensions_str(decoder->extension);\n    std::stringstream ss(extensions_str);\n    std::string extension;\n"
                    "    while (std::getline(ss, extension, '|')) {\n      if (!extension.empty()) {\n        decoder_copy.extension = extension.c_str();\n"
                    "        GlobalTable<mjpDecoder>::GetSingleton().AppendIfUnique(decoder_copy);\n      }\n    }\n",
                "    RegisterForEachExtension(decoder_copy, decoder->extension);\n"),
               (PL, "    std::string extensions_str(encoder->extension);\n    std::stringstream ss(extensions_str);\n    std::string extension;\n"
                    "    while (std::getline(ss, extension, '|')) {\n      if (!extension.empty()) {\n        encoder_copy.extension = extension.c_str();\n"
                    "        GlobalTable<mjpEncoder>::GetSingleton().AppendIfUnique(encoder_copy);\n      }\n    }\n",
                "    RegisterForEachExtension(encoder_copy, encoder->extension);\n")]},
    {"id": "ok-load-lambda-as-named-function", "expect": None,      # the known finding keeps its construct key
     "edits": [(PL, "void mj_loadAllPluginLibraries(const char* directory,\n                               mjfPluginLibraryLoadCallback callback) {\n"
                    "  auto load_dso_and_call_callback = [&](const std::string& filename,\n                                        const std::string& dso_path) {\n",
                "static void LoadLibraryAndNotify(const std::string& filename, const std::string& dso_path,\n"
                "                                 mjfPluginLibraryLoadCallback callback) {\n  {\n"),
               (PL, "      callback(filename.c_str(), first, count);\n    }\n  };\n",
                "      callback(filename.c_str(), first, count);\n    }\n  }\n}\n\n"
                "void mj_loadAllPluginLibraries(const char* directory,\n                               mjfPluginLibraryLoadCallback callback) {\n"),
               (PL, "load_dso_and_call_callback(name.c_str(), dso_path.c_str());", "LoadLibraryAndNotify(name.c_str(), dso_path.c_str(), callback);", 99)]},
    {"id": "ok-load-lock-guard-renamed", "expect": None,
     "edits": [(PL, "      auto lock = plugin_table.LockExclusively();", "      auto table_guard = plugin_table.LockExclusively();")]},
    # the helper validates nothing: the obligation of the API function is still open
    {"id": "plugin-validation-helper-skips-name", "expect": ("R-KEY-NONEMPTY", "mjp_registerPlugin:key-nonempty:name"),
     "edits": [(PL, "int mjp_registerPlugin(const mjpPlugin* plugin) {\n  if (!plugin->name) {\n    mju_error(\"plugin->name is a null pointer\");\n"
                    "  } else if (plugin->name[0] == '\\0') {\n    mju_error(\"plugin->name is an empty string\");\n  } else if (plugin->nattribute < 0) {",
                "static void CheckPluginFields(const mjpPlugin* plugin) {\n  if (plugin->nattribute < 0) {"),
               (PL, "              kMaxAttributes);\n  }\n\n  return GlobalTable<mjpPlugin>::GetSingleton().AppendIfUnique(*plugin);",
                "              kMaxAttributes);\n  }\n}\n\nint mjp_registerPlugin(const mjpPlugin* plugin) {\n  CheckPluginFields(plugin);\n"
                "  return GlobalTable<mjpPlugin>::GetSingleton().AppendIfUnique(*plugin);")]},
    {"id": "named-method-error-under-lock", "expect": ("R-NO-ERROR-LOCKED", "AppendIfUnique:lock-region"),
     "edits": [(HDR, "    int slot = [&]() {\n      auto lock = LockExclusively();\n",
                "    const int slot = TryAppendLocked(obj, err);\n    return slot;\n  }\n\n"
                "  int TryAppendLocked(const T& obj, ErrorMessage& err) {\n    {\n      auto lock = LockExclusively();\n"),
               (HDR, "      return count;\n    }();\n", "      return count;\n    }\n  }\n\n  int UnusedTail(const T& obj, ErrorMessage& err, int slot) {\n"),
               (HDR, "                          HumanReadableTypeName(), std::string(ObjectKey(obj)).c_str());\n            return -1;",
                "                          HumanReadableTypeName(), std::string(ObjectKey(obj)).c_str());\n            mju_error(\"%s\", err);")]},
    {"id": "scan-match-inverted-falls-through", "expect": ("R-UNIQ-SCAN", "AppendIfUnique:key-match-ends-path"),
     "edits": [(HDR, "        if (CaseInsensitiveEqual(ObjectKey(obj), ObjectKey(existing))) {\n",
                "        if (!CaseInsensitiveEqual(ObjectKey(obj), ObjectKey(existing))) {\n          continue;\n        }\n        {\n"),
               (HDR, "          } else {\n            return i;\n          }", "          }")]},
    # ---- fixes of the reported defects: the report must disappear and nothing else change
    {"id": "fix-key-lookup-stops-at-bound", "expect": None, "fixes": [("R-READER-BOUND", "GetByKeyUnsafe:read:next")],
     "edits": [(HDR, "      block = block->next;\n    }\n\n    return nullptr;\n  }\n\n  const T* GetAtSlot(",
                "      if (found_slot >= nslot) {\n        return nullptr;\n      }\n      block = block->next;\n    }\n\n    return nullptr;\n  }\n\n  const T* GetAtSlot(")]},
    {"id": "fix-copy-returns-false", "expect": None, "fixes": [("R-PUBLISH", "GlobalTable<mjpPlugin_>::CopyObject:success-implies-copied")],
     "edits": [(PL, "failed to allocate memory for plugin attribute array\");\n      return -1;", "failed to allocate memory for plugin attribute array\");\n      return false;")]},
    {"id": "fix-equal-mirrored", "expect": None, "fixes": [("R-EQ-SYMMETRY", "ObjectEqual:one-sided-null:attributes")],
     "edits": [(PL, "    if (plugin1.attributes[i] && !plugin2.attributes[i]) {\n      return false;\n    }\n    if (plugin1.attributes[i] && !plugin2.attributes[i]) {",
                "    if (plugin1.attributes[i] && !plugin2.attributes[i]) {\n      return false;\n    }\n    if (plugin2.attributes[i] && !plugin1.attributes[i]) {")]},
    {"id": "fix-recursive-mutex", "expect": None, "fixes": [("R-LOCK", "lock-keyed-by-mutex")],
     "edits": [(HDR, "using Mutex = std::mutex;", "using Mutex = std::recursive_mutex;"),
               (HDR, "    if (LockCountOnCurrentThread() == 0) {\n      mutex_.lock();\n    }\n    ++LockCountOnCurrentThread();", "    mutex_.lock();"),
               (HDR, "    if (--LockCountOnCurrentThread() == 0) {\n      mutex_.unlock();\n    }", "    mutex_.unlock();")]},
    {"id": "fix-decoder-content-type-checked", "expect": None, "fixes": [("R-KEY-NONEMPTY", "mjp_registerDecoder:key-nonempty:content_type")],
     "edits": [(PL, "  // Register with content_type\n  if (decoder->content_type) {", "  // Register with content_type\n  if (decoder->content_type && decoder->content_type[0]) {")]},
]


def selftest(res):
    cxx.run_mutants("C40", res, MUTANTS)
