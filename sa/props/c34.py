"""C34 Name lookup inverts naming for every object type.

Decided (R-TABLE: reader engine_name.c vs writer mjCModel::CopyNames/namelist in user_model.cc vs X-macro extents):
  N1  per object type handled by _getnumadr: the count it returns, the dimension it subtracts from the map address and
      the X-macro row dimension of the name-address array it hands out are the same model size; every named object
      type of mjtObj (those numObjects() gives a count for) has a case, and _getnumadr agrees with numObjects
  N2  the dimensions subtracted over the whole fall-through chain are exactly the terms of nnames_map in mj_makeModel
  N3  the fall-through order of the reader equals the order in which the writer lays out the per-type hash maps
      (sequence of name_*adr arrays in CopyNames), and both scale every segment by the same constant mjLOAD_MULTIPLE
  N4  writer and reader hash with the same function and the same modulus expression (mjLOAD_MULTIPLE * count); both
      probe linearly with wrap-around; the writer initialises the map to -1 and the reader stops at a negative entry
  N5  bounds: mj_id2name indexes the address array only under 0 <= id < num; mj_name2id indexes names_map at
      mapadr + i with i reduced modulo num
Not decided: termination/worst case of probing for adversarial tables; that names are unique per type (compiler rule).
"""
from __future__ import annotations

import re

from .. import cfront, cir, engine, xmacro
from ..cfront import AnalysisError

NAME = "src/engine/engine_name.c"
IO = "src/engine/engine_io.c"
UM = "src/user/user_model.cc"


def reader_chain(fn):
    """ordered list of dict(labels, sub(list of size names), adr, num) from the switch of _getnumadr"""
    sw = [n for n in cir.walk(fn) if n.get("k") == "SwitchStmt"]
    if len(sw) != 1:
        raise AnalysisError("_getnumadr: expected one switch")
    groups = []
    cur = None

    def visit(st):
        nonlocal cur
        if st is None:
            return
        k = st.get("k")
        if k in ("CaseStmt", "DefaultStmt"):
            lab = cir.text(cir.kids(st)[0]) if k == "CaseStmt" else "<default>"
            if cur is None or cur["stmts"]:
                cur = {"labels": [], "stmts": [], "sub": [], "adr": None, "num": None, "line": st.get("line")}
                groups.append(cur)
            cur["labels"].append(lab)
            visit(cir.kids(st)[-1])
            return
        if cur is None:
            return
        cur["stmts"].append(st)
        for n in cir.walk(st):
            if n.get("k") == "CompoundAssignOperator" and n.get("op") == "-=":
                cur["sub"].append(cir.text(cir.kids(n)[1]))
            if n.get("k") == "BinaryOperator" and n.get("op") == "=":
                l, r = cir.text(cir.kids(n)[0]), cir.text(cir.kids(n)[1])
                if l.startswith("*") and r.startswith("m->name_"):
                    cur["adr"] = r[3:]
                elif r.startswith("m->n") and not l.startswith("*"):
                    cur["num"] = r[3:]
    for st in cir.kids(cir.kids(sw[0])[-1]):
        visit(st)
    return groups


def run(res, tier):
    un = engine.unit(NAME)
    uio = engine.unit(IO)
    for f in ("mj_name2id", "mj_id2name", "mj_hashString"):
        if f not in un.funcs:
            raise AnalysisError(f"anchor {f} missing in {NAME}")
    # the name-table reader is found by its role, not its name: the function that mj_name2id and mj_id2name both call and
    # that dispatches on the object type (a switch with mjOBJ_* labels)
    def _objswitch(fn):
        return any(n.get("k") == "CaseStmt" and cir.text(cir.kids(n)[0]).startswith("mjOBJ_") for n in cir.walk(fn))
    common = {cir.callee(c) for c in cir.calls(un.funcs["mj_name2id"])} & {cir.callee(c) for c in cir.calls(un.funcs["mj_id2name"])}
    cands = sorted(n for n in common if n in un.funcs and _objswitch(un.funcs[n]))
    if len(cands) != 1:
        raise AnalysisError(f"name-table reader (called by mj_name2id and mj_id2name, switch over mjtObj) not identified: {cands}")
    GETNUM = cands[0]
    for f in ("mj_makeModel", "numObjects"):
        if f not in uio.funcs:
            raise AnalysisError(f"anchor {f} missing in {IO}")
    rows = {r["name"]: r for r in xmacro.pointers("MJMODEL_POINTERS")}
    chain = [g for g in reader_chain(un.funcs[GETNUM]) if g["labels"] != ["<default>"]]
    res.rule("R-TABLE-NAME", "reader case: count == subtracted dimension == X-macro row dimension of the address array", floor=20)
    mult = None
    order = []
    subtracted = []
    for g in chain:
        lab = "/".join(g["labels"])
        problems = []
        if g["adr"] is None or g["num"] is None or len(g["sub"]) != 1:
            problems.append(f"case does not have exactly one map-address decrement, one address array and one count "
                            f"(sub={g['sub']}, adr={g['adr']}, num={g['num']})")
        else:
            m_ = re.fullmatch(r"(\w+) \* m->(\w+)", g["sub"][0]) or re.fullmatch(r"m->(\w+) \* (\w+)", g["sub"][0])
            if not m_:
                problems.append(f"decrement `{g['sub'][0]}` is not <constant> * m-><size>")
            else:
                a, b = m_.groups()
                k, dim = (a, b) if not a.startswith("n") or a.isdigit() else (b, a)
                if g["sub"][0].startswith("m->"):
                    dim, k = m_.group(1), m_.group(2)
                else:
                    k, dim = m_.group(1), m_.group(2)
                mult = mult or k
                if k != mult:
                    problems.append(f"segment scaled by {k}, others by {mult}")
                subtracted.append(dim)
                if dim != g["num"]:
                    problems.append(f"subtracts {dim} map entries but returns count {g['num']}")
                row = rows.get(g["adr"])
                if row is None:
                    problems.append(f"{g['adr']} is not a model array")
                elif row["nr"] != g["num"] or row["nc"] != "1":
                    problems.append(f"{g['adr']} has extent {row['nr']}x{row['nc']} but the case returns count {g['num']}")
                order.append(g["adr"])
        if problems:
            res.bad("R-TABLE-NAME", lab, NAME, g["line"], "; ".join(problems))
        else:
            res.ok("R-TABLE-NAME", lab, {"adr": g["adr"], "num": g["num"]})
    # agreement with numObjects (sibling: objtype -> count)
    res.rule("R-SIBLING-COUNT", "_getnumadr and numObjects give the same count per object type", floor=20)
    from . import c26
    nobj = {}
    fn = uio.funcs["numObjects"]
    pend = []
    for n in cir.walk(fn):
        if n.get("k") == "CaseStmt":
            pend.append(cir.text(cir.kids(n)[0]))
        if n.get("k") == "ReturnStmt" and pend:
            t = cir.text(cir.kids(n)[0])
            for p in pend:
                nobj[p] = t
            pend = []
    by_label = {l: g for g in chain for l in g["labels"]}
    for lab, cnt in sorted(nobj.items()):
        if not cnt.startswith("m->"):
            if lab in by_label:
                res.bad("R-SIBLING-COUNT", lab, NAME, by_label[lab]["line"], f"{lab} has names in _getnumadr but numObjects returns {cnt}")
            continue
        g = by_label.get(lab)
        if g is None:
            # DOF has a count but no names: must not be a named type anywhere
            if lab in ("mjOBJ_DOF",):
                res.ok("R-SIBLING-COUNT", lab, {"unnamed": True})
            else:
                res.bad("R-SIBLING-COUNT", lab, NAME, un.funcs[GETNUM].get("line"),
                        f"object type {lab} has {cnt} objects (numObjects) but no case in _getnumadr: its names cannot be looked up")
        elif "m->" + (g["num"] or "") != cnt:
            res.bad("R-SIBLING-COUNT", lab, NAME, g["line"], f"_getnumadr returns m->{g['num']} for {lab}, numObjects returns {cnt}")
        else:
            res.ok("R-SIBLING-COUNT", lab, None)

    # N2: nnames_map terms
    res.rule("R-MAPSIZE", "sum of the reader's decrements == nnames_map terms; same multiplier", floor=2)
    mk = uio.funcs["mj_makeModel"]
    terms = None
    mk_mult = None
    for n in cir.walk(mk):
        if n.get("k") == "VarDecl" and n.get("n") == "nnames_map" and n.get("init"):
            t = cir.text([c for c in cir.kids(n) if c][-1])
            if "+" in t:
                terms = sorted(x.strip() for x in t.split("+"))
        if n.get("k") == "BinaryOperator" and n.get("op") == "=" and cir.text(cir.kids(n)[0]) == "m->nnames_map":
            r = cir.text(cir.kids(n)[1])
            m_ = re.fullmatch(r"(\w+) \* nnames_map", r)
            mk_mult = m_.group(1) if m_ else r
    if terms is None:
        raise AnalysisError("mj_makeModel: nnames_map sum not found")
    if sorted(subtracted) == terms:
        res.ok("R-MAPSIZE", "terms", {"terms": len(terms)})
    else:
        res.bad("R-MAPSIZE", "terms", IO, mk.get("line"),
                f"nnames_map sums {sorted(set(terms) - set(subtracted))} that the reader never subtracts / reader subtracts "
                f"{sorted(set(subtracted) - set(terms))} that are not in nnames_map")
    if mk_mult == mult:
        res.ok("R-MAPSIZE", "multiplier", {"multiplier": str(mult)})
    else:
        res.bad("R-MAPSIZE", "multiplier", IO, mk.get("line"), f"nnames_map scaled by {mk_mult}, reader segments by {mult}")

    # N3/N4: writer
    res.rule("R-WRITER-ORDER", "writer lays out the per-type maps in the reader's fall-through order with the same scaling and hash", floor=4)
    # whole TU (cached by sa.setup): CopyNames, and the functions of the TU indexed by name (templates: first body)
    ir = cfront.load_tu(UM, lang="cxx")
    wfn = None
    tfuncs = {}
    for d in ir["decls"]:
        for n in cir.walk(d):
            if n.get("k") in ("CXXMethodDecl", "FunctionDecl") and cir.body(n) is not None:
                if n.get("n") == "CopyNames" and wfn is None:
                    wfn = n
                tfuncs.setdefault(n.get("n"), n)
    if wfn is None:
        raise AnalysisError("mjCModel::CopyNames not found")
    # N5: names in the table are unique because the compiler rejects repeated names: the repeated-name check (the function
    # that sorts the names of a list and looks for adjacent duplicates, found by role) is called for every list unless the
    # caller asks otherwise -- never skipped on a condition computed from the data
    res.rule("R-REPEAT", "the compiler's repeated-name check is not skipped on a data-dependent condition", floor=1)
    checker = [n_ for n_, f_ in tfuncs.items() if any(cir.is_call(c_) and "adjacent_find" in cir.text(c_)[:40] for c_ in cir.walk(f_))
               and any(cir.is_call(c_) and "sort" in (cir.text(c_)[:20]) for c_ in cir.walk(f_))]
    if len(checker) != 1:
        raise AnalysisError(f"{UM}: the repeated-name check (sort + adjacent_find over the names of a list) was not identified: {checker}")
    nrep = 0
    for d in ir["decls"]:
        for f_ in cir.walk(d):
            if f_.get("k") not in ("CXXMethodDecl", "FunctionDecl") or cir.body(f_) is None or f_.get("n") == checker[0]:
                continue
            bools = {p_.get("n") for p_ in cir.params(f_) if (p_.get("t") or "").replace("const ", "").strip() in ("bool", "_Bool")}
            par = {}
            for x in cir.walk(f_):
                for c_ in cir.kids(x):
                    if c_ is not None:
                        par[id(c_)] = x
            for c_ in cir.walk(cir.body(f_)):
                if not (cir.is_call(c_) and (cir.callee(c_) == checker[0] or cir.text(c_).startswith(checker[0] + "(") or
                                              f"->{checker[0]}(" in cir.text(c_)[:60])):
                    continue
                nrep += 1
                conds = []
                x = c_
                while id(x) in par:
                    p_ = par[id(x)]
                    if p_.get("k") == "IfStmt":
                        ks = [k_ for k_ in cir.kids(p_)]
                        idx = int(bool(p_.get("hasInit"))) + int(bool(p_.get("hasVar")))
                        if ks[idx] is not x:
                            conds.append(ks[idx])
                    elif p_.get("k") in ("ConditionalOperator",):
                        conds.append(cir.kids(p_)[0])
                    x = p_
                bad_c = [cd for cd in conds if cir.text(cir.strip(cd)).lstrip("!(").rstrip(")") not in bools]
                key = f"{f_.get('n')}:{checker[0]}"
                if bad_c:
                    res.bad("R-REPEAT", key, UM, c_.get("line"),
                            f"{f_.get('n')} calls {checker[0]} only under `{cir.text(bad_c[0])[:70]}`: a list for which that condition "
                            f"fails is compiled without the repeated-name check, so two objects of one type can share a name and "
                            f"mj_name2id(mj_id2name(id)) returns the other one")
                else:
                    res.ok("R-REPEAT", key, {"guards": [cir.text(cd) for cd in conds]})
    if nrep == 0:
        raise AnalysisError(f"{UM}: no call of the repeated-name check {checker[0]} found")

    def _callees(fn):
        out = set()
        for c in cir.walk(fn):
            if cir.is_call(c):
                nm = cir.callee(c) or cir.text(cir.kids(c)[0])
                out.add(nm)
        return out

    def _closure(fn, depth=3):
        seen, work = {fn.get("n"): fn}, [(fn, 0)]
        while work:
            f_, d_ = work.pop()
            if d_ >= depth:
                continue
            for nm in _callees(f_):
                g_ = tfuncs.get(nm)
                if g_ is not None and nm not in seen and g_.get("n") != "CopyNames":
                    seen[nm] = g_
                    work.append((g_, d_ + 1))
        return seen
    # the layout function: the TU function CopyNames calls (directly or inside a local lambda) for every list; it is the most
    # frequent callee defined in this TU that is handed the names buffer
    cnt = {}
    for c in cir.walk(wfn):
        if cir.is_call(c):
            nm = cir.callee(c) or cir.text(cir.kids(c)[0])
            if nm in tfuncs and any("names" in cir.text(a_) for a_ in cir.args(c)):
                cnt[nm] = cnt.get(nm, 0) + 1
    layout = tfuncs.get(max(cnt, key=cnt.get)) if cnt else None
    if layout is None:
        raise AnalysisError("CopyNames: the per-list layout function (a TU function handed m->names) was not identified")
    lname = layout.get("n")
    # writer order = the order in which CopyNames names the address arrays (directly or as arguments of a local lambda)
    worder = []
    for n in cir.walk(wfn):
        if n.get("k") == "MemberExpr" and n.get("arrow") and re.fullmatch(r"name_\w+adr", n.get("n") or "") and n.get("n") not in worder:
            worder.append(n.get("n"))
    if len(worder) < 20:
        raise AnalysisError(f"only {len(worder)} name address arrays named in CopyNames")
    if worder == order:
        res.ok("R-WRITER-ORDER", "order", {"segments": len(order), "layout_function": lname})
    else:
        i = next((i for i in range(min(len(worder), len(order))) if worder[i] != order[i]), min(len(worder), len(order)))
        res.bad("R-WRITER-ORDER", "order", UM, wfn.get("line"),
                f"segment {i}: writer lays out {worder[i] if i < len(worder) else None}, reader expects {order[i] if i < len(order) else None}")
    # after every segment (but possibly the last) the map cursor advances by mult * <that list>.size(); decided per body
    # (the function itself and each local lambda): a layout call is followed by the advance for the same list before the next one
    problems_adv = []
    nadv = nseg = 0

    def _bodies(fn):
        yield fn.get("n"), cir.body(fn)
        for x in cir.walk(fn):
            if x.get("k") == "LambdaExpr":
                for y in cir.kids(x):
                    if y is not None and y.get("k") == "CompoundStmt":
                        yield "lambda", y
                    elif y is not None and y.get("k") == "CXXMethodDecl" and cir.body(y) is not None:
                        yield "lambda", cir.body(y)

    def _own(stmt):
        """nodes of a statement outside nested lambdas"""
        stack = [stmt]
        while stack:
            x = stack.pop()
            if x is None:
                continue
            yield x
            if x.get("k") == "LambdaExpr":
                continue
            stack.extend(reversed([c for c in cir.kids(x) if c is not None]))
    for bname, body in _bodies(wfn):
        pending = None
        flat = []

        def _flat(st):
            for c in cir.kids(st):
                if c is None:
                    continue
                if c.get("k") == "CompoundStmt":
                    _flat(c)
                else:
                    flat.append(c)
        _flat(body)
        for st in flat:
            for x in _own(st):
                if cir.is_call(x) and (cir.callee(x) == lname or lname in cir.text(cir.kids(x)[0])):
                    nseg += 1
                    if pending is not None:
                        problems_adv.append(f"two segments are laid out without advancing the map cursor in between ({pending})")
                    pending = cir.text(cir.args(x)[0])
                if x.get("k") == "CompoundAssignOperator" and x.get("op") == "+=" and "map" in cir.text(cir.kids(x)[0]):
                    nadv += 1
                    t = cir.text(cir.kids(x)[1])
                    m_ = re.fullmatch(re.escape(str(mult)) + r" \* (\w+)\.size\(\)", t)
                    if not m_:
                        problems_adv.append(f"map cursor advance `{t}` is not {mult} * <list>.size()")
                    elif pending is not None and m_.group(1) != pending:
                        problems_adv.append(f"map cursor advances by the size of {m_.group(1)} after laying out {pending}")
                    pending = None
    if nseg == 0 or nadv == 0:
        raise AnalysisError("CopyNames: layout calls / map cursor advances not found")
    if not problems_adv:
        res.ok("R-WRITER-ORDER", "advance", {"advances": nadv, "layout_calls": nseg})
    else:
        res.bad("R-WRITER-ORDER", "advance", UM, wfn.get("line"), "; ".join(problems_adv[:3]))
    # layout function (with the helpers it calls): hash + modulus + probing
    lclo = list(_closure(layout).values())

    class _Multi(dict):
        pass
    nl = {"k": "Closure", "i": lclo}          # walked as one tree
    ms = [x for x in cir.walk(nl) if x.get("k") == "VarDecl" and x.get("init") and "size()" in cir.text([c for c in cir.kids(x) if c][-1])
          and cir.text([c for c in cir.kids(x) if c][-1]).startswith(f"{mult} * ")]
    hcalls = [c for c in cir.walk(nl) if cir.is_call(c) and "mj_hashString" in cir.text(cir.kids(c)[0])]
    okk = bool(ms) and bool(hcalls)
    if okk:
        msnames = {x.get("n") for x in ms}
        okk = cir.text(cir.args(hcalls[0])[1]) in msnames
        ms = [x for x in ms if x.get("n") == cir.text(cir.args(hcalls[0])[1])] or ms
    from .. import norm, linform as _lf
    rd = norm.canon(un, "mj_name2id", exclude=(GETNUM, "mj_hashString"))
    rbody = cir.body(rd)
    rh = [c for c in cir.calls(rd, "mj_hashString")]
    rnum = [x for x in cir.walk(rd) if x.get("k") == "VarDecl" and x.get("init") and
            any(cir.callee(c) == GETNUM for c in cir.calls(x))]
    okr = False
    if rh and rnum:
        f_ = _lf.linform([c for c in cir.kids(rnum[0]) if c][-1], {})
        okr = len(f_) == 1 and next(iter(f_)).startswith(GETNUM + "(") and str(next(iter(f_.values()))) == str(mult) and \
            cir.text(cir.args(rh[0])[1]) == rnum[0].get("n")
    if okk and okr:
        res.ok("R-WRITER-ORDER", "hash-modulus", {"modulus": f"{mult} * count"})
    else:
        res.bad("R-WRITER-ORDER", "hash-modulus", NAME, rd.get("line"),
                "writer and reader do not hash with mj_hashString modulo the same `mjLOAD_MULTIPLE * count`")
    # probing: writer steps (j+1) % map_size until -1; reader wraps at num and stops on negative
    wprobe = any("% " + (ms[0].get("n") if ms else "?") in cir.text(x) for x in cir.walk(nl) if x.get("k") == "BinaryOperator" and x.get("op") == "=")
    wstop = any(cir.text(x).endswith("!= -1") for x in cir.walk(nl) if x.get("k") == "BinaryOperator" and x.get("op") == "!=")
    init_m1 = any(cir.is_call(c) and "memset" in cir.text(cir.kids(c)[0]) and "names_map" in cir.text(cir.args(c)[0]) and cir.text(cir.args(c)[1]) == "-1"
                  for c in cir.walk(wfn))
    # reader: a slot value read from names_map that is negative ends the search (a return guarded by slot < 0)
    slot_vars = {x.get("n") for x in cir.walk(rd) if x.get("k") == "VarDecl" and x.get("init") and
                 "names_map" in cir.text([c for c in cir.kids(x) if c][-1])}
    rstop = False
    for r_ in cir.walk(rbody):
        if r_.get("k") == "ReturnStmt":
            for c_, pol in norm.guards(rbody, r_) or ():
                rel = _lf.relation(c_, pol, {})
                if rel and any(v in rel[0] and rel[0][v] < 0 for v in slot_vars) and \
                        all(a_ in slot_vars or a_ == "1" for a_ in rel[0]):
                    rstop = True
    # reader: the probe index is advanced once per iteration and reset to 0 when it reaches the segment size
    idx = [y for y in cir.walk(rd) if y.get("k") == "ArraySubscriptExpr" and "names_map" in cir.text(cir.kids(y)[0])]
    ivar = None
    if len(idx) == 1:
        f_ = _lf.linform(cir.kids(idx[0])[1], {})
        rest = [a_ for a_ in f_ if a_ != "mapadr"]
        if f_.get("mapadr") == 1 and len(rest) == 1 and f_[rest[0]] == 1:
            ivar = rest[0]
    rwrap = False
    if ivar and rnum:
        incs = [x for x in cir.walk(rd) if (x.get("k") == "UnaryOperator" and x.get("op") == "++" and cir.text(cir.kids(x)[0]) == ivar) or
                (x.get("k") == "CompoundAssignOperator" and cir.text(cir.kids(x)[0]) == ivar)]
        resets = [x for x in cir.walk(rd) if x.get("k") == "BinaryOperator" and x.get("op") == "=" and cir.text(cir.kids(x)[0]) == ivar
                  and cir.text(cir.kids(x)[1]) == "0"]
        n_ = rnum[0].get("n")
        for x in resets:
            for c_, pol in norm.guards(rbody, x) or ():
                if pol and c_.get("k") == "BinaryOperator" and c_.get("op") == "==":
                    sides = {cir.text(y).replace("++", "") for y in cir.kids(c_)}
                    if sides == {ivar, n_}:
                        rwrap = len(incs) == 1
    if wprobe and wstop and init_m1 and rstop and rwrap:
        res.ok("R-WRITER-ORDER", "probing", {"empty": -1})
    else:
        res.bad("R-WRITER-ORDER", "probing", NAME, rd.get("line"),
                f"linear probing disagrees (writer wraps:{wprobe} stops at -1:{wstop} map initialised to -1:{init_m1}; reader stops on "
                f"negative:{rstop} wraps at count:{rwrap})")

    # the probe accepts a slot only when the stored name EQUALS the query, terminator included: the returned slot is guarded by
    # strcmp/strncmp(..) == 0 against m->names + adr[slot], or by a memcmp over strlen(query) + 1 bytes
    res.rule("R-MATCH", "a name-table hit is a full string comparison (terminating NUL included)", floor=1)
    sdefs = _lf.single_defs(rd)
    hits = [r_ for r_ in cir.walk(rbody) if r_.get("k") == "ReturnStmt" and cir.kids(r_) and cir.text(cir.kids(r_)[0]) in slot_vars]
    if not hits:
        raise AnalysisError("mj_name2id: no return of a slot value found")
    qname = [p_.get("n") for p_ in cir.params(rd) if "char" in (p_.get("t") or "")]
    for r_ in hits:
        okm, why = False, "no string comparison guards the hit"
        for c_, pol in norm.guards(rbody, r_) or ():
            call = cir.strip(c_)
            if not cir.is_call(call) or pol:
                continue
            nm = cir.callee(call)
            at = [cir.text(a_) for a_ in cir.args(call)]
            if nm in ("strcmp", "strncmp", "memcmp") and any(t in qname for t in at[:2]) and any("names" in t and "adr[" in t for t in at[:2]):
                if nm == "strcmp":
                    okm = True
                elif nm == "strncmp":
                    okm = True      # stops at the first NUL of either string: equality needs both to end together
                    if len(at) > 2 and ("strlen" in _lf.fmt(_lf.linform(cir.args(call)[2], sdefs)) and
                                        _lf.linform(cir.args(call)[2], sdefs).get("1", 0) < 1):
                        okm, why = False, f"strncmp over `{at[2]}` bytes does not include the terminator: a stored name that merely starts with the query matches"
                else:
                    f_ = _lf.linform(cir.args(call)[2], sdefs)
                    lens = {x.get("n") for x in cir.walk(rd) if x.get("k") == "VarDecl" and x.get("init") and
                            cir.text([c2 for c2 in cir.kids(x) if c2][-1]).startswith("strlen(")}
                    strl = [a_ for a_ in f_ if a_.startswith("strlen(") or a_ in lens]
                    okm = len(strl) == 1 and f_.get(strl[0]) == 1 and f_.get("1", 0) >= 1
                    if not okm:
                        why = (f"memcmp over `{_lf.fmt(f_)}` bytes does not include the terminating NUL: a stored name that merely "
                               f"starts with the query matches (wrong id, or an id for a name that does not exist)")
        if okm:
            res.ok("R-MATCH", "mj_name2id:hit", {"line": r_.get("line")})
        else:
            res.bad("R-MATCH", "mj_name2id:hit", NAME, r_.get("line"), why)

    # N5 bounds
    res.rule("R-BOUNDS", "lookups index only inside their tables", floor=2)
    idf = norm.canon(un, "mj_id2name", exclude=(GETNUM,))
    ibody = cir.body(idf)
    nvar = [x.get("n") for x in cir.walk(idf) if x.get("k") == "VarDecl" and x.get("init") and
            any(cir.callee(c) == GETNUM for c in cir.calls(x))]
    # the address array is the local whose address is handed to the reader
    adrv = set()
    for c in cir.calls(idf, GETNUM):
        for a_ in cir.args(c):
            x = cir.strip(a_)
            if x is not None and x.get("k") == "UnaryOperator" and x.get("op") == "&" and "*" in ((cir.strip(cir.kids(x)[0]) or {}).get("t") or ""):
                adrv.add(cir.text(cir.kids(x)[0]))
    allidx = [y for y in cir.walk(ibody) if y.get("k") == "ArraySubscriptExpr" and cir.text(cir.kids(y)[0]) in adrv]
    okb = bool(allidx) and bool(nvar)

    def _ints(rel):
        f_, strict = rel
        return _lf._add(f_, {"1": 1}, -1) if strict else f_
    for y in allidx:
        i_ = cir.text(cir.kids(y)[1])
        rels = [_ints(r_) for r_ in (_lf.relation(c_, pol, {}) for c_, pol in norm.guards(ibody, y) or ()) if r_]
        lo = any(f_ == {i_: 1} for f_ in rels)
        hi = any(f_ == {nvar[0]: 1, i_: -1, "1": -1} for f_ in rels) if nvar else False
        if not (lo and hi):
            okb = False
    if okb:
        res.ok("R-BOUNDS", "mj_id2name", {"subscripts": len(allidx)})
    else:
        res.bad("R-BOUNDS", "mj_id2name", NAME, idf.get("line"), "adr[id] is used outside the test 0 <= id < num (short-circuit order matters)")
    if ivar and rwrap:
        res.ok("R-BOUNDS", "mj_name2id", None)
    else:
        res.bad("R-BOUNDS", "mj_name2id", NAME, rd.get("line"), "names_map is not indexed as mapadr + i with i wrapped at the segment size")
    res.extra["segment_order"] = order
    res.explanation = (
        "Agreement of the name-lookup reader (engine_name.c) with the X-macro extents, with numObjects, with the "
        "nnames_map size computed by mj_makeModel and with the writer mjCModel::CopyNames/namelist (C++ AST): same "
        "segment order, same scaling constant, same hash and modulus, compatible probing; index bounds of the lookups.")
    res.not_decided = "probe termination for adversarial tables; uniqueness of names (a compiler rule)."
    res.assumptions = ["error handlers do not return"]
