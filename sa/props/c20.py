"""C20 Exhausted arena memory is handled gracefully.

Decides (all paths, all engine TUs): every mj_arenaAllocByte result (and every inferred
nullable wrapper result) is null-tested on that very value before use, is never used on the
NULL branch, the NULL branch reports (mj_warning/mjERROR) and clears the arena field it was
stored to; status-returning wrappers have their status consumed at every call site.
Does not decide: that the truncated constraint set is "consistent" numerically.
"""
from __future__ import annotations

from .. import engine, r_nullable
from ..cfront import AnalysisError
engine.AnalysisError = AnalysisError

BASE = {"mj_arenaAllocByte"}
FLOOR_SITES = 12      # hand-confirmed: 19 textual sites on the pinned tree, X-macro sites expand further


def nullable_pass(res, rule_prefix="R-NULLABLE", tus=None):
    tus = tus or engine.engine_tus()
    # clearers: who assigns NULL to which mjData pointer field
    clr_by_tu = engine.map_tus("sa.r_nullable", "clearers_of", tus)
    clearers = {}
    for tu, c in clr_by_tu.items():
        for f, names in c.items():
            clearers.setdefault(f, set()).update(names)
    # the arena pointer fields are those cleared by mj_clearEfc (X-macro MJDATA_ARENA_POINTERS)
    arena_fields = {f for f, names in clearers.items() if "mj_clearEfc" in names}
    if len(arena_fields) < 40:
        raise engine.AnalysisError(f"mj_clearEfc clears only {len(arena_fields)} fields; anchor moved?")
    clr = {f: sorted(clearers[f]) for f in arena_fields}
    producers = set(BASE)
    rounds = 0
    while True:
        rounds += 1
        out = engine.map_tus("sa.r_nullable", "analyse_unit", tus, extra=(sorted(producers), clr))
        new = set()
        for tu, fs in out.items():
            for name, s in fs.items():
                if s["returns_nullable"] and s["ptr_return"] and name not in producers:
                    new.add(name)
        if not new or rounds > 5:
            break
        producers |= new
    return out, producers, clr, rounds


def zero_counts(unit):
    """per function of the TU's own file: ({scalar mjData member zeroed by a literal: line}, callee names, line)"""
    from .. import cir as _cir
    out = {}
    for name, fn in unit.funcs.items():
        if (fn.get("file") or unit.tu) != unit.tu:
            continue
        zs = {}
        for n in _cir.walk(fn):
            if n.get("k") == "BinaryOperator" and n.get("op") == "=":
                l = _cir.strip(_cir.kids(n)[0])
                v = _cir.strip(_cir.kids(n)[1])
                while v is not None and v.get("k") == "BinaryOperator" and v.get("op") == "=":
                    v = _cir.strip(_cir.kids(v)[1])
                if l is not None and l.get("k") == "MemberExpr" and l.get("arrow") and v is not None and \
                        v.get("k") == "IntegerLiteral" and str(v.get("v")) == "0" and "*" not in (l.get("t") or "") and \
                        "mjData" in ((_cir.strip(_cir.kids(l)[0]) or {}).get("t") or ""):
                    zs[l.get("n")] = n.get("line")
        if zs:
            out[name] = (zs, sorted({_cir.callee(c) for c in _cir.calls(fn) if _cir.callee(c)}), fn.get("line"))
    return out


def run(res, tier):
    out, producers, clr, rounds = nullable_pass(res)
    r1 = res.rule("R-NULLABLE", "every produced arena pointer is tested (that value) before any use; never used "
                  "when NULL; NULL branch reports and clears the arena field", floor=FLOOR_SITES)
    r2 = res.rule("R-STATUS", "status result of every arena wrapper is consumed at each call site", floor=2)
    res.count("tus", len(out))
    res.count("producer_set", len(producers))
    status_funcs = {}
    for tu, fs in sorted(out.items()):
        for name, s in sorted(fs.items()):
            res.count("functions_with_arena_calls")
            reports_by_site = {}
            for rp in s["reports"]:
                reports_by_site.setdefault((rp.get("site"), rp.get("text")), []).append(rp)
            for site in s["sites"]:
                construct = f"{name}:{site['text']}"
                bad = reports_by_site.pop((site["line"], site["text"]), [])
                if not site["tested"] and not bad:
                    bad = [{"file": s["file"], "line": site["line"], "kind": "N1",
                            "msg": f"result `{site['text']}` of arena allocation is never null-tested"}]
                if bad:
                    b = bad[0]
                    # a never-tested value gets the sharper message
                    if not site["tested"]:
                        b = dict(b)
                        b["msg"] = (f"result `{site['text']}` of arena allocation at line {site['line']} is never "
                                    f"null-tested (a different value is tested, or none); " + b["msg"])
                    res.bad("R-NULLABLE", construct, b["file"], b["line"], b["msg"], kind=b.get("kind"))
                else:
                    res.ok("R-NULLABLE", construct, {"file": s["file"], "line": site["line"],
                                                     "obligation": "tested-before-use, report, clear"})
            for site, rps in reports_by_site.items():
                for rp in rps:
                    res.bad("R-NULLABLE", f"{name}:{rp.get('text')}", rp["file"], rp["line"], rp["msg"], kind=rp.get("kind"))
            for line in s["inline"]:
                res.bad("R-NULLABLE", f"{name}:inline", s["file"], line,
                        "arena allocation result used without being stored and tested")
            if s["status"]:
                status_funcs[name] = s
    # R-STATUS
    if status_funcs:
        cs = engine.map_tus("sa.r_nullable", "status_callsites", engine.engine_tus(), extra=(sorted(status_funcs),))
        allcs = engine.map_tus("sa.r_nullable", "all_callsites", engine.engine_tus(), extra=(sorted(status_funcs),))
        dropped = {(c["file"], c["line"]) for v in cs.values() for c in v}
        for tu, v in sorted(allcs.items()):
            for c in v:
                construct = f"{c['function']}->{c['callee']}"
                if (c["file"], c["line"]) in dropped:
                    res.bad("R-STATUS", construct, c["file"], c["line"],
                            f"status of {c['callee']}() (distinguishes arena exhaustion) is discarded")
                else:
                    res.ok("R-STATUS", construct, {"file": c["file"], "line": c["line"]})
    # R-CLEAR-COUNTS (sibling agreement): the counters that mj_makeConstraint zeroes when it starts a new constraint set
    # must all be zeroed by the clearer that runs when the arena is exhausted later (mj_clearEfc); otherwise later stages
    # index the NULLed efc arrays through a stale count.
    from .. import cir as _cir
    r3 = res.rule("R-CLEAR-COUNTS", "mj_clearEfc zeroes every constraint counter that mj_makeConstraint's initial reset zeroes", floor=4)
    ucc = engine.unit("src/engine/engine_core_constraint.c")
    mk = ucc.funcs.get("mj_makeConstraint")
    ce = ucc.funcs.get("mj_clearEfc")
    if mk is None or ce is None:
        raise engine.AnalysisError("mj_makeConstraint / mj_clearEfc not found")

    def zeroed(fn, prefix_only):
        out = {}
        for st in _cir.kids(_cir.body(fn)):
            if st is None:
                continue
            has_call = any(True for _ in _cir.calls(st))
            for n in _cir.walk(st):
                if n.get("k") == "BinaryOperator" and n.get("op") == "=":
                    l = _cir.strip(_cir.kids(n)[0])
                    # chained a = b = 0: value is the innermost literal
                    v = _cir.strip(_cir.kids(n)[1])
                    while v is not None and v.get("k") == "BinaryOperator" and v.get("op") == "=":
                        v = _cir.strip(_cir.kids(v)[1])
                    if l is not None and l.get("k") == "MemberExpr" and l.get("arrow") and v is not None and \
                            v.get("k") == "IntegerLiteral" and str(v.get("v")) == "0" and "*" not in (l.get("t") or ""):
                        out[l.get("n")] = n.get("line")
            if prefix_only and (has_call or st.get("k") in ("IfStmt", "ForStmt", "WhileStmt")) and out:
                break
        return out
    a = zeroed(mk, True)
    b = zeroed(ce, False)
    if "nefc" not in a or "nefc" not in b:
        raise engine.AnalysisError("constraint-count reset not found in mj_makeConstraint / mj_clearEfc")
    for cnt in sorted(a):
        if cnt in b:
            res.ok("R-CLEAR-COUNTS", f"mj_clearEfc:{cnt}", None)
        else:
            res.bad("R-CLEAR-COUNTS", f"mj_clearEfc:{cnt}", ce.get("file") or "src/engine/engine_memory.h", ce.get("line"),
                    f"mj_makeConstraint resets d->{cnt} together with nefc, but mj_clearEfc (run when the arena is exhausted) "
                    f"leaves it: later stages loop over the cleared efc arrays with a stale count")
    # every other function of the engine that zeroes nefc must leave the same consistent "no constraints" state: all the counters
    # mj_makeConstraint resets (by itself or by calling mj_clearEfc).  Zeroing nefc alone leaves ne/nf/nl and the contacts'
    # efc_address pointing into rows that the solver and the sensors no longer see.
    per_tu = engine.map_tus("sa.props.c20", "zero_counts", engine.engine_tus())
    need = set(a)
    nz = 0
    for tu, fns in sorted(per_tu.items()):
        for fname, (zs, calls, line) in sorted(fns.items()):
            if "nefc" not in zs or fname in ("mj_makeConstraint", "mj_clearEfc"):
                continue
            nz += 1
            have = set(zs) | (set(b) if "mj_clearEfc" in calls else set())
            missing = sorted(need - have)
            if missing:
                res.bad("R-CLEAR-COUNTS", f"{fname}:nefc", tu, zs["nefc"],
                        f"{fname} sets d->nefc = 0 but leaves {missing} (mj_makeConstraint resets them together and mj_clearEfc clears "
                        f"them together): the constraint rows disappear for the solver while the contacts still carry their "
                        f"efc_address and ne/nf/nl still count them")
            else:
                res.ok("R-CLEAR-COUNTS", f"{fname}:nefc", None)
    # the arena allocator itself never hands out memory beyond narena - pstack (shared with C19)
    from . import c19 as _c19
    res.rule("R-ARENA-GUARD", "mj_arenaAllocByte tests exactly the amount it consumes against narena - pstack before advancing", floor=1)
    _c19.arena_guard(res, "R-ARENA-GUARD")
    # what a rewind of the arena releases is cleared with it (rule shared with C01): the truncated constraint set stays consistent
    from . import c01 as _c01
    from .. import callgraph as _cg, xmacro as _xm
    res.rule("R-ARENA-STALE", "every rewind of d->parena is accompanied by clearing what it releases: back to the end of the contact "
             "array -> the constraint (efc_*) arrays; back to a saved value -> the arrays allocated since", floor=6)
    _c01.arena_stale(res, _cg.build(), {r["name"] for r in _xm.pointers("MJDATA_ARENA_POINTERS")})
    res.extra["producers"] = sorted(producers)
    res.extra["status_functions"] = {k: v["ret_literals"] for k, v in status_funcs.items()}
    res.extra["fixpoint_rounds"] = rounds
    res.explanation = (
        "Static all-paths null-discipline analysis of every arena allocation in src/engine (clang AST, "
        "path exploration with correlated predicates). Decided: each produced pointer is tested on that very value "
        "before dereference/indexing/passing; never dereferenced on its NULL branch; the NULL branch calls a "
        "warning/error reporter and, for mjData arena fields, a function that clears the field (clearers inferred "
        "from who assigns NULL); wrappers returning nullable values are inferred by fixpoint; status-returning "
        "wrappers are consumed at all call sites.")
    res.not_decided = ("numerical consistency of the truncated constraint set; writes outside the arena through "
                       "index arithmetic on a valid block.")
    res.assumptions = ["error handlers (mju_error, mjERROR expansion) do not return",
                       "third-party and user callbacks are outside the closure"]
