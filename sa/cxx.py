"""C++-specific helpers over the pruned clang IR (see cfront.py / cir.py).

Nothing here is specific to one property.  Contents

  records      find_records / Klass: fields (declaration order, in-class initialisers), methods,
               constructors, destructor of a CXXRecordDecl or ClassTemplateSpecializationDecl;
               template_specs() lists the instantiations under a ClassTemplateDecl
  functions    all_functions(): every function-like declaration with a body (free functions, methods,
               out-of-line member specialisations) plus the id -> definition map that follows clang's
               previousDecl chain; own_walk()/lambdas(): a function's own nodes vs. nested lambda bodies
  members      this_member(), member_chain(): classify an lvalue (member of *this, field of a record by id)
  writes       writes(): assignment-like nodes and by-non-const-reference call arguments
  atomics      atomic_op(): std::atomic member calls / operators / conversions / free functions with
               their memory order(s); is_release/is_acquire
  locks        is_std_lock_type, lock_class_info (user RAII lock classes: ctor locks, dtor unlocks),
               lock_regions(): the nodes of a function that are executed while a lock local is alive
  inlining     inline_helpers(): expand statement-level calls of same-class helper methods so that
               "extract a helper" refactors do not change what the rules see; inline_calls(): the same for any
               callee a resolver finds in the TU (free helpers, function-template instantiations), early
               returns of the callee nested away; all_functions() marks internal-linkage functions
  values       resolve_local(), const_truth(), fn_param_types()
"""
from __future__ import annotations

import copy
import re

from . import cir
from .cfront import AnalysisError

FUNC_KINDS = ("FunctionDecl", "CXXMethodDecl", "CXXConstructorDecl", "CXXDestructorDecl", "CXXConversionDecl")
RECORD_KINDS = ("CXXRecordDecl", "ClassTemplateSpecializationDecl")
CONTAINER_KINDS = ("NamespaceDecl", "LinkageSpecDecl", "ClassTemplateDecl", "FunctionTemplateDecl",
                   "ExportDecl")


# ----------------------------------------------------------------------------------------------
# declarations


def iter_decls(decls):
    """All declarations reachable through namespaces / linkage specs / templates (preorder)."""
    stack = list(reversed([d for d in decls if d]))
    while stack:
        d = stack.pop()
        yield d
        if d.get("k") in CONTAINER_KINDS or d.get("k") in RECORD_KINDS:
            stack.extend(reversed([c for c in cir.kids(d) if c and c.get("k", "").endswith("Decl")]))


def find_records(decls, name, complete=True):
    """Non-template record definitions named `name` (nested in namespaces etc.)."""
    out = []
    for d in iter_decls(decls):
        if d.get("k") == "CXXRecordDecl" and d.get("n") == name and not d.get("isImplicit"):
            if d.get("completeDefinition") or not complete:
                out.append(d)
    return out


def find_template(decls, name):
    for d in iter_decls(decls):
        if d.get("k") == "ClassTemplateDecl" and d.get("n") == name:
            return d
    return None


def template_specs(tmpl):
    """[(argument type text, ClassTemplateSpecializationDecl)] of a ClassTemplateDecl (complete ones)."""
    out = []
    for c in cir.kids(tmpl):
        if c and c.get("k") == "ClassTemplateSpecializationDecl" and c.get("completeDefinition"):
            arg = None
            for a in cir.kids(c):
                if a and a.get("k") == "TemplateArgument":
                    arg = a.get("t")
                    for x in cir.kids(a):
                        if x and x.get("t"):
                            arg = x.get("t")
                    break
            out.append((arg or "?", c))
    return out


def template_pattern(tmpl):
    for c in cir.kids(tmpl):
        if c and c.get("k") == "CXXRecordDecl":
            return c
    return None


class Klass:
    """Index of one record definition."""

    def __init__(self, node, name=None):
        self.node = node
        self.name = name or node.get("n")
        self.fields = []        # dicts: name,id,t,dt,index,node,init (in-class initialiser or None)
        self.methods = {}       # name -> [decl nodes] (declarations and definitions)
        self.ctors = []
        self.dtor = None
        self.file = node.get("file") or node.get("nfile")
        for c in cir.kids(node):
            if not c:
                continue
            k = c.get("k")
            if k == "FieldDecl":
                init = [x for x in cir.kids(c) if x and not x.get("k", "").endswith("Attr")]
                self.fields.append({"name": c.get("n"), "id": c.get("id"), "t": c.get("t"), "dt": c.get("dt"),
                                    "index": len(self.fields), "node": c, "init": init[-1] if init else None})
            elif k == "CXXConstructorDecl":
                if not c.get("isImplicit"):
                    self.ctors.append(c)
            elif k == "CXXDestructorDecl":
                self.dtor = c
            elif k in ("CXXMethodDecl", "CXXConversionDecl"):
                self.methods.setdefault(c.get("n"), []).append(c)
            elif k == "FunctionTemplateDecl":
                for x in cir.kids(c):
                    if x and x.get("k") == "CXXMethodDecl":
                        self.methods.setdefault(x.get("n"), []).append(x)
        self.field_by_id = {f["id"]: f for f in self.fields}
        self.field_by_name = {f["name"]: f for f in self.fields}

    def method(self, name):
        """The definition (with body) of method `name`, or None."""
        for m in self.methods.get(name, ()):
            if cir.body(m) is not None:
                return m
        return None

    def method_ids(self):
        return {m.get("id"): m for ms in self.methods.values() for m in ms}

    def field_of(self, member_expr):
        """Field dict for a MemberExpr that names a field of this record (by declaration id)."""
        if member_expr is None or member_expr.get("k") != "MemberExpr":
            return None
        return self.field_by_id.get(member_expr.get("mid"))


def type_of(n):
    return (n.get("dt") or n.get("t") or "") if n else ""


# ----------------------------------------------------------------------------------------------
# functions, lambdas


def lambda_operator(lam):
    """operator() declaration of a LambdaExpr."""
    for c in cir.kids(lam):
        if c and c.get("k") == "CXXRecordDecl":
            for m in cir.kids(c):
                if m and m.get("k") == "CXXMethodDecl" and m.get("n") == "operator()":
                    return m
                if m and m.get("k") == "FunctionTemplateDecl":      # generic lambda
                    for x in cir.kids(m):
                        if x and x.get("k") == "CXXMethodDecl" and x.get("n") == "operator()":
                            return x
    return None


def own_walk(n):
    """Preorder over a function's own nodes: LambdaExpr nodes are yielded but not entered."""
    stack = [n]
    while stack:
        x = stack.pop()
        if not x:
            continue
        yield x
        if x.get("k") == "LambdaExpr" and x is not n:
            continue
        c = x.get("i")
        if c:
            stack.extend(reversed(c))


def lambdas(fn):
    """LambdaExpr nodes directly owned by `fn` (not those nested in other lambdas)."""
    b = cir.body(fn)
    return [x for x in own_walk(b) if x.get("k") == "LambdaExpr"] if b else []


def nested_functions(fn, qual):
    """[(qualified name, function node)] for fn and, recursively, its lambdas' call operators."""
    out = [(qual, fn)]
    for i, lam in enumerate(lambdas(fn)):
        op = lambda_operator(lam)
        if op is not None and cir.body(op) is not None:
            op.setdefault("file", fn.get("file"))
            ls = lambdas(fn)
            sub = f"{qual}:lambda" if len(ls) == 1 else f"{qual}:lambda{i + 1}"
            out.extend(nested_functions(op, sub))
    return out


def all_functions(decls, patterns=False):
    """Every function-like declaration with a body reachable from `decls`.

    Template patterns (the dependent, uninstantiated bodies under ClassTemplateDecl / FunctionTemplateDecl)
    are skipped unless patterns=True; their instantiations are always included.

    Returns (funcs, by_id): funcs = [(qualified name, node)], lambdas included as `outer:lambda`;
    by_id maps the id of every (re)declaration to its definition node (previousDecl chains followed),
    so a DeclRefExpr to an in-class declaration resolves to the out-of-line definition.
    """
    funcs = []
    by_id = {}
    decl_nodes = {}
    pending = []

    def visit(d, scope, file, internal=False):
        k = d.get("k")
        file = d.get("file") or d.get("nfile") or file
        if k in FUNC_KINDS:
            decl_nodes[d.get("id")] = d
            if internal or d.get("storageClass") == "static" and k == "FunctionDecl":
                d["internal"] = True        # internal linkage: unnamed namespace / static free function
            if cir.body(d) is not None:
                d.setdefault("file", file)
                q = f"{scope}::{d.get('n')}" if scope else d.get("n")
                pending.append((q, d))
            return
        if k in RECORD_KINDS:
            nm = d.get("n") or "<anon>"
            if k == "ClassTemplateSpecializationDecl":
                arg = "?"
                for a in cir.kids(d):
                    if a and a.get("k") == "TemplateArgument":
                        arg = a.get("t") or "?"
                        for x in cir.kids(a):
                            if x and x.get("t"):
                                arg = x.get("t")
                        break
                nm = f"{nm}<{arg}>"
            sub = f"{scope}::{nm}" if scope else nm
            for c in cir.kids(d):
                if c and c.get("k", "").endswith("Decl"):
                    visit(c, sub, file, internal)
            return
        if k == "NamespaceDecl":
            sub = scope
            for c in cir.kids(d):
                if c:
                    visit(c, sub, file, internal or not d.get("n"))
            return
        if k in CONTAINER_KINDS:
            first_fn = True
            for c in cir.kids(d):
                if c and c.get("k", "").endswith("Decl"):
                    if not patterns and k == "ClassTemplateDecl" and c.get("k") == "CXXRecordDecl":
                        continue
                    if not patterns and k == "FunctionTemplateDecl" and c.get("k") in FUNC_KINDS and first_fn:
                        first_fn = False
                        decl_nodes[c.get("id")] = c
                        continue
                    visit(c, scope, file, internal)

    for d in decls:
        if d:
            visit(d, "", d.get("file") or d.get("nfile"))
    for q, d in pending:
        by_id[d.get("id")] = d
        p = d.get("prev")
        seen = set()
        while p and p not in seen:
            seen.add(p)
            by_id.setdefault(p, d)
            p = (decl_nodes.get(p) or {}).get("prev")
        funcs.extend(nested_functions(d, q))
    return funcs, by_id


def out_of_line_owner(fn, specs):
    """For an out-of-line member definition (template<> R C<T>::m(...)), the (arg, spec) whose in-class
    declaration it redeclares (matched through previousDecl), or None."""
    p = fn.get("prev")
    if not p:
        return None
    for arg, spec in specs:
        for c in cir.kids(spec):
            if c and c.get("id") == p:
                return arg, spec
    return None


# ----------------------------------------------------------------------------------------------
# lvalues / members


def this_member(n):
    """(name, field id) if n (casts stripped) is `this->m` / implicit `m`, else None."""
    n = cir.strip(n)
    if n is None or n.get("k") != "MemberExpr":
        return None
    c = cir.kids(n)
    b = cir.strip(c[0]) if c else None
    if b is not None and b.get("k") == "CXXThisExpr":
        return n.get("n"), n.get("mid")
    return None


def member_chain(n):
    """MemberExpr nodes along an lvalue chain, outermost first: a->b.c[i] -> [c, b]; also through
    unary * / & and array subscripts.  Stops at calls and declaration references."""
    out = []
    n = cir.strip(n)
    while n is not None:
        k = n.get("k")
        if k == "MemberExpr":
            out.append(n)
            c = cir.kids(n)
            n = cir.strip(c[0]) if c else None
        elif k == "ArraySubscriptExpr":
            n = cir.strip(cir.kids(n)[0])
        elif k == "UnaryOperator" and n.get("op") in ("*", "&"):
            n = cir.strip(cir.kids(n)[0])
        elif k == "CXXOperatorCallExpr" and cir.text(cir.kids(n)[0]) in ("operator[]", "operator*", "operator->"):
            n = cir.strip(cir.kids(n)[1])
        else:
            break
    return out


def lvalue_root(n):
    """Innermost node of an lvalue chain (DeclRefExpr, CXXThisExpr, call, ...)."""
    n = cir.strip(n)
    while n is not None:
        k = n.get("k")
        if k in ("MemberExpr", "ArraySubscriptExpr"):
            c = cir.kids(n)
            if not c:
                return n
            n = cir.strip(c[0])
        elif k == "UnaryOperator" and n.get("op") in ("*", "&"):
            n = cir.strip(cir.kids(n)[0])
        elif k == "CXXOperatorCallExpr" and cir.text(cir.kids(n)[0]) in ("operator[]", "operator*", "operator->"):
            n = cir.strip(cir.kids(n)[1])
        else:
            return n
    return None


def ref_id(n):
    n = cir.strip(n)
    if n is not None and n.get("k") == "DeclRefExpr":
        return (n.get("ref") or {}).get("id")
    return None


def ref_name(n):
    n = cir.strip(n)
    if n is not None and n.get("k") == "DeclRefExpr":
        return (n.get("ref") or {}).get("n")
    return None


# ----------------------------------------------------------------------------------------------
# writes

_ASSIGN_OPS = ("operator=", "operator+=", "operator-=", "operator*=", "operator/=", "operator|=", "operator&=",
               "operator^=", "operator++", "operator--", "operator<<=", "operator>>=", "operator%=")


def split_params(fn_type):
    """Parameter type texts of a function type spelling `R (A, B<C, D>, E)`; None if not a function type."""
    if not fn_type:
        return None
    depth = 0
    start = None
    # the parameter list is the last top-level parenthesis group that is not part of a declarator `(*)`
    groups = []
    for i, ch in enumerate(fn_type):
        if ch in "(<[":
            if ch == "(" and depth == 0:
                start = i
            depth += 1
        elif ch in ")>]":
            depth -= 1
            if ch == ")" and depth == 0 and start is not None:
                groups.append((start, i))
                start = None
    groups = [(a, b) for a, b in groups if fn_type[a + 1:b].strip() not in ("*", "&", "*const")
              and not re.fullmatch(r"\s*[\w:<>, ]*::\*\s*", fn_type[a + 1:b])]
    if not groups:
        return None
    a, b = groups[0]
    inner = fn_type[a + 1:b].strip()
    if not inner or inner == "void":
        return []
    out, depth, cur = [], 0, ""
    for ch in inner:
        if ch in "(<[":
            depth += 1
        elif ch in ")>]":
            depth -= 1
        if ch == "," and depth == 0:
            out.append(cur.strip())
            cur = ""
        else:
            cur += ch
    out.append(cur.strip())
    return out


def is_mutable_ref(ptype):
    """Non-const lvalue reference or pointer-to-non-const parameter type."""
    if not ptype:
        return False
    p = ptype.strip()
    if p.endswith("&&"):
        return False
    if p.endswith("&"):
        return not p.startswith("const ") and " const &" not in p
    return False


def call_param_types(call):
    """Parameter type texts of a direct call (from the callee's function type), or None."""
    c = cir.kids(call)
    if not c:
        return None
    f = cir.strip(c[0])
    if f is None:
        return None
    t = None
    if f.get("k") == "DeclRefExpr":
        t = (f.get("ref") or {}).get("t") or f.get("t")
    elif f.get("k") == "MemberExpr":
        t = None if (f.get("t") or "").startswith("<bound") else (f.get("dt") or f.get("t"))
    return split_params(t) if t else None


def call_args(call):
    """Argument expressions of a call in parameter order (object argument of operator calls and
    member calls excluded)."""
    c = list(cir.kids(call))
    if call.get("k") == "CXXOperatorCallExpr":
        f = cir.strip(c[0])
        is_member = f is not None and (f.get("ref") or {}).get("k") == "CXXMethodDecl"
        return c[2:] if is_member else c[1:]
    return c[1:]


def writes(root, own=True):
    """Yield (lvalue node, write node, how) for every assignment-like node under root.

    how: 'assign' (=, op=, ++/--, overloaded assignment operators) or 'refarg' (an lvalue bound to a
    non-const reference parameter of a direct call).  With own=True nested lambda bodies are skipped."""
    it = own_walk(root) if own else cir.walk(root)
    for n in it:
        k = n.get("k")
        if (k == "BinaryOperator" and n.get("op") == "=") or k == "CompoundAssignOperator":
            yield cir.kids(n)[0], n, "assign"
        elif k == "UnaryOperator" and n.get("op") in ("++", "--"):
            yield cir.kids(n)[0], n, "assign"
        elif k == "CXXOperatorCallExpr":
            c = cir.kids(n)
            opn = cir.text(c[0]) if c else ""
            if opn in _ASSIGN_OPS and len(c) > 1:
                yield c[1], n, "assign"
            else:
                yield from _refargs(n)
        elif k in ("CallExpr", "CXXMemberCallExpr"):
            yield from _refargs(n)


def _refargs(call):
    pt = call_param_types(call)
    if not pt:
        return
    a = call_args(call)
    for i, arg in enumerate(a):
        if i < len(pt) and is_mutable_ref(pt[i]) and arg is not None:
            yield arg, call, "refarg"


# ----------------------------------------------------------------------------------------------
# std::atomic

_ATOMIC_T = re.compile(r"^(?:const |volatile )*(?:struct )?std::(?:__1::)?(?:atomic<.*>|atomic_[a-z0-9_]+|__atomic_base<.*>)"
                       r"(?: *&)?$")
_KIND = {
    "load": "load", "store": "store", "exchange": "rmw", "fetch_add": "rmw", "fetch_sub": "rmw",
    "fetch_and": "rmw", "fetch_or": "rmw", "fetch_xor": "rmw", "fetch_max": "rmw", "fetch_min": "rmw",
    "compare_exchange_weak": "cas", "compare_exchange_strong": "cas", "wait": "wait",
    "notify_one": "notify", "notify_all": "notify", "test_and_set": "rmw", "clear": "store", "test": "load",
    "is_lock_free": "query",
}
ORDERS = ("relaxed", "consume", "acquire", "release", "acq_rel", "seq_cst")


def is_atomic_type(n_or_t):
    if isinstance(n_or_t, dict):
        return bool(_ATOMIC_T.match(n_or_t.get("dt") or "")) or bool(_ATOMIC_T.match(n_or_t.get("t") or ""))
    return bool(_ATOMIC_T.match(n_or_t or ""))


def is_release(order):
    return order in ("release", "acq_rel", "seq_cst")


def is_acquire(order):
    return order in ("acquire", "acq_rel", "seq_cst")


def _order_of(arg):
    """Memory order named by an argument expression: 'relaxed'.. or '?' (not a constant)."""
    a = cir.strip(arg)
    if a is None:
        return "?"
    if a.get("k") == "CXXDefaultArgExpr":
        return "seq_cst"
    if a.get("k") == "DeclRefExpr":
        nm = (a.get("ref") or {}).get("n") or ""
        nm = nm.replace("memory_order_", "")
        if nm in ORDERS:
            return nm
    return "?"


def _is_order_arg(arg):
    if arg is None:
        return False
    t = (arg.get("t") or "") + " " + (arg.get("dt") or "")
    if "memory_order" in t:
        return True
    a = cir.strip(arg)
    return a is not None and "memory_order" in ((a.get("t") or "") + (a.get("dt") or ""))


class AtomicOp:
    __slots__ = ("op", "kind", "obj", "objtext", "member", "mid", "order", "order_fail", "vals", "node", "post")

    def __repr__(self):
        return f"<{self.objtext}.{self.op}({self.order})>"

    def describe(self):
        return f"{self.objtext}.{self.op}({', '.join([cir.text(v) for v in self.vals] + [self.order])})"


def atomic_op(n):
    """Recognise an operation on a std::atomic object; returns AtomicOp or None.

    Member calls (load/store/fetch_*/exchange/compare_exchange_*/wait/notify_*), overloaded operators
    (++ -- += -= &= |= ^= and assignment: seq_cst), implicit conversion (load, seq_cst) and the
    std::atomic_* free functions are covered.  `post` is True when the value of the expression is the
    value *before* the modification (fetch_*, exchange, postfix ++/--)."""
    if n is None:
        return None
    k = n.get("k")
    op = AtomicOp()
    op.node, op.order_fail, op.post = n, None, False
    c = cir.kids(n)
    if k == "CXXMemberCallExpr" and c:
        f = cir.strip(c[0])
        if f is None or f.get("k") != "MemberExpr":
            return None
        fk = cir.kids(f)
        obj = cir.strip(fk[0]) if fk else None
        if obj is None or not is_atomic_type(obj):
            return None
        name = f.get("n") or ""
        if name.startswith("operator") and name not in _ASSIGN_OPS:
            name = "operator T"        # conversion function: an implicit seq_cst load
        a = list(c[1:])
        if name == "operator T":
            op.op, op.kind, op.order, op.vals = "load", "load", "seq_cst", []
        elif name in _KIND:
            op.op, op.kind = name, _KIND[name]
            orders = [x for x in a if _is_order_arg(x)]
            op.vals = [x for x in a if not _is_order_arg(x)]
            op.order = _order_of(orders[0]) if orders else "seq_cst"
            if op.kind == "cas":
                op.order_fail = _order_of(orders[1]) if len(orders) > 1 else None
            if op.kind == "notify":
                op.order = "-"
            op.post = name.startswith("fetch_") or name in ("exchange", "test_and_set")
        else:
            return None
        op.obj = obj
    elif k == "CXXOperatorCallExpr" and len(c) > 1:
        opn = cir.text(c[0])
        obj = cir.strip(c[1])
        if obj is None or not is_atomic_type(obj) or opn not in _ASSIGN_OPS:
            return None
        op.obj = obj
        op.order = "seq_cst"
        op.vals = list(c[2:])
        if opn == "operator=":
            op.op, op.kind = "store", "store"
        else:
            op.op, op.kind = opn, "rmw"
            # postfix ++/-- carry a dummy int argument
            op.post = opn in ("operator++", "operator--") and len(c) > 2
            if opn in ("operator++", "operator--"):
                op.vals = []
    elif k == "CallExpr" and c:
        name = cir.callee(n) or ""
        m = re.fullmatch(r"atomic_(load|store|exchange|fetch_add|fetch_sub|fetch_and|fetch_or|fetch_xor|wait|"
                         r"notify_one|notify_all|compare_exchange_weak|compare_exchange_strong)(_explicit)?", name)
        if not m or len(c) < 2:
            return None
        obj = cir.strip(c[1])
        if obj is not None and obj.get("k") == "UnaryOperator" and obj.get("op") == "&":
            obj = cir.strip(cir.kids(obj)[0])
        if obj is None or not is_atomic_type(obj):
            return None
        op.obj = obj
        op.op, op.kind = m.group(1), _KIND[m.group(1)]
        a = list(c[2:])
        orders = [x for x in a if _is_order_arg(x)]
        op.vals = [x for x in a if not _is_order_arg(x)]
        op.order = _order_of(orders[0]) if orders else "seq_cst"
        if op.kind == "cas":
            op.order_fail = _order_of(orders[1]) if len(orders) > 1 else None
        op.post = op.op.startswith("fetch_") or op.op == "exchange"
    else:
        return None
    op.objtext = cir.text(op.obj)
    tm = this_member(op.obj)
    op.member, op.mid = (tm if tm else (None, None))
    if op.member is None and op.obj.get("k") == "MemberExpr":
        op.mid = op.obj.get("mid")
    return op


def atomic_ops(root, own=True):
    it = own_walk(root) if own else cir.walk(root)
    for n in it:
        a = atomic_op(n)
        if a is not None:
            yield a


# ----------------------------------------------------------------------------------------------
# locks

_STD_LOCK = re.compile(r"^(?:const )?std::(?:__1::)?(lock_guard|unique_lock|scoped_lock|shared_lock)<")
_MUTEX_T = re.compile(r"std::(?:__1::)?(?:recursive_|shared_|timed_|recursive_timed_|shared_timed_)?mutex\b")


def is_std_lock_type(t):
    return bool(_STD_LOCK.match(t or ""))


def lock_class_info(kl: Klass):
    """If the record is an RAII lock (some constructor calls `.lock()` on a mutex-typed member or
    parameter and the destructor calls `.unlock()`), return a dict describing it, else None.

    {'lock_calls': [(ctor, call node, [enclosing condition nodes])], 'unlock_calls': [...],
     'mutex_field': name}"""
    def mutex_calls(fn, which):
        out = []
        b = cir.body(fn)
        if b is None:
            return out

        def rec(n, conds):
            if n is None:
                return
            k = n.get("k")
            if k == "IfStmt":
                c = list(cir.kids(n))
                idx = (1 if n.get("hasInit") else 0) + (1 if n.get("hasVar") else 0)
                cond = c[idx]
                rec(cond, conds)
                for br in c[idx + 1:]:
                    rec(br, conds + [cond])
                return
            if k in ("WhileStmt", "ForStmt", "DoStmt", "ConditionalOperator", "SwitchStmt"):
                for x in cir.kids(n):
                    rec(x, conds + [n])
                return
            if k == "LambdaExpr":
                return
            if k == "CXXMemberCallExpr" and cir.callee(n) == which:
                f = cir.strip(cir.kids(n)[0])
                obj = cir.strip(cir.kids(f)[0]) if f is not None and cir.kids(f) else None
                if obj is not None and _MUTEX_T.search(type_of(obj)):
                    out.append((fn, n, list(conds), obj))
            for x in cir.kids(n):
                rec(x, conds)
        rec(b, [])
        return out
    locks = [x for c in kl.ctors for x in mutex_calls(c, "lock")]
    unlocks = mutex_calls(kl.dtor, "unlock") if kl.dtor is not None else []
    if not locks or not unlocks:
        return None
    tm = this_member(locks[0][3])
    return {"lock_calls": locks, "unlock_calls": unlocks, "mutex_field": tm[0] if tm else cir.text(locks[0][3])}


def record_name_of_type(t):
    """Bare record name of a (possibly qualified, cv, reference) type spelling."""
    t = re.sub(r"\b(const|volatile|struct|class)\b", "", t or "").replace("&", "").strip()
    t = re.sub(r"<.*>$", "", t)
    return t.split("::")[-1].strip()


def lock_regions(fn, lock_types=()):
    """[(VarDecl of the lock local, set of id() of the nodes executed while it is alive)] for `fn`.

    A lock local is a variable whose type is a std lock class or a record named in lock_types.  Its
    region is the rest of its enclosing compound statement (own nodes only: nested lambda bodies are
    separate functions and are not part of the region)."""
    out = []
    b = cir.body(fn)
    if b is None:
        return out

    def rec(n):
        if n is None:
            return
        if n.get("k") == "CompoundStmt":
            ks = list(cir.kids(n))
            for i, s in enumerate(ks):
                if s is not None and s.get("k") == "DeclStmt":
                    for d in cir.kids(s):
                        if d is not None and d.get("k") == "VarDecl":
                            t = type_of(d)
                            if is_std_lock_type(t) or is_std_lock_type(d.get("t")) or \
                                    record_name_of_type(t) in lock_types:
                                region = set()
                                for later in ks[i + 1:]:
                                    for x in own_walk(later):
                                        region.add(id(x))
                                out.append((d, region, ks[i + 1:]))
        if n.get("k") == "LambdaExpr":
            return
        for c in cir.kids(n):
            rec(c)
    rec(b)
    return out


# ----------------------------------------------------------------------------------------------
# inlining of same-class helpers


def _has_return(n):
    return any(x.get("k") == "ReturnStmt" for x in own_walk(n))


def _subst(node, mapping):
    """Deep copy of node with DeclRefExprs to the ids in mapping replaced by (copies of) expressions."""
    if node is None:
        return None
    if node.get("k") == "DeclRefExpr":
        rid = (node.get("ref") or {}).get("id")
        if rid in mapping:
            return copy.deepcopy(mapping[rid])
    if node.get("k") == "LambdaExpr":
        return copy.deepcopy(node)
    out = {k: v for k, v in node.items() if k != "i"}
    if "i" in node:
        out["i"] = [_subst(c, mapping) for c in node["i"]]
    return out


def inline_helpers(fn, kl: Klass, depth=3):
    """A copy of `fn` in which expression statements that call a method of the same class on *this are
    replaced by that method's body (parameters substituted by the argument expressions).

    Only helpers without `return` statements, whose parameters are never assigned and whose arguments
    are pure are expanded; anything else is left as a call.  Returns (new fn node, [inlined names])."""
    mids = kl.method_ids()
    defs = {}
    for name, ms in kl.methods.items():
        d = kl.method(name)
        if d is not None:
            for m in ms:
                defs[m.get("id")] = d
    inlined = []

    def helper_of(stmt):
        s = stmt
        while s is not None and s.get("k") in ("ExprWithCleanups",):
            s = cir.kids(s)[0]
        if s is None or s.get("k") != "CXXMemberCallExpr":
            return None
        f = cir.strip(cir.kids(s)[0])
        if f is None or f.get("k") != "MemberExpr" or f.get("mid") not in defs:
            return None
        if this_member(f) is None:
            return None
        h = defs[f.get("mid")]
        if h is fn:
            return None
        hb = cir.body(h)
        if hb is None or _has_return(hb):
            return None
        ps = cir.params(h)
        a = cir.kids(s)[1:]
        if len(a) != len(ps):
            return None
        pid = {p.get("id") for p in ps}
        for lv, w, how in writes(hb):
            if ref_id(lv) in pid:
                return None
        for x in a:
            if x is None or not cir.is_pure(x):
                return None
        return h, {p.get("id"): x for p, x in zip(ps, a)}

    def expand(n, d):
        if n is None:
            return None
        if n.get("k") == "LambdaExpr":
            return copy.deepcopy(n)
        if n.get("k") == "CompoundStmt":
            ks = []
            for s in cir.kids(n):
                h = helper_of(s) if d > 0 else None
                if h:
                    hfn, mp = h
                    inlined.append(hfn.get("n"))
                    body = _subst(cir.body(hfn), mp)
                    body = expand(body, d - 1)
                    if any(x is not None and x.get("k") == "DeclStmt" for x in cir.kids(body)):
                        ks.append(body)           # keep the helper's scope
                    else:
                        ks.extend(cir.kids(body))
                else:
                    ks.append(expand(s, d))
            out = {k: v for k, v in n.items() if k != "i"}
            out["i"] = ks
            return out
        out = {k: v for k, v in n.items() if k != "i"}
        if "i" in n:
            kids = []
            for c in n["i"]:
                if c is not None and c.get("k") not in ("CompoundStmt",) and d > 0 and helper_of(c) and \
                        n.get("k") in ("IfStmt", "WhileStmt", "ForStmt", "DoStmt", "CXXForRangeStmt") and \
                        c.get("k") == "CXXMemberCallExpr":
                    # single-statement branch/body: wrap in a compound so it can be expanded
                    kids.append(expand({"k": "CompoundStmt", "line": c.get("line"), "i": [c]}, d))
                else:
                    kids.append(expand(c, d))
            out["i"] = kids
        return out
    new = {k: v for k, v in fn.items() if k != "i"}
    new["i"] = [expand(c, depth) if (c is not None and c.get("k") == "CompoundStmt") else c for c in cir.kids(fn)]
    return new, inlined


def inline_calls(fn, resolve, pred=lambda h: True, depth=3):
    """A copy of `fn` in which statement-level calls of functions defined in the same TU are replaced by the callee's
    body (parameters substituted by the argument expressions): what a rule sees does not depend on whether a piece of
    code was extracted into a helper function / function template / private method.

    resolve(call) -> definition node or None; pred(definition) selects what may be expanded.  Expanded are only calls
    whose arguments are pure, whose callee never assigns a parameter (writes *through* reference / pointer parameters
    are fine: they are writes to the argument), and whose `return`s are all plain `return;` in tail position once
    early returns are nested into if/else (norm.nest).  Anything else is left as a call.

    Returns (new fn node, ids of the call nodes of fn itself that were expanded, [names of expanded callees])."""
    from . import norm
    expanded, names = set(), []

    def strip_tail_returns(stmts):
        stmts = [x for x in stmts if x is not None]
        if not stmts:
            return stmts
        last = stmts[-1]
        k = last.get("k")
        if k == "ReturnStmt" and not [c for c in cir.kids(last) if c is not None]:
            return stmts[:-1]
        if k == "CompoundStmt":
            n = dict(last)
            n["i"] = strip_tail_returns(cir.kids(last))
            return stmts[:-1] + [n]
        if k == "IfStmt":
            pre, cond, then, els = norm._if_parts(last)
            t2 = strip_tail_returns(norm._stmts(then))
            e2 = strip_tail_returns(norm._stmts(els)) if els is not None else []
            return stmts[:-1] + [norm._mk_if(last, pre, cond, t2, e2)]
        return stmts

    bodies = {}

    def body_of(h):
        """helper body ready for expansion, or None"""
        if id(h) in bodies:
            return bodies[id(h)]
        hb = cir.body(h)
        out = None
        if hb is not None:
            if _has_return(hb):
                try:
                    hb2 = cir.body(norm.nest(h, fatal=False))
                except Exception:      # a shape norm.nest does not handle: leave the call alone
                    hb2 = None
                if hb2 is not None:
                    hb2 = dict(hb2)
                    hb2["i"] = strip_tail_returns(cir.kids(hb2))
                    if not _has_return(hb2):
                        out = hb2
            else:
                out = hb
        bodies[id(h)] = out
        return out

    def helper_of(stmt, stack):
        s = stmt
        while s is not None and s.get("k") == "ExprWithCleanups" and len([x for x in cir.kids(s) if x is not None]) == 1:
            s = [x for x in cir.kids(s) if x is not None][0]
        if s is None or s.get("k") not in ("CallExpr", "CXXMemberCallExpr"):
            return None
        if s.get("k") == "CXXMemberCallExpr":
            f = cir.strip(cir.kids(s)[0])
            if f is None or f.get("k") != "MemberExpr" or this_member(f) is None:
                return None        # only methods called on *this keep their meaning when pasted into the caller
        h = resolve(s)
        if h is None or h is fn or id(h) in stack or not pred(h):
            return None
        hb = body_of(h)
        if hb is None:
            return None
        ps = cir.params(h)
        a = list(cir.kids(s)[1:])
        if len(a) != len(ps):
            return None
        pt = {p.get("id"): (p.get("t") or "").strip() for p in ps}
        through = set()
        for lv, w, how in writes(hb, own=False):
            rid = ref_id(lvalue_root(lv))
            if rid in pt:
                if ref_id(lv) in pt or not (pt[rid].endswith("&") or pt[rid].endswith("*") or "*" in pt[rid]):
                    return None
                through.add(rid)
        for x in a:
            if x is None or not cir.is_pure(x):
                return None
        # an argument the callee writes through must not share its root object with another argument: pasting the
        # argument expressions in place of the parameters would re-read what the callee has changed
        roots = {p.get("id"): ref_id(lvalue_root(x)) for p, x in zip(ps, a)}
        for wp in through:
            if roots.get(wp) is None or any(q != wp and r == roots[wp] for q, r in roots.items()):
                return None
        return h, hb, {p.get("id"): x for p, x in zip(ps, a)}

    def expand(n, d, stack, top):
        if n is None:
            return None
        if n.get("k") == "LambdaExpr":
            return copy.deepcopy(n)
        if n.get("k") == "CompoundStmt":
            ks = []
            for s in cir.kids(n):
                h = helper_of(s, stack) if d > 0 and s is not None else None
                if h:
                    hfn, hb, mp = h
                    names.append(hfn.get("n"))
                    if top:
                        for x in cir.walk(s):
                            if x.get("k") in ("CallExpr", "CXXMemberCallExpr") and resolve(x) is hfn:
                                expanded.add(id(x))
                    body = _subst(hb, mp)
                    body = expand(body, d - 1, stack | {id(hfn)}, False)
                    if any(x is not None and x.get("k") == "DeclStmt" for x in cir.kids(body)):
                        ks.append(body)           # keep the helper's scope
                    else:
                        ks.extend(cir.kids(body))
                else:
                    ks.append(expand(s, d, stack, top))
            out = {k: v for k, v in n.items() if k != "i"}
            out["i"] = ks
            return out
        out = {k: v for k, v in n.items() if k != "i"}
        if "i" in n:
            kids = []
            spos = _stmt_positions(n)
            for ci, c in enumerate(n["i"]):
                if c is not None and d > 0 and ci in spos and \
                        c.get("k") in ("CallExpr", "CXXMemberCallExpr", "ExprWithCleanups") and helper_of(c, stack):
                    # single-statement branch/body: wrap in a compound so it can be expanded
                    kids.append(expand({"k": "CompoundStmt", "line": c.get("line"), "i": [c]}, d, stack, top))
                else:
                    kids.append(expand(c, d, stack, top))
            out["i"] = kids
        return out

    new = {k: v for k, v in fn.items() if k != "i"}
    new["i"] = [expand(c, depth, frozenset(), True) if (c is not None and c.get("k") == "CompoundStmt") else c
                for c in cir.kids(fn)]
    return new, expanded, names


def _stmt_positions(n):
    """indices of the kids of a control statement that are statements (branches / loop body), not expressions"""
    k = n.get("k")
    c = n.get("i") or []
    if k == "IfStmt":
        idx = (1 if n.get("hasInit") else 0) + (1 if n.get("hasVar") else 0)
        return set(range(idx + 1, len(c)))
    if k in ("WhileStmt", "ForStmt", "CXXForRangeStmt"):
        return {len(c) - 1}
    if k == "DoStmt":
        return {0}
    return set()


# ----------------------------------------------------------------------------------------------
# values


def local_defs(fn, var_id):
    """All definitions of a local: [(node, value expr or None)] (VarDecl init, assignments, ++/--)."""
    out = []
    b = cir.body(fn)
    for n in cir.walk(b) if b else ():
        if n.get("k") == "VarDecl" and n.get("id") == var_id:
            init = [c for c in cir.kids(n) if c is not None and not c.get("k", "").endswith("Attr")]
            if init or n.get("k") == "ParmVarDecl":
                out.append((n, init[-1] if init else None))     # a declaration without initialiser defines nothing
    for lv, w, how in writes(b, own=False) if b else ():
        if ref_id(lv) == var_id:
            c = cir.kids(w)
            val = c[1] if w.get("k") == "BinaryOperator" and w.get("op") == "=" and how == "assign" else None
            out.append((w, val))
    # address taken -> may be written anywhere
    for n in cir.walk(b) if b else ():
        if n.get("k") == "UnaryOperator" and n.get("op") == "&" and ref_id(cir.kids(n)[0]) == var_id:
            out.append((n, None))
    return out


def resolve_local(expr, fn, kl: Klass | None = None, depth=4):
    """Follow single-definition locals and trivial accessor methods: returns the defining expression.

    `int n = threads_.size(); ... n` -> `threads_.size()`;  `ThreadCount()` whose body is one
    `return e;` -> e."""
    e = cir.strip(expr)
    while depth > 0 and e is not None:
        depth -= 1
        if e.get("k") == "DeclRefExpr" and (e.get("ref") or {}).get("k") == "VarDecl":
            defs = local_defs(fn, (e.get("ref") or {}).get("id"))
            if len(defs) == 1 and defs[0][1] is not None:
                e = cir.strip(defs[0][1])
                continue
            return e
        if kl is not None and e.get("k") == "CXXMemberCallExpr" and len(cir.kids(e)) == 1:
            f = cir.strip(cir.kids(e)[0])
            if f is not None and f.get("k") == "MemberExpr" and this_member(f) is not None:
                m = None
                for name, ms in kl.methods.items():
                    if any(x.get("id") == f.get("mid") for x in ms):
                        m = kl.method(name)
                if m is not None:
                    st = [s for s in cir.kids(cir.body(m)) if s is not None]
                    if len(st) == 1 and st[0].get("k") == "ReturnStmt" and cir.kids(st[0]):
                        e = cir.strip(cir.kids(st[0])[0])
                        continue
            return e
        return e
    return e


def const_truth(expr):
    """True/False when the expression is a constant (bool/integer literal, possibly negated / cast to
    bool), else None."""
    e = cir.strip(expr)
    if e is None:
        return None
    k = e.get("k")
    if k == "CXXBoolLiteralExpr":
        return bool(e.get("v"))
    if k == "IntegerLiteral":
        try:
            return int(str(e.get("v")), 0) != 0
        except ValueError:
            return None
    if k in ("CXXNullPtrLiteralExpr", "GNUNullExpr"):
        return False
    if k == "UnaryOperator" and e.get("op") in ("-", "+", "~"):
        v = const_int(e)
        return None if v is None else v != 0
    if k == "UnaryOperator" and e.get("op") == "!":
        v = const_truth(cir.kids(e)[0])
        return None if v is None else not v
    return None


def const_int(expr):
    e = cir.strip(expr)
    if e is None:
        return None
    k = e.get("k")
    if k == "IntegerLiteral":
        try:
            return int(str(e.get("v")), 0)
        except ValueError:
            return None
    if k == "CXXBoolLiteralExpr":
        return 1 if e.get("v") else 0
    if k == "UnaryOperator" and e.get("op") in ("-", "+", "~"):
        v = const_int(cir.kids(e)[0])
        if v is None:
            return None
        return {"-": -v, "+": v, "~": ~v}[e.get("op")]
    return None


def always_ends(stmt, noreturn=lambda call: False):
    """True when every path through the statement ends in return / throw / a non-returning call
    (structural: if-else with both branches ending, compound ending in such a statement)."""
    if stmt is None:
        return False
    k = stmt.get("k")
    if k in ("ReturnStmt", "CXXThrowExpr"):
        return True
    if k == "CompoundStmt":
        return any(always_ends(s, noreturn) for s in cir.kids(stmt))
    if k == "IfStmt":
        c = list(cir.kids(stmt))
        idx = (1 if stmt.get("hasInit") else 0) + (1 if stmt.get("hasVar") else 0)
        br = c[idx + 1:]
        return len(br) == 2 and all(always_ends(b, noreturn) for b in br)
    if k in ("ExprWithCleanups", "AttributedStmt"):
        return any(always_ends(s, noreturn) for s in cir.kids(stmt))
    if cir.is_call(stmt):
        return bool(noreturn(stmt))
    return False


def enclosing_map(root):
    """id(node) -> parent node, for the subtree."""
    par = {}
    stack = [root]
    while stack:
        x = stack.pop()
        for c in cir.kids(x):
            if c is not None:
                par[id(c)] = x
                stack.append(c)
    return par


# ----------------------------------------------------------------------------------------------
# per-construct verdicts over all paths; comparison leaves

CMP_MIRROR = {"<": ">", ">": "<", "<=": ">=", ">=": "<=", "==": "==", "!=": "!="}


class Events:
    """construct -> verdict; a construct is discharged only if every visit (path) discharged it."""

    def __init__(self):
        self.ev = {}

    def note(self, construct, ok, node, msg, sample=None):
        e = self.ev.get(construct)
        if e is None:
            e = self.ev[construct] = {"ok": True, "line": node.get("line") if node else None, "msg": None,
                                      "sample": sample}
        if not ok and e["ok"]:
            e["ok"] = False
            e["msg"] = msg
            e["line"] = (node.get("line") if node else None) or e["line"]

    def flush(self, res, rule, prefix, file):
        for c, e in sorted(self.ev.items()):
            key = f"{prefix}:{c}"
            if e["ok"]:
                res.ok(rule, key, dict({"file": file, "line": e["line"]}, **(e["sample"] or {})))
            else:
                res.bad(rule, key, file, e["line"], e["msg"])


def cmp_sides(cond):
    """(op, left, right) of a comparison leaf, else None."""
    c = cir.strip(cond)
    if c is None:
        return None
    if c.get("k") == "BinaryOperator" and c.get("op") in CMP_MIRROR:
        a, b = cir.kids(c)
        return c.get("op"), a, b
    if c.get("k") == "CXXOperatorCallExpr":
        ks = cir.kids(c)
        opn = cir.text(ks[0]).replace("operator", "")
        if opn in CMP_MIRROR and len(ks) == 3:
            return opn, ks[1], ks[2]
    return None


# ----------------------------------------------------------------------------------------------
# self-test support (baseline-aware scratch-copy mutants; used by the C03 / C40 checkers)

_RULE_LINE = re.compile(r"rule=(\S+) construct=(\S+?):? ")


def run_mutants(pid, res, mutants, parts=("include", "src", "cmake", "CMakeLists.txt", "plugin"), jobs=6):
    """Run anchored text mutants of /repo on scratch copies and compare with the current result.

    mutants: dicts {id, edits: [(file, old, new[, count])], expect: (rule, construct substring) | None,
    fixes: [(rule, construct substring)] (controls only: reports that the edit must make disappear)}.
    A must-fire mutant has to add a (rule, construct) report that is not in the unmutated result;
    a control (expect None) has to reproduce exactly the unmutated set of reports.  An analyser
    refusal (exit 2) is accepted for must-fire mutants only (fail-closed) and listed as such.
    Stale anchors are counted, not failed."""
    import concurrent.futures as cf
    from . import scratch
    base = {(v["rule"], v["construct"]) for v in res.violations}

    def one(m):
        try:
            with scratch.scratch(list(parts)) as root:
                for e in m["edits"]:
                    try:
                        scratch.edit(root, e[0], e[1], e[2], e[3] if len(e) > 3 else 1)
                    except RuntimeError:
                        return m["id"], "stale", ""
                rc, out = scratch.run_check(pid, root)
        except Exception as ex:  # pragma: no cover
            return m["id"], "error", str(ex)
        got = set()
        for line in out.splitlines():
            mm = re.search(r"rule=(\S+) construct=(\S+)", line)
            if mm:
                got.add((mm.group(1), mm.group(2).rstrip(":")))
        if rc == 2:
            return m["id"], ("refused" if m["expect"] else "control-refused"), out[-400:]
        if m["expect"] is None:
            # a control may be a *fix*: the listed (rule, construct substring) reports must disappear, nothing else change
            want = {b for b in base if not any(b[0] == f[0] and f[1] in b[1] for f in m.get("fixes", ()))}
            if m.get("fixes") and want == base:
                return m["id"], "stale", "the finding this fix removes is not reported on the unmutated tree"
            if got == want:
                return m["id"], "silent", ""
            return m["id"], "control-fired", f"extra={sorted(got - want)} missing={sorted(want - got)}"
        new = got - base
        hit = [g for g in new if g[0] == m["expect"][0] and m["expect"][1] in g[1]]
        return m["id"], ("fired" if hit else "missed"), f"new={sorted(new)}"

    res.rule("SELFTEST", "scratch-copy mutants are reported naming the construct; controls reproduce the unmutated "
             "result exactly", floor=0)
    with cf.ThreadPoolExecutor(max_workers=jobs) as ex:
        results = list(ex.map(one, mutants))
    bad, summary = [], {}
    for mid, status, detail in results:
        summary[mid] = status
        if status in ("fired", "silent", "refused"):
            res.ok("SELFTEST", mid, {"status": status})
        elif status == "stale":
            res.count("selftest_stale")
        else:
            bad.append((mid, status, detail))
    res.extra["selftest"] = summary
    if bad:
        raise AnalysisError("checker self-test failed: " + "; ".join(f"{m}: {s} [{d[:300]}]" for m, s, d in bad))
    return summary
