"""Results, evidence files, known findings, exit codes."""
from __future__ import annotations

import json
import os
import sys
import time

from .cfront import VERIF, AnalysisError

EVIDENCE_DIR = os.path.join(VERIF, "evidence")
REPLAY_DIR = os.path.join(VERIF, "evidence", "replay")
KNOWN = os.path.join(VERIF, "known_findings.json")


def load_known():
    try:
        with open(KNOWN) as f:
            data = json.load(f)
    except FileNotFoundError:
        return []
    return data.get("findings", [])


class Result:
    def __init__(self, pid: str, tier: str, level: str = "other"):
        self.pid = pid
        self.tier = tier
        self.level = level
        self.t0 = time.time()
        self.rules = {}          # rule -> dict(instances, discharged, floor, what)
        self.samples = []
        self.violations = []     # dicts: rule, construct, file, line, msg
        self.assumptions = []
        self.explanation = ""
        self.not_decided = ""
        self.analysed = {}       # free-form counters: tus, functions, call sites...
        self.extra = {}
        self.trusted = ["clang 14 parser/type checker (JSON AST)", "repo contract: error handlers do not return"]
        self.seed = int(os.environ.get("VERIF_SEED", "0") or 0)
        self.write_evidence = True

    # -- recording
    def rule(self, name, what, floor=0):
        r = self.rules.setdefault(name, {"what": what, "instances": 0, "discharged": 0, "floor": floor,
                                         "constructs": set()})
        r["floor"] = max(r["floor"], floor)
        return r

    def ok(self, rule, construct, sample=None):
        r = self.rules[rule]
        r["instances"] += 1
        r["discharged"] += 1
        r["constructs"].add(str(construct))
        if sample is not None and len(self.samples) < 40 and sum(1 for s in self.samples if s.get("rule") == rule) < 4:
            s = {"rule": rule, "construct": str(construct)}
            if isinstance(sample, dict):
                s.update(sample)
            else:
                s["detail"] = sample
            self.samples.append(s)

    def bad(self, rule, construct, file, line, msg, **kw):
        r = self.rules[rule]
        r["instances"] += 1
        r["constructs"].add(str(construct))
        v = {"rule": rule, "construct": str(construct), "file": file, "line": line, "msg": msg}
        v.update(kw)
        self.violations.append(v)

    def seen(self, rule, construct):
        """an instance that was enumerated but whose verdict is subsumed by an earlier report (keeps floors meaningful)"""
        r = self.rules[rule]
        r["instances"] += 1
        r["constructs"].add(str(construct))

    def count(self, key, n=1):
        self.analysed[key] = self.analysed.get(key, 0) + n

    # -- finishing
    def finish(self):
        wall = time.time() - self.t0
        known = load_known()
        # floors: a rule that matched fewer instances than confirmed by hand is broken
        new, listed = [], []
        for v in self.violations:
            hit = None
            for k in known:
                if k.get("status", "known") != "known":
                    continue
                if k.get("property") == self.pid and k.get("rule") == v["rule"] and k.get("construct") == v["construct"]:
                    hit = k
                    break
            (listed if hit else new).append((v, hit))
        # floors: a rule that matched fewer instances than confirmed by hand is broken -- unless the run already reports
        # a new violation (a deleted or reshaped instance is then reported by its rule, which is the more useful verdict)
        if not new:
            for name, r in self.rules.items():
                if r["instances"] < r["floor"]:
                    raise AnalysisError(f"rule {name}: {r['instances']} instances, below the confirmed floor "
                                        f"{r['floor']} — anchors moved or the front end lost coverage")
        for v, k in listed:
            print(f"KNOWN-FINDING: property={self.pid} rule={v['rule']} construct={v['construct']} "
                  f"{v['file']}:{v['line']} {v['msg']}")
        os.makedirs(EVIDENCE_DIR, exist_ok=True)
        replays = []
        if new and self.write_evidence:
            os.makedirs(REPLAY_DIR, exist_ok=True)
        for i, (v, _) in enumerate(new):
            path = os.path.join(REPLAY_DIR, f"{self.pid}-{i}.json")
            if self.write_evidence:
                with open(path, "w") as f:
                    json.dump({"property": self.pid, **v}, f, indent=1, default=str)
            replays.append(path)
            print(f"{v['file']}:{v['line']}: rule={v['rule']} construct={v['construct']}: {v['msg']}")
            print(f"VIOLATION property={self.pid} replay={path}")
        obligations = sum(r["instances"] for r in self.rules.values())
        discharged = sum(r["discharged"] for r in self.rules.values())
        distinct = len({(n, c) for n, r in self.rules.items() for c in r["constructs"]})
        rules_out = {n: {"what": r["what"], "instances": r["instances"], "discharged": r["discharged"],
                         "floor": r["floor"], "distinct_constructs": len(r["constructs"])}
                     for n, r in self.rules.items()}
        cov = {
            "explanation": self.explanation + (" NOT DECIDED: " + self.not_decided if self.not_decided else ""),
            "obligations": obligations,
            "discharged": discharged,
            "evaluations": max(obligations, 1),
            "distinct_nontrivial": distinct,
            "rule": "one obligation per rule instance (call site, table row, path family, function) found in /repo's "
                    "current source; distinct = distinct (rule, construct) pairs; every instance is non-trivial in that "
                    "it is a real construct of the code base the rule had to accept or reject",
            "samples": self.samples[:40] or [{"note": "no instances"}],
            "checker_cmd": f"python3-vt -m sa.check {self.pid} --tier {self.tier}",
            "trusted_base": self.trusted,
            "exhaustive": True,
            "rules": rules_out,
            "analysed": self.analysed,
            "known_findings_reported": [v["construct"] for v, _ in listed],
            "new_violations": [{"rule": v["rule"], "construct": v["construct"], "where": f"{v['file']}:{v['line']}",
                                "msg": v["msg"]} for v, _ in new],
        }
        cov.update(self.extra)
        ev = {
            "property_id": self.pid,
            "tier": self.tier,
            "seed": self.seed,
            "level": self.level,
            "coverage": cov,
            "assumptions": self.assumptions,
            "wall_s": round(wall, 3),
            "violations": len(new),
        }
        if self.write_evidence:
            with open(os.path.join(EVIDENCE_DIR, f"{self.pid}.json"), "w") as f:
                json.dump(ev, f, indent=1, default=str)
        summ = ", ".join(f"{n}:{r['discharged']}/{r['instances']}" for n, r in self.rules.items())
        print(f"[{self.pid}] tier={self.tier} rules {{{summ}}} analysed={self.analysed} "
              f"known={len(listed)} new={len(new)} wall={wall:.1f}s")
        return 1 if new else 0
