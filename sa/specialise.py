"""Live-code specialisation of a function under constant bindings (expression text -> int).

Returns the statements/expressions that remain reachable when `if`/`switch` conditions that
fold to constants are resolved (loop bodies are kept).  Used by sibling-agreement rules to
compare "the IMPLICIT variant" of a forward integrator with the IMPLICIT case of the
inverse.
"""
from __future__ import annotations

from . import cir
from .pipeline import Flattener


class Specialiser(Flattener):
    def live(self, fn, env):
        out = []
        # locals that are assigned after their declaration must not be constant-folded
        self._assigned = set()
        for n in cir.walk(fn):
            if (n.get("k") == "BinaryOperator" and n.get("op") == "=") or n.get("k") == "CompoundAssignOperator" or \
                    (n.get("k") == "UnaryOperator" and n.get("op") in ("++", "--")):
                t = cir.strip(cir.kids(n)[0])
                if t is not None and t.get("k") == "DeclRefExpr":
                    self._assigned.add((t.get("ref") or {}).get("n"))
        self._live(cir.body(fn), dict(env), out)
        return out

    def _live(self, st, env, out):
        if st is None:
            return
        k = st.get("k")
        if k == "CompoundStmt":
            for c in cir.kids(st):
                self._live(c, env, out)
            return
        if k == "IfStmt":
            c = list(cir.kids(st))
            idx = int(bool(st.get("hasInit"))) + int(bool(st.get("hasVar")))
            cond, then = c[idx], c[idx + 1]
            els = c[idx + 2] if len(c) > idx + 2 else None
            v = self.ceval(cond, env)
            if v is None:
                out.append(("cond", cond))
                self._live(then, env, out)
                self._live(els, env, out)
            else:
                self._live(then if v else els, env, out)
            return
        if k == "SwitchStmt":
            c = [x for x in cir.kids(st) if x is not None]
            cond, body = c[0], c[-1]
            cval = self.ceval(cond, env)
            groups = []
            labels = []

            def add(s):
                if s is None:
                    return
                if s.get("k") == "CaseStmt":
                    labels.append(cir.text(cir.kids(s)[0]))
                    add(cir.kids(s)[-1])
                elif s.get("k") == "DefaultStmt":
                    labels.append("<default>")
                    add(cir.kids(s)[-1])
                else:
                    if labels or not groups:
                        groups.append((list(labels), []))
                        labels.clear()
                    groups[-1][1].append(s)
            for s in cir.kids(body):
                add(s)
            known = {self.enum.get(l) for g_ in groups for l in g_[0] if l != "<default>"}
            for labs, stmts in groups:
                if cval is not None:
                    vals = [self.enum.get(l) for l in labs if l != "<default>"]
                    if not (cval in vals or ("<default>" in labs and cval not in known)):
                        continue
                else:
                    out.append(("cond", cond))
                for s in stmts:
                    if s.get("k") == "BreakStmt":
                        break
                    self._live(s, env, out)
            return
        if k in ("ForStmt", "WhileStmt", "DoStmt"):
            kids = list(cir.kids(st))
            if k == "ForStmt":
                for x in kids[:4]:
                    if x is not None:
                        out.append(("cond" if x is kids[2] else "expr", x))
                self._live(kids[4] if len(kids) > 4 else None, env, out)
            elif k == "WhileStmt":
                out.append(("cond", kids[0]))
                self._live(kids[-1], env, out)
            else:
                self._live(kids[0], env, out)
                out.append(("cond", kids[1]))
            return
        if k == "DeclStmt":
            for d in cir.kids(st):
                if d is not None and d.get("k") == "VarDecl" and d.get("init"):
                    init = [c for c in cir.kids(d) if c is not None]
                    v = self.ceval(init[-1], env)
                    if v is not None and d.get("n") not in getattr(self, "_assigned", ()):
                        env[d.get("n")] = v
            out.append(("expr", st))
            return
        out.append(("expr", st))


def nodes(live):
    for kind, n in live:
        for x in cir.walk(n):
            yield kind, x
