"""Generates /verif/MANIFEST.json from the tables below (python3-vt -m sa.manifest)."""
from __future__ import annotations

import json
import os

from .cfront import VERIF

BASELINE = ("cd /repo && /venv/bin/python -m pytest -ra -q -p no:cacheprovider --timeout=900 "
            "--continue-on-collection-errors")

# id -> (category, technique, text, note, design_ref)
CLAIMS = {
    "C19": ("other", "typestate analysis over all structured paths of the clang AST (frame depth, nullable arena "
            "results) + structural shape rules on engine_memory.c",
            "Static all-paths decision of the structural clauses of C19: stack frames balanced on every path of every "
            "engine function, frees only with an open frame, allocations only inside a frame or in an inferred "
            "caller-frame helper whose call sites are all framed, arena results null-tested before use, threadlock "
            "branch reserves only through the atomic add. This is the universal quantifier over call sequences that a "
            "test cannot give; block arithmetic (alignment/overlap) is not decided.",
            "Trusts clang's AST, the no-return contract of error handlers; infeasible paths through impure predicates "
            "are over-approximated (can only cause a report).", "DESIGN.md 4/C19"),
    "C20": ("other", "null-discipline dataflow on all paths per arena allocation site; wrapper inference by fixpoint; "
            "status-consumption rule at call sites",
            "Every mj_arenaAllocByte result (66 obligations incl. X-macro expansions) is tested on that very value "
            "before use, never used when NULL, the NULL branch reports and clears the arena field; status wrappers are "
            "consumed by all callers. Decides the 'never dereferences a failed arena allocation' clause for all inputs; "
            "numerical consistency of the truncated set is not decided.",
            "Trusts clang's AST and the no-return contract of mju_error/mjERROR.", "DESIGN.md 4/C20"),
}

CLAIMS["C26"] = ("other", "table-agreement rules over the clang AST (state switches vs X-macro extents vs mjtState), loop/cursor shape "
                 "rules, must-write coverage of the reset path over the call graph",
                 "Decides the structural clauses of C26 for all models and signatures: every state bit has consistent size/pointer/"
                 "extent entries, the five state loops visit every bit with the same cursor discipline in opposite copy directions, "
                 "mj_resetData unconditionally reinitialises every mjData member the simulation writes, keyframe functions use every "
                 "key_* array with its declared extent. Values copied are not decided.",
                 "Trusts clang's AST and preprocessor expansion of the X-macros.", "DESIGN.md 4/C26")
CLAIMS["C31"] = ("other", "reader/writer/size sequence agreement, guard budgeting, struct coverage and validation-table rules over the "
                 "macro-expanded clang AST",
                 "Decides for every model and every byte buffer the structural clauses of C31: writer, reader and size function agree "
                 "item by item (~490 items), every read is covered by a rejecting truncation guard, every mjModel member is serialised or "
                 "explicitly exempt, the validation table rows carry the X-macro extents, every cross-reference array is bound-checked "
                 "(26 known gaps are listed as known findings), no fatal error or -1 index in the validator. Byte equality of contents is "
                 "the memcpy mechanism covered by the sequence rule; semantic validity beyond bounds is not decided.",
                 "Trusts clang's AST/preprocessor; bufread/bufwrite bodies (5 lines) are part of the TU.", "DESIGN.md 4/C31")

CLAIMS["C49"] = ("translation_validation", "translation validation: the introspection metadata (evaluated by an ast-based literal evaluator, "
                 "never imported) against the clang AST of include/mujoco/mujoco.h, both directions",
                 "Every struct (66; 1774 fields: names, order, type trees, compiler-evaluated extents, anonymous members), enum (77; names, "
                 "order, values) and function (537; return, parameter names and types, array-parameter extents re-read from the source range) "
                 "in the metadata is compared with the declaration the C compiler sees, and every header declaration must be in the metadata "
                 "or in the repo's own codegen exclusion list. This is the 'as the C compiler sees them' clause decided completely; the "
                 "parse_type print-back round trip needs execution and is not decided.",
                 "Trusts clang 14's AST; variadic '...' is not representable in the metadata (listed in evidence).", "DESIGN.md 4/C49")
CLAIMS["C43"] = ("other", "cross-language agreement rules over Python ast (MJX) and the clang AST/headers (C): enumerator existence, mirror "
                 "enums, NotImplementedError gates on the put_model call graph, attribute reads vs C struct members, sensor stage tables",
                 "Necessary structural conditions for 'MJX reproduces the C engine built from this tree' and 'raises NotImplementedError "
                 "otherwise': every C enumerator/function/field MJX names exists in this tree's headers, every MJX enum that omits C "
                 "enumerators is gated on the put_model path, MJX computes each sensor type in the stage the C compiler assigns. "
                 "Numerical agreement is not decided.",
                 "Trusts clang's AST and Python's ast; warp/C++ back ends of MJX not analysed.", "DESIGN.md 4/C43")
CLAIMS["C44"] = ("other", "table agreement between MJX state/field tables (Python ast, partial evaluation of the size function) and the C state "
                 "switches / X-macro extents",
                 "Decides that MJX get_state/set_state use the same element->field map, sizes and bit order as mj_getState/mj_setState for "
                 "every signature, that every field copied by name between C and MJX objects exists in the C struct, that make_data builds "
                 "exactly the declared fields with the C shapes, that the JAX transfer functions copy the host views they hand to "
                 "jax.device_put, and that the hash key of static numpy fields (the jit cache key) is recomputed from the content on "
                 "every path. jit/vmap transparency in general and values are not decided.",
                 "Trusts clang's AST and Python's ast.", "DESIGN.md 4/C44")

CLAIMS["C46"] = ("other", "path-sensitive must-fact dataflow over Python ast: provenance of every residual() argument, dominance of the "
                 "accept assignment by the sufficient-decrease test",
                 "Decides for all residual functions, start points and bounds: every argument handed to the user's residual is clipped to "
                 "the bounds, an inward finite-difference point, or a value already shown safe; the iterate is replaced only where the "
                 "Armijo test on that candidate's own objective passed; the returned point and every trace entry are accepted iterates "
                 "paired with their own objective. The sign of the predicted decrease and the global minimum for linear residuals are "
                 "not decided.", "Trusts Python's ast; numpy idiom tables are explicit in the checker.", "DESIGN.md 4/C46")
CLAIMS["C47"] = ("other", "sign-domain abstract interpretation of the log-Cholesky factor + symbolic slot round-trip over Python ast",
                 "Decides for every real 10-vector: the factor built from theta is triangular with a strictly positive diagonal (exp "
                 "products), the pseudo-inertia is its Gram matrix, the mass is a diagonal element, and the inverse map reads every theta "
                 "slot from the position the forward map wrote it (symbolic round trip theta->U->theta = identity per slot). The theorem "
                 "'triangular with positive diagonal => U U^T positive definite => triangle inequalities' is the trusted step; compiled mass "
                 "properties are not decided.", "Trusts Python's ast and the linear-algebra theorem named in the text.", "DESIGN.md 4/C47")
CLAIMS["C48"] = ("other", "alias/mutation analysis (fresh vs view-of-parameter lattice, callee summaries) over Python ast",
                 "Decides for every function of the three signal modules on every path: no in-place store, augmented assignment, out= or "
                 "in-place method reaches memory owned by a parameter, and the modifiers return newly constructed series. Interpolation "
                 "values are not decided.", "Trusts Python's ast; numpy allocating/view idiom tables are explicit in the checker.",
                 "DESIGN.md 4/C48")

CLAIMS["C41"] = ("other", "exception-escape analysis over Python ast (raise sites, closed enumeration of raising operations with discharge "
                 "idioms, regex-in-float-grammar inclusion via NFA/DFA product), validator assume/guarantee, recursion-depth rule, "
                 "rule coverage by dependence signature",
                 "Decides for every input text: every raise in the parse closure constructs SchemaError with a token/declaration line; "
                 "every other operation that can raise (conversions, subscripts, cursor moves, unpacking, None attributes, recursion) "
                 "is discharged by a named idiom or reported; the validator guarantees the lookups its consumers make and runs between "
                 "parse and return; each documented rule has a SchemaError raise control-dependent on that rule's data (24 signatures). "
                 "Not decided: TypeError from non-ordering operand types, that the reported line is <= the line count.",
                 "Trusts Python's ast and re._parser; idiom tables are explicit in the checker.", "DESIGN.md 4/C41")
CLAIMS["C42"] = ("other", "determinism lint over set-typed values, exhaustiveness of dispatches against the schema vocabulary, validator "
                 "assume/guarantee for table lookups, recursion/visited-set rule over Python ast",
                 "Decides for every valid schema the structural clauses: no order-dependent use of a set and no ambient nondeterminism "
                 "feeds emitted text; every dispatch over attribute type / cardinality / constraint verb covers the parser's own "
                 "vocabulary or ends in an explicit default; every schema-table lookup is justified by a membership test, key provenance "
                 "or a validator guarantee; element-tree walks have an ancestry/visited test (one known finding: generate_mjcf_table). "
                 "Faithfulness of the emitted text is not decided.",
                 "Trusts Python's ast; literal anchor names (mujoco, worldbody...) are listed as assumptions in the evidence.",
                 "DESIGN.md 4/C42")
CLAIMS["C04"] = ("other", "sibling agreement of flattened orchestration sequences (inlining + constant propagation over the clang AST), "
                 "mod-set of the mj_forward closure over the whole-engine call graph, lazy-flag clear placement",
                 "Decides: for the Euler/implicit/implicitfast integrators mj_step and mj_step1;mj_step2 run the same guarded stage "
                 "sequence; mj_forwardSkip and mj_inverseSkip guard the shared sensor/energy stages identically; nothing reachable from "
                 "mj_forward writes a field of the integration state (state fields derived from the state tables); every lazy flag of "
                 "mjData is cleared before the same sensor stage in all three full pipelines. Numerical equality and warm-start "
                 "idempotence are not decided.", "Trusts clang's AST; callbacks/plugins are external.", "DESIGN.md 4/C04")

CLAIMS["C03"] = ("other", "protocol-shape analysis of ThreadPoolContext on the C++ clang AST: roles discovered from the AST, atomic RMW claim, "
                 "release/acquire ordering around plain fields, done-counter on all worker paths, dominance of Dispatch's exit by the wait, "
                 "shutdown and pool replacement",
                 "Decides necessary structural conditions of exactly-once dispatch: ids only from an atomic RMW, the task function called "
                 "only with a claimed, bound-tested id, plain job fields written before the releasing publish and read after the acquiring "
                 "wait, the done counter incremented exactly once per round with release, Dispatch cannot return before the acquire poll "
                 "of the done counter against the worker count, only workers check in on it, workers are started at construction only, "
                 "the destructor stores stop, notifies all and joins every thread, mju_threadpool deletes before replacing. "
                 "Absence of lost wake-ups / deadlock over all interleavings is model checking and is NOT decided.",
                 "Trusts clang's AST; std::atomic/condition semantics as specified by the C++ memory model.", "DESIGN.md 4/C03")
CLAIMS["C05"] = ("other", "exactly-once path rules, exact rational check of the constant-folded RK4 tableau, ownership of d->act writes over "
                 "the call graph, dispatch exhaustiveness",
                 "Decides: d->time advances by exactly one `+= timestep` per step on every path and only in mj_advance; each integrator calls "
                 "mj_advance exactly once; RK4 restores the entry time before advancing; the RK4 constants satisfy the eight order-4 "
                 "conditions (classical tableau up to representation); activations change only through the clamping update or a projection "
                 "of the stored value; mj_nextActivation clips to actrange on every non-DCMOTOR path; joint-type and integrator dispatches "
                 "are exhaustive. The arithmetic of the update rules is not decided.", "Trusts clang's AST.", "DESIGN.md 4/C05")
CLAIMS["C09"] = ("other", "sibling agreement between each forward integrator (constant-folded specialisation) and the matching case of the "
                 "discrete inverse; save/restore pairing on all paths",
                 "Decides that the matrix the forward integrator inverts and the one mj_discreteAcc multiplies by are built under the same "
                 "disable flags, with the same derivative calls and literal arguments, the same timestep sign and (Euler) the same model "
                 "arrays deciding implicit damping; forward results saved around the inverse pass are restored on all paths. Equality of "
                 "forces is not decided.", "Trusts clang's AST.", "DESIGN.md 4/C09")
CLAIMS["C38"] = ("other", "lock-region, key-mutation, paired-write and bound-dominance path rules on the C++ clang AST of mjCCache (member roles "
                 "discovered from the AST)",
                 "Decides on every path of every cache method: guarded members touched only under the class mutex, comparator key fields "
                 "mutated only while the element is outside the ordered set, every lookup-map insertion/erasure/replacement paired with the "
                 "byte-counter and ordered-set update, every growth of the counter dominated by the capacity test, comparator is the "
                 "strict (access count, insertion order) lexicographic order and trimming evicts the minimum. Value semantics over histories "
                 "are not decided.", "Trusts clang's AST; std::set/map semantics.", "DESIGN.md 4/C38")
CLAIMS["C39"] = ("other", "key-provenance dataflow over all mount-table accesses, add-first/no-mutation-before-repeat path rule, delete/read result "
                 "derivation on the C++ clang AST",
                 "Decides: every keyed access to the mount table uses a key produced by the same normalisation (FilePath), insertion is "
                 "non-overwriting and dominated by a negative containment test on that key, the repeated-name code is returned before any "
                 "mutation, delete's result derives from the find/erase outcome, read-back returns the stored provider's data/size. Which "
                 "entry prefix lookups select over a history is not decided.", "Trusts clang's AST.", "DESIGN.md 4/C39")
CLAIMS["C40"] = ("other", "lock-region, publish-ordering, reader-bound, provenance and sibling rules on the instantiated GlobalTable<T> ASTs",
                 "Decides for every instantiation: table storage written only while a write lock on that table's own mutex is alive, count "
                 "published by a release store only after a successful complete copy, readers bound every access by an acquired count, "
                 "every *Unsafe call passes a bound obtained from the same table's count, uniqueness scan covers [0,count) with the "
                 "case-folding comparison lookups use, registering functions establish non-empty keys; one known finding (fatal error call "
                 "while the lock is held). Linearizability over interleavings is not decided.", "Trusts clang's AST and the C++ memory "
                 "model.", "DESIGN.md 4/C40")

CLAIMS["C30"] = ("other", "event-order rules on the flattened stepping pipelines, all-paths shape rule of each check's bad branch, exhaustive "
                 "finite evaluation of mju_isBad over IEEE order types",
                 "Decides: mj_checkPos/mj_checkVel precede the first stage and mj_checkAcc sits between the acceleration stage and the "
                 "integrator in mj_step and mj_step1;mj_step2 for every integrator (stage-anchor flattening: helpers and wrappers are "
                 "inlined); each check scans its whole (awake) vector unconditionally (directly or through a search helper) and on the "
                 "bad branch warns with the matching warning, resets exactly under !mjDISABLED(mjDSBL_AUTORESET), re-counts after the "
                 "reset and returns; mju_isBad is bad exactly for NaN and |x| > mjMAXVAL; mj_warning increments its counter on all paths. "
                 "'Every state component finite after every step' is value-level and not decided.", "Trusts clang's AST.",
                 "DESIGN.md 4/C30")
CLAIMS["C34"] = ("other", "table agreement: name-lookup reader vs X-macro extents vs numObjects vs nnames_map vs the compiler's writer "
                 "(C++ AST of mjCModel::CopyNames / namelist)",
                 "Decides for every model and object type: the count, the map-address decrement and the extent of the name-address array "
                 "agree per type; the reader's fall-through order equals the writer's layout order with the same scaling constant; both hash "
                 "with the same function and modulus and probe compatibly (-1 sentinel); a table hit is a full string comparison including "
                 "the terminator; lookups index only inside their tables. The reader is found by role (called by both lookups, switches "
                 "on mjtObj), the writer's layout function through lambdas/helpers of the TU. Probe termination for adversarial tables "
                 "is not decided.", "Trusts clang's AST/preprocessor.", "DESIGN.md 4/C34")

CLAIMS["C37"] = ("other", "table-vs-layout check of the generated attribute tables against the clang struct layout, dominance of element parsers "
                 "by the schema check, interprocedural exception-type flow to the extern-C boundary, error-message path rule",
                 "Decides for every document: each of the 567 generated attribute rows writes a field whose type and extent admit the row's "
                 "kind and length (memory safety of table-driven parsing); every element parser is reached only after schema.Check accepted; "
                 "no exception type thrown in the xml/user sources can escape mj_loadXML / mj_parseXMLString (1504 functions, handlers "
                 "modelled); every NULL return of the API chain is preceded by a non-empty error message. Crash-freedom inside tinyxml2 and "
                 "the schema automaton's accept/reject decisions are not decided.",
                 "Trusts clang's AST; third-party headers are declaration-only stubs.", "DESIGN.md 4/C37")
CLAIMS["C51"] = ("other", "must-pass clip rules, sibling/slot-table agreement, who-writes sets and index-dimension provenance on the plugins' C++ AST",
                 "Decides: the PID integral is clipped to +-imax on every path in both sibling computations and the setpoint slew clip is "
                 "applied whenever configured; state slot order/count agree among ActDim/GetState/ActDot; each plugin callback writes only "
                 "its own mjData slices (allowed sets listed with reasons); every index into nu/nout/na-dimensioned arrays comes from the "
                 "matching address array. The PID arithmetic and the cable's zero force at rest are not decided.",
                 "Trusts clang's AST and the X-macro row dimensions.", "DESIGN.md 4/C51")

CLAIMS["C01"] = ("other", "ownership/effect rules over the whole-engine call graph (static storage, nondeterminism sources), row-by-row coverage of "
                 "struct mjData by the copy routine, arena-rewind/clear pairing",
                 "Necessary structural conditions of determinism decided for all models and call sequences: nothing in the closure of "
                 "mj_step/mj_forward/mj_inverse (760 functions) writes non-thread-local static storage or calls rand/time/getenv-like "
                 "sources (log channel excepted); mj_copyData copies every member of mjData (whole-struct copy + one memcpy per X-macro row "
                 "with the row's type and extent; struct members and rows agree both ways); every arena rewind is accompanied by clearing "
                 "the arena-backed pointers. State tables, reset coverage and lazy flags are decided under C26/C04. Bit-identity of "
                 "floating point and uninitialised reads are not decided.", "Trusts clang's AST; callbacks/plugins are external.",
                 "DESIGN.md 4/C01")
CLAIMS["C02"] = ("other", "effect rules over the call-graph closure of every function passed to mju_dispatch, typestate rule on mju_dispatch "
                 "(frame/threadlock bracket) on the C++ AST",
                 "Necessary structural conditions decided: code reachable from pool tasks (385 functions) never allocates from the arena, "
                 "never dispatches or manages a pool, writes only thread-local statics and no scalar mjData member outside the stack "
                 "allocator (whose atomic threadlock branch is decided under C19); mju_dispatch runs the pool dispatch only with a frame "
                 "open and threadlock set and undoes both on every path; the serial fallback runs func(m,d,arg,0,i) for every i. "
                 "Disjointness of task slices, data-race freedom in general and bit-identity are not decided.",
                 "Trusts clang's AST; function-pointer edges are those of the repo's own tables.", "DESIGN.md 4/C02")

CLAIMS["C14"] = ("other", "finite truth-table evaluation of the filter predicates, must-pass path rules on every enqueue/collide site, comparator "
                 "antisymmetry by exhaustive order-type evaluation",
                 "Decides: the bitmask filter (at each of its call sites) equals the documented contype/conaffinity rule over all 256 bit "
                 "assignments; the body-pair filter's table matches the documented same-body/weld/parent-child rules incl. the "
                 "FILTERPARENT guard; every path that enqueues a non-explicit pair passed the bitmask filter for that pair and the exclude "
                 "lookup, explicit pairs use their own parameters, the disable-flag early return precedes any enqueue; every margin read of the "
                 "driver goes through mj_assignMargin or sits on the not-overridden side of an override test (so all phases agree under "
                 "mjENBL_OVERRIDE); sort comparators are antisymmetric. Decided on views in which private helpers are analysed inside "
                 "their callers. That SAP/BVH pruning never drops a close pair is geometric and not decided.",
                 "Trusts clang's AST; NaN keys are outside the property's configurations (checked states).", "DESIGN.md 4/C14")
CLAIMS["C16"] = ("other", "finite evaluation of the nearest-hit update predicate over order types (incl. NaN and the -1 sentinel), paired-write, "
                 "initialisation, sibling-dispatch and must-write path rules",
                 "Decides at all 16 update sites: update iff cand >= 0 and (best < 0 or cand < best); distance and geom id (and normal) are "
                 "written together; -1/-1 initialisation on every path and the tracked distance is returned; mj_ray and the single-ray "
                 "path dispatch every geom type to the same routine with the same filters; mj_multiRay writes dist[i] and geomid[i] on "
                 "every path for every ray. Analytic intersection distances are not decided.", "Trusts clang's AST.", "DESIGN.md 4/C16")
CLAIMS["C22"] = ("other", "abstract (3-valued comparator) evaluation of every mjSORT/mjPARTIAL_SORT expansion and of the insertion sorts; bounds by "
                 "concrete evaluation of the index expressions",
                 "Decides for every instantiation: merge takes the left element on ties and insertion shifts only on strictly greater "
                 "(stability), run/merge bounds are clipped to n, tail copies have the lengths of the cursors they copy from, the result ends "
                 "in the caller's array for both pass parities, comparators are antisymmetric. That the output is a sorted permutation "
                 "(algorithmic correctness) is not decided.", "Trusts clang's AST (macro-expanded).", "DESIGN.md 4/C22")
CLAIMS["C50"] = ("other", "shape rule on the geom producer, null-discipline and acquire/release typestate over all call sites, who-writes rules "
                 "over all engine TUs",
                 "Decides: acquireGeom returns NULL exactly under ngeom >= maxgeom and sets the status there; all 40 call sites test the "
                 "result before use and never use it on the NULL branch; releases only of held pointers, at most once; scn->ngeom is written "
                 "only by the validated release increment and resets; no store through scn->geoms outside a produced slot; light slots are "
                 "bounded by the array extent. That the scene holds the right geoms with the simulated pose is not decided.",
                 "Trusts clang's AST; plugin visualize callbacks are outside src/engine.", "DESIGN.md 4/C50")
CLAIMS["C28"] = ("other", "table agreement (compiler stage table from the C++ AST vs engine switches vs size table), slice-custody who-writes rule, "
                 "cutoff post-dominance and lazy-ensure dominance per case",
                 "Decides for every mjtSensor enumerator: compiler stage == engine stage function holding its case, sensorSize has a case; "
                 "compute functions write only through their slice parameter and every call site passes the slice of the same sensor index; "
                 "literal element counts per case equal the size table; apply_cutoff follows every compute on all paths (incl. plugin "
                 "sensors); every case reading lazily computed fields is dominated by its ensure-test. The measured quantities themselves "
                 "are not decided.", "Trusts clang's AST.", "DESIGN.md 4/C28")
CLAIMS["C18"] = ("other", "must-call/result-used rules on the flattened position stage (cross-TU), who-writes ownership of tree_asleep, sibling "
                 "agreement of filtered/unfiltered integration arms, re-evaluation path rule",
                 "Decides: every exported wake hook is called unguarded in the position stage and its result guards mj_updateSleep; "
                 "d->tree_asleep is written only by the sleep module and the reset path; in mj_advance the filtered arm writes through the "
                 "awake index lists and both arms write the same fields; when mj_sleep puts trees to sleep the re-evaluation and "
                 "mj_updateSleep run before velocities are integrated. Cycle encoding and the wake conditions are not decided.",
                 "Trusts clang's AST.", "DESIGN.md 4/C18")
CLAIMS["C27"] = ("other", "must-pass path rules in mj_fwdActuation (ctrl copy/clamp, force and joint clamps, disabled-group skip) and index-dimension "
                 "provenance over 187 index sites",
                 "Decides: d->ctrl is read only into the local copy, which is clamped (under !CLAMPCTRL-disabled) and bad-value-scanned "
                 "before any use; forcerange clamp precedes the moment product, joint actfrcrange clamp precedes return; every write of an "
                 "actuator force happens where the actuator is known enabled (or preserves zero); every index into nu/nout/na arrays comes "
                 "from the matching address array. Gain/bias formulas are not decided.", "Trusts clang's AST and X-macro dimensions.",
                 "DESIGN.md 4/C27")
CLAIMS["C25"] = ("other", "save/restore typestate on all paths of the FD routines (dirty components from engine mod sets), sibling-enumerator and "
                 "sibling-guard rules between forward actuation and its analytic derivative",
                 "Decides: every state component a finite-difference routine perturbs (incl. what a stepping call dirties) is restored on "
                 "all paths before the next perturbation and before exit; every gain/bias enumerator whose forward computation depends on "
                 "actuator velocity is handled by mjd_actuator_vel, and the derivative uses the control under the same clamp guard as the "
                 "forward pass. Numerical agreement with finite differences is not decided.", "Trusts clang's AST.", "DESIGN.md 4/C25")
CLAIMS["C21"] = ("other", "who-may-call rule over the ASTs of 37 C and 24 C++ translation units plus header probe; all-paths rule on mju_malloc",
                 "Decides: raw heap allocators are referenced only inside the hookable choke point (mju_malloc's static helper); every path "
                 "of mju_malloc that would return NULL for a positive size goes through mju_error first (user-hook and default paths). "
                 "Leaks/double frees under fault sequences and C++ `new` are not decided; call sites rely on the allocator's contract "
                 "(assumption).", "Trusts clang's AST; the _WIN32 branch is not in this host's AST.", "DESIGN.md 4/C21")

NOT_APPLICABLE = {
    "C06": "numerical identities of M, LTDL and RNE over real-valued runtime data; no clause is visible in code shape",
    "C07": "'J equals the derivative of position' and proper-rotation claims are numerical; joint-type exhaustiveness is decided under C05",
    "C08": "conservation/drift order are limits of numerical trajectories",
    "C10": "optimality/agreement of iterative solvers is a statement about converged floating-point values",
    "C11": "cone/box membership of solver output depends on the numerical path of projection and line search",
    "C12": "force = -grad cost and C1 continuity are analytic facts about expressions (symbolic algebra, excluded from this family)",
    "C13": "signed distances, normals and frames are geometric values; margin tests are value-dependent",
    "C15": "GJK/EPA correctness and swap symmetry are numerical/geometric",
    "C17": "maximality of components and inverse permutations depend on runtime graphs; allocation discipline is decided under C20",
    "C23": "factor/solve identities and sparse==dense equalities are numerical over all sizes and patterns",
    "C24": "group identities and derivative agreement are numerical",
    "C29": "force laws are value-level",
    "C32": "round-trip equality over all models; the attribute-coverage proxy is dominated by legitimate lowerings (brittle)",
    "C33": "run-to-run/schedule equality; the iteration-order lint's commutativity side condition cannot be made exact",
    "C35": "volumes, parallel-axis sums and principal axes are numerical",
    "C36": "trajectory equivalence across rewritings quantifies over models and runs",
    "C45": "gradient finiteness/agreement is numerical; the unsafe-primitive lint cannot classify differentiability context exactly",
}

PENDING_REASON = "not claimed yet: static checker under construction (see DESIGN.md section 0 for the planned structural clauses)"



# ---- clauses added after the seed waves (appended to the texts above; see DESIGN.md 9.3 / 9.4)
_ADDED = {
    "C34": "Added: R-REPEAT: the compiler's repeated-name check (found by role) is not skipped on a data-dependent condition.",
    "C44": "Added: R-STATIC-HASH also demands that the digest wrapper is built on every flatten (no per-instance memo).",
    "C31": "Added: Also IO-NOREWRITE: in the canonical loader only bufread stores into the by-value blocks it has read.",
    "C30": "Added: Also R-WAKE-NAN: the predicate mj_wake applies to a sleeping tree treats a NaN velocity as a change (finite evaluation).",
    "C27": "Added: R-INDEXDIM also covers the transmission stage (engine_core_smooth.c) and the length-range computation (engine_setconst.c): row provenance incl. nactuator-dimensioned arrays, parameters range-checked against nactuator as actuator ids, and the column stride of multi-column arrays.",
    "C04": "Added: R-MODSET also counts a non-const local pointer into a state array that is stored through or handed to a non-const parameter."
           " Also R-STAGE-INPUT: nothing in the closure of the position / velocity stages reads d->ctrl.",
    "C01": "Added: the warm/cold-start routine (found by role) writes qacc and efc_force on every path (R-ITERATE-INIT)."
           " Also R-CONTACT-INIT: every member of mjContact is written in the translation unit that creates contacts (uninitialised storage); R-SENSOR-WRITTEN: the sensor stage's compute-or-read routine writes its output on every path.",
    "C09": "Added: R-FRESH on the inverse pipeline (no stage reads a derived field whose producer is more conditional) and "
           "R-ISLAND-COPY (a function that refreshes an island-ordered copy nothing inside it consumes refreshes it on every path "
           "after each write to either side, nisland == 0 excepted).",
    "C18": "Added: R-WAKE-PRUNE (no collision pair with an awake side is discarded by a sleep test; finite evaluation of the "
           "pruning guards). Also R-RUNTIME-STATE: no function of engine_sleep.c reads a mjModel field X0 whose run-time copy d->X "
           "exists in mjData (wake / sleep decisions are taken on run-time state such as d->eq_active).",
    "C20": "Added: R-CLEAR-COUNTS for every function that zeroes nefc (the counters ne/nf/nl and the contact efc_address values "
           "are cleared with it)."
           " Also: the arena size test cannot wrap (every unsigned subtraction in it is non-negative under pstack + parena <= narena) and R-ARENA-STALE (what a rewind of d->parena releases is cleared with it; shared with C01).",
    "C21": "Added: R-FREE-NULL (a freed model/data pointer member is nulled or overwritten before the next free of it on all "
           "paths) and R-PUBLISH-INIT (an object is published to its owner only after every member its destructor reads is "
           "initialised)."
           " Also R-ALLOC-GUARD: a block from mju_malloc reaches the function's Cleanup scope guard before any return not under its own null test.",
    "C22": "Added: R-SEMANTIC — abstract interpretation of the generated functions over every weak ordering of <= 4 (sort) / <= 5 "
           "(partial sort, all k) abstract elements and of the merge region on every pair of sorted runs of length <= 3: stable "
           "sorted output / k smallest in order / stable merge; shape-independent (fast paths, sift-down bounds, heap construction)."
           " The merge pass is found by role; layout-bound clauses are skipped (recorded in the evidence) when a layout is not recognised and the semantic rule holds.",
    "C25": "Added: R-FD-ORDER (the operand order of the forward / backward / centred difference branches is one acyclic 'comes "
           "before' relation) and R-SKIPFACTOR (a factorisation is reused across perturbations only below the stage whose inputs "
           "the not-reused code reads)."
           " Also R-ZERO-SKIP: a qDeriv accumulation skipped on `X == 0` vanishes with X (re-evaluation of the defining statements with X forced to 0 at generic inputs).",
    "C26": "Added: mj_setState / mj_copyState write nothing of the destination mjData outside the element loop (what is written there "
           "is written whatever the signature selects).",
    "C28": "Added: the cutoff clamp is applied per sensor datatype exactly where the stored element is read back (R-CUTOFF "
           "datatype clause).",
    "C37": "Added: R-ATTR-BOUND (every ReadAttr destination extent admits the maximum length passed, before the size check) and "
           "R-FORMAT (no run-time string reaches a printf-style format position of the error constructors)."
           " Also R-FORMAT argument agreement (a %s format has a string argument) and R-INPUT-BOUND / R-INPUT-BOUND-CALL (stores indexed by input-driven counters are bounded by a guard or by the uniqueness argument; call-site buffers cover the bound).",
    "C38": "Added: protected aliases — a pointer / iterator / reference into a guarded member is valid only inside the lock region "
           "it was obtained in; uses after it and escapes by return / store are reported (one known finding: HasAsset).",
    "C39": "Added: R-DERIVED (a member filled from table lookups and read back is a cache: every table mutator invalidates it) and "
           "R-DELEXACT (delete erases under another key only where the exact name is known absent; 0 is returned exactly on "
           "paths that erased an entry).",
    "C41": "Added: R-EXPAND-TOTAL (the group expansion that the duplicate-attribute rule runs on makes no decision by a membership "
           "test against a container it grows itself, unless a hit raises: a visited set would hide the second copy of an attribute "
           "reached along two use paths).",
    "C42": "Added: R-MEMBER-SCAN (a scan of element members filtered to Attr handles Use / ranges over all declarations)."
           " Also R-MODULE-STATE: no generator function keeps state in module-level mutable objects unless the memo key determines the cached value."
           " Also R-PROJECT-AGREE: the default-context projections of the generators (filters over the expansion that consult the nodefault facet) are one predicate on attributes, decided by evaluating each over a finite abstract domain of attributes.",
    "C43": "Added: R-XLANG-FEED (every data-flow feed between mirrored primitives in an MJX integrator has the same call order in "
           "the C integrator; fields the C driver produces by a primitive depend on the mirrored primitive in MJX) and "
           "R-XLANG-COVER (the ball-limit Jacobian axis depends on the quaternion's scalar part other than through the activity "
           "gate, on both sides).",
    "C47": "Added: R-APPLY (spec fields receive mass, first moment / mass, and the parallel-axis-corrected inertia in MuJoCo's "
           "order; compiler.inertiafromgeom is left at a value under which the explicit inertial wins — derived from the C++ "
           "compiler's own condition; a saved caller value written back in a try/finally counts as 'any value') and R-BOUNDS (bound rows ordered per slot group).",
    "C50": "Added: R-CAPACITY (a decision on the scene capacity outside the slot producer has an arm that reports) and "
           "R-INDEX-BOUND (interval analysis of every subscript of mjvOption's fixed-extent flag arrays: 113 sites inside "
           "[0, extent-1], through clamp macros, helpers, early returns, loops and decayed passes)."
           " Also R-STATUS-INPUT: no decision outside the slot producer depends on scn->status.",
    "C51": "Added: R-TABLE as abstract interpretation of activation-slot indices (linear forms over actadr/actnum for 64 option x "
           "dyntype combinations; every state slot and the setpoint slot lie where the engine's own layout puts them) and "
           "R-BOUNDS-AGREE (the two curvature operands of the cable have the same exact norm bound)."
           " Also R-STATELESS: the force-producing callbacks read a member they write only after a write of the same element in the same call.",
}
for _pid, _txt in _ADDED.items():
    _c = CLAIMS[_pid]
    CLAIMS[_pid] = (_c[0], _c[1], _c[2] + " " + _txt, _c[3], _c[4])


def build():
    props = [json.loads(l) for l in open(os.path.join(VERIF, "properties.jsonl"))]
    checks = []
    na = []
    for p in props:
        pid = p["id"]
        if pid in CLAIMS:
            cat, tech, text, note, ref = CLAIMS[pid]
            checks.append({
                "property_id": pid,
                "quick_cmd": f"python3-vt -m sa.check {pid} --tier quick",
                "thorough_cmd": f"python3-vt -m sa.check {pid} --tier thorough",
                "evidence_file": f"/verif/evidence/{pid}.json",
                "replay_cmd_template": f"python3-vt -m sa.check {pid} --replay {{path}}",
                "engine": "sa",
                "level_claimed": {"category": cat, "text": text, "design_ref": ref},
                "level_note": note,
                "technique": "static analysis: " + tech,
            })
        else:
            na.append({"property_id": pid, "reason": NOT_APPLICABLE.get(pid, PENDING_REASON)})
    man = {
        "version": 1,
        "setup_cmd": "python3-vt -m sa.setup",
        "hooks": {
            "guard": "GOOGLE_DEEPMIND_MUJOCO_VERIF",
            "enable": "no source hooks: nothing in /repo is executed by any check (static analysis of the working tree)",
            "baseline_off_cmd": BASELINE,
            "source_commits": [],
            "add_only": True,
        },
        "engines": [{
            "name": "sa",
            "path": "/verif/sa",
            "serves_properties": sorted(CLAIMS),
            "kind_free_text": "repository-specific static analysers: clang JSON AST -> pruned IR -> path/typestate, table, "
                              "sibling-agreement and ownership rules; Python ast-based rules",
        }],
        "checks": checks,
        "not_applicable": na,
        "notes": "All checks are static (no code of /repo is run). Exit 2 + ANALYSIS-ERROR means the analyser could not "
                 "decide (vanished anchor, unparsable TU, instance count below the confirmed floor). Known findings: "
                 "/verif/known_findings.json.",
    }
    return man


if __name__ == "__main__":
    with open(os.path.join(VERIF, "MANIFEST.json"), "w") as f:
        json.dump(build(), f, indent=1)
    print("MANIFEST.json written")
