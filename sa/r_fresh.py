"""R-FRESH: in a flattened pipeline, a stage that reads a derived mjData field is not more conditional than its producer.

For every call event E of the sequence and every mjData field f read in E's call-graph closure (and not written by that
closure itself): if earlier events of the sequence write f, at least one of them must run under guards that are a subset
of E's guards.  Otherwise there is an option combination in which E consumes f as left by an earlier call (stale data), e.g.
a factorisation that is only refreshed under an unrelated enable flag.  Flow-insensitive and therefore partial: it cannot
see staleness inside one function.
"""
from __future__ import annotations

from . import callgraph

_SUM = {}


def summary(g, key):
    if key in _SUM:
        return _SUM[key]
    R, W = set(), set()
    for k in g.closure([key]):
        for e in g.funcs[k]["events"]:
            if e["struct"] != "mjData":
                continue
            if e["kind"] == "read":
                R.add(e["field"])
            elif e["kind"] in ("assign", "elem", "pass", "addr"):
                W.add(e["field"])
    _SUM[key] = (R, W)
    return R, W


def check(res, rule, pname, evs, file, ignore=("timer", "warning", "pstack", "pbase", "maxuse_stack", "maxuse_arena", "parena")):
    g = callgraph.build(reads=True)
    seq = [e for e in evs if e[0] == "call"]
    summ = {}
    for e in seq:
        k = g.find(e[1]) if e[1] else None
        if k is not None:
            summ[e[1]] = summary(g, k)
    n = 0
    for i, e in enumerate(seq):
        if e[1] not in summ:
            continue
        R, W = summ[e[1]]
        bad = []
        for f in sorted(R - W):
            if f in ignore:
                continue
            prods = [p for p in seq[:i] if p[1] in summ and f in summ[p[1]][1]]
            if not prods:
                continue
            n += 1
            if not any(set(p[-1]) <= set(e[-1]) for p in prods):
                bad.append((f, prods[-1]))
        if bad:
            f, p = bad[0]
            from .pipeline import fmt
            res.bad(rule, f"{pname}:{e[1]}:{f}", file, 0,
                    f"in {pname}, `{fmt(e)}` reads d->{f} ({', '.join(b[0] for b in bad[:4])}) but its producer in this pipeline runs only "
                    f"under other conditions (`{fmt(p)}`): with those conditions false the value of an earlier call is consumed")
        else:
            res.ok(rule, f"{pname}:{e[1]}", None)
    return n
