"""Struct layouts and enum constants of the public + engine headers, from clang's AST."""
from __future__ import annotations

import os

from . import cfront, cir
from .cfront import REPO, AnalysisError

_PROBE = """\
#include <mujoco/mujoco.h>
#include <mujoco/mjxmacro.h>
#include "engine/engine_memory.h"
"""
_CACHE = {}


def _probe_path():
    os.makedirs(cfront.CACHE, exist_ok=True)
    p = os.path.join(cfront.CACHE, "probe_types.c")
    if not os.path.exists(p) or open(p).read() != _PROBE:
        with open(p, "w") as f:
            f.write(_PROBE)
    return p


def load(repo=REPO):
    if repo in _CACHE:
        return _CACHE[repo]
    ir = cfront.load_tu(_probe_path(), repo, lang="c", types=True)
    enums, records, typedefs, protos = {}, {}, {}, {}
    enum_of = {}

    def visit(d):
        k = d.get("k")
        if k == "EnumDecl":
            vals = []
            nxt = 0
            for c in cir.kids(d):
                if c is None or c.get("k") != "EnumConstantDecl":
                    continue
                v = None
                for x in cir.walk(c):
                    if x.get("k") == "ConstantExpr" and x.get("v") is not None:
                        v = int(x["v"])
                        break
                if v is None:
                    init = [y for y in cir.kids(c) if y is not None]
                    if init:
                        v = const_eval(init[0], enum_of)
                if v is None:
                    v = nxt
                nxt = v + 1
                vals.append((c.get("n"), v))
                enum_of[c.get("n")] = v
            name = d.get("n") or f"<anon@{d.get('line')}>"
            enums[name] = {"values": vals, "file": d.get("file"), "line": d.get("line")}
        elif k == "RecordDecl":
            if d.get("completeDefinition"):
                fields = []
                for c in cir.kids(d):
                    if c is not None and c.get("k") == "FieldDecl":
                        fields.append({"name": c.get("n"), "type": c.get("t"), "dtype": c.get("dt") or c.get("t"),
                                       "line": c.get("line")})
                    elif c is not None and c.get("k") == "RecordDecl":
                        visit(c)
                name = d.get("n") or f"<anon@{d.get('file')}:{d.get('line')}>"
                records[name] = {"fields": fields, "file": d.get("file"), "line": d.get("line"), "id": d.get("id")}
        elif k == "TypedefDecl":
            typedefs[d.get("n")] = d.get("t")
        elif k == "FunctionDecl":
            protos.setdefault(d.get("n"), d)
        elif k in ("LinkageSpecDecl",):
            for c in cir.kids(d):
                if c is not None:
                    visit(c)

    for d in ir["decls"]:
        visit(d)
    if "mjData_" not in records or "mjModel_" not in records:
        raise AnalysisError("struct mjData_/mjModel_ not found in the header probe")
    info = {"enums": enums, "records": records, "typedefs": typedefs, "protos": protos, "enumerators": enum_of}
    _CACHE[repo] = info
    return info


def const_eval(n, env):
    n = cir.strip(n)
    if n is None:
        return None
    k = n.get("k")
    if k == "IntegerLiteral":
        try:
            return int(str(n.get("v")), 0)
        except ValueError:
            return None
    if k == "DeclRefExpr":
        return env.get((n.get("ref") or {}).get("n"))
    if k == "UnaryOperator":
        v = const_eval(cir.kids(n)[0], env)
        if v is None:
            return None
        return {"-": -v, "+": v, "~": ~v, "!": int(not v)}.get(n.get("op"))
    if k == "BinaryOperator":
        a = const_eval(cir.kids(n)[0], env)
        b = const_eval(cir.kids(n)[1], env)
        if a is None or b is None:
            return None
        op = n.get("op")
        try:
            return {"+": a + b, "-": a - b, "*": a * b, "<<": a << b, ">>": a >> b, "|": a | b, "&": a & b,
                    "^": a ^ b, "/": a // b if b else None, "%": a % b if b else None}.get(op)
        except Exception:
            return None
    return None


def enum_values(name, repo=REPO):
    e = load(repo)["enums"].get(name)
    if e is None:
        raise AnalysisError(f"enum {name} not found in headers")
    return e["values"]


def fields(struct, repo=REPO):
    r = load(repo)["records"].get(struct)
    if r is None:
        raise AnalysisError(f"struct {struct} not found in headers")
    return r["fields"]
