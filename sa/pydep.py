"""Explicit data-dependence interpreter for functional (JAX style) Python — `ast` only, nothing is imported or run.

Used by sa/props/c43.py (R-XLANG-FEED).  It answers one kind of question: *which anchors' results may flow, by explicit data
flow, into which anchors' inputs / into which field of a returned record*, for a small set of entry functions of a package
of modules parsed with `ast`.

Abstract values (immutable):
  D(tags, mask)   array / scalar data depending on the set `tags`; mask=True: boolean valued (result of a comparison)
  T(items)        tuple / list of known length
  R(base, fields) record (dataclass instance): `x.replace(f=v)` overrides field f, other fields project `base`
  V(head, tail)   vector whose element 0 depends on `head` and whose other elements depend on `tail`
  K(kind, v)      constant: none / bool / int / float / str / enum member (class, member) / identity decorator
  DV(items)       dict display with constant keys
  F, P, FS        closure (def / lambda with its defining frame), functools.partial, set of alternatives
  M, X, C         module of the package, external (opaque) object by dotted name, class
Tags are tuples: ("in", param, attr...) for entry parameters and (name,) for the result of an anchor.

Calls: functions of the modules listed in `enter` (and every nested def / lambda) are evaluated with the actual arguments
(no summaries); *anchors* are not entered: the call is recorded as an event (inputs with their dependences, call stack) and
returns D({tag}).  Any other callee is opaque: its result depends on all its arguments, and every function-valued argument
is applied to values that depend on the other arguments and on its own results (sound for scan / vmap / tree_map style
combinators); `jax.lax.scan` and `tree_map` over tuples keep their structure.  Conditions on constants (None tests, enum
members of a specialised entry parameter, dict dispatch tables) are decided, every other `if` runs both branches; loops
run to a fixed point.  Only explicit data flow is followed (no control dependence): under jit a Python `if` cannot test
traced data, and `where` / `cond` / `select` are calls whose arguments all count.

With drop_masks=True the dependences of a 0/1 factor are kept apart (D.gate): `x * (a < b)` and `where(c, x, 0)` have the
tags of x and the gate {a, b} / {c}; products and unary minus keep the gate, every other operation folds it back into the
tags (`1 - 2 * (w < 0)` depends on w).  `ungated(v)` is what the direction of v depends on: a 0/1 factor scales a vector,
it cannot turn it.  Masks that are not recognised stay ordinary dependences.

Limits: a function value that is merged with data (stored in an array, joined with a number) is lost and never applied;
attribute stores and container mutation are weak updates of the root variable; `break` / `continue` fall through.

Unsupported syntax (match, async, yield, global stores) is an AnalysisError naming file:line.
"""
from __future__ import annotations

import ast
from dataclasses import dataclass

from .cfront import AnalysisError

E = frozenset()


@dataclass(frozen=True)
class D:
    tags: frozenset = E
    mask: bool = False
    gate: frozenset = E        # dependences of a 0/1 factor of the value (drop_masks only); part of flatten()


@dataclass(frozen=True)
class T:
    items: tuple = ()


@dataclass(frozen=True)
class R:
    base: object = D()
    fields: tuple = ()          # sorted ((name, Val), ...)

    def get(self, name):
        for k, v in self.fields:
            if k == name:
                return v
        return None

    def put(self, **kw):
        d = dict(self.fields)
        d.update(kw)
        return R(self.base, tuple(sorted(d.items())))


@dataclass(frozen=True)
class V:
    head: frozenset = E
    tail: frozenset = E


@dataclass(frozen=True)
class K:
    kind: str = "none"
    v: object = None


@dataclass(frozen=True)
class DV:
    items: tuple = ()           # ((K key, Val), ...)


@dataclass(frozen=True, eq=False)
class F:
    node: object
    frame: object
    mod: str
    name: str
    owner: str                  # top-level function lexically containing the definition
    defaults: tuple = ()
    kwdefaults: tuple = ()


@dataclass(frozen=True)
class P:
    fn: object
    args: tuple = ()
    kwargs: tuple = ()


@dataclass(frozen=True)
class FS:
    alts: frozenset = E


@dataclass(frozen=True)
class M:
    name: str


@dataclass(frozen=True)
class X:
    name: str


@dataclass(frozen=True)
class C:
    mod: str
    name: str


NONE = K("none", None)
TRUE = K("bool", True)
FALSE = K("bool", False)
IDENT = K("identity", None)
ZERO = K("float", 0.0)
CALLABLE = (F, P, FS)

TRANSPARENT_HOF = {"jax.vmap", "jax.jit", "jax.pmap", "jax.checkpoint", "jax.remat", "jax.named_call", "jax.custom_jvp",
                   "jax.custom_vjp"}
SCAN = {"jax.lax.scan"}
LOOPING = {"jax.lax.fori_loop", "jax.lax.while_loop", "jax.lax.scan", "jax.lax.associative_scan", "jax.lax.map"}
TREE_MAP = {"jax.tree_util.tree_map", "jax.tree.map", "jax.tree_map"}
WHERE = {"jax.numpy.where", "numpy.where", "jax.numpy.select_n", "jax.lax.select"}
ZEROS = {"jax.numpy.zeros", "jax.numpy.zeros_like", "numpy.zeros", "numpy.zeros_like"}
APPLYING_BUILTINS = {"builtins.map", "builtins.filter", "builtins.sorted", "builtins.min", "builtins.max"}
MUTATORS = {"append", "extend", "insert", "update", "add", "setdefault"}


class Frame:
    def __init__(self, parent, mod, fn=None):
        self.vars = {}
        self.parent = parent
        self.mod = mod
        self.fn = fn
        self.ret = None


def flatten(v):
    if v is None:
        return E
    if isinstance(v, D):
        return v.tags | v.gate if v.gate else v.tags
    if isinstance(v, T):
        out = E
        for x in v.items:
            out |= flatten(x)
        return out
    if isinstance(v, R):
        out = flatten(v.base)
        for _, x in v.fields:
            out |= flatten(x)
        return out
    if isinstance(v, V):
        return v.head | v.tail
    if isinstance(v, DV):
        out = E
        for k, x in v.items:
            out |= flatten(x)
        return out
    if isinstance(v, P):
        out = E
        for x in v.args:
            out |= flatten(x)
        for _, x in v.kwargs:
            out |= flatten(x)
        return out
    return E


def refine(tag, attr):
    if tag and tag[0] == "in" and len(tag) < 4:
        return tag + (attr,)
    return tag


def project(v, attr):
    if isinstance(v, R):
        f = v.get(attr)
        return f if f is not None else project(v.base, attr)
    if isinstance(v, D):
        return D(frozenset(refine(t, attr) for t in flatten(v)))
    return D(flatten(v))


def ungated(v):
    """Dependences of a value other than through a 0/1 factor (what its direction depends on)."""
    if isinstance(v, D):
        return v.tags
    if isinstance(v, T):
        out = E
        for x in v.items:
            out |= ungated(x)
        return out
    return flatten(v)


def join(a, b):
    if a is None:
        return b
    if b is None:
        return a
    if a == b:
        return a
    if isinstance(a, D) and isinstance(b, D):
        return D(a.tags | b.tags, a.mask and b.mask, a.gate | b.gate)
    if isinstance(a, T) and isinstance(b, T) and len(a.items) == len(b.items):
        return T(tuple(join(x, y) for x, y in zip(a.items, b.items)))
    if isinstance(a, R) and isinstance(b, R):
        names = sorted({k for k, _ in a.fields} | {k for k, _ in b.fields})
        return R(join(a.base, b.base), tuple((n, join(project(a, n), project(b, n))) for n in names))
    if isinstance(a, R) and isinstance(b, (D, K)):
        a, b = b, a
    if isinstance(a, (D, K)) and isinstance(b, R):
        if isinstance(a, K):
            a = D()
        return R(join(a, b.base), tuple((n, join(project(a, n), x)) for n, x in b.fields))
    if isinstance(a, V) and isinstance(b, V):
        return V(a.head | b.head, a.tail | b.tail)
    fa, fb = isinstance(a, CALLABLE + (C, X)), isinstance(b, CALLABLE + (C, X))
    if fa or fb:
        if (fa or isinstance(a, K)) and (fb or isinstance(b, K)):
            alts = set()
            for x in (a, b):
                alts |= set(x.alts) if isinstance(x, FS) else {x}
            return FS(frozenset(alts))
    if isinstance(a, DV) and isinstance(b, DV) and [k for k, _ in a.items] == [k for k, _ in b.items]:
        return DV(tuple((k, join(x, y)) for (k, x), (_, y) in zip(a.items, b.items)))
    if isinstance(a, K) and isinstance(b, K):
        return D()
    return D(flatten(a) | flatten(b))


def elem_of(v):
    if isinstance(v, T):
        out = None
        for x in v.items:
            out = join(out, x)
        return out if out is not None else D()
    if isinstance(v, D):
        return D(flatten(v))
    return D(flatten(v))


def truth(v):
    if isinstance(v, K):
        if v.kind == "none":
            return False
        if v.kind in ("bool", "int", "float"):
            return bool(v.v)
        if v.kind == "str":
            return bool(v.v)
        return True
    if isinstance(v, (F, P, C, M, X, R)):
        return True
    if isinstance(v, T):
        return len(v.items) > 0
    return None


def not_none(v):
    """True if v is definitely not None, False if definitely None, None if unknown."""
    if isinstance(v, K):
        return v.kind != "none"
    if isinstance(v, (F, P, C, M, X, R, T, DV, V)):
        return True
    if isinstance(v, FS):
        kinds = {isinstance(x, K) and x.kind == "none" for x in v.alts}
        if kinds == {False}:
            return True
        if kinds == {True}:
            return False
    return None


class Interp:
    def __init__(self, modules, enter, anchors, pkg_prefixes=("mujoco.mjx._src",), drop_masks=False, subscript_hook=None,
                 watch_enum=None, label="", external_hook=None):
        """modules: {module name: ast.Module}; enter: module names whose functions are evaluated; anchors:
        {(module, function): tag}; watch_enum: enum class whose members must never reach an undecided test / opaque call."""
        self.modules = modules
        self.enter = set(enter)
        self.anchors = dict(anchors)
        self.pkg = tuple(pkg_prefixes)
        self.drop_masks = drop_masks
        self.subscript_hook = subscript_hook
        self.external_hook = external_hook
        self.watch_enum = watch_enum
        self.label = label
        self.mframes = {}
        self.events = []
        self.stack = []             # [(F, call node)]
        self.decorators = set()     # top-level functions applied as decorators (their frames are not owners)
        self.undecided = []         # (module, line) of tests on the watched enum that could not be decided
        self.opaque_modules = set()
        self._classes = {}
        self._resolving = set()
        self.steps = 0
        self.weak = 0
        self.entered = []           # (caller owner, module, function) for every evaluated top-level function

    # ------------------------------------------------------------------ errors
    def err(self, mod, node, msg):
        raise AnalysisError(f"{self.label}{mod}.py:{getattr(node, 'lineno', '?')}: pydep: {msg}")

    # ------------------------------------------------------------------ modules
    def mframe(self, mod):
        fr = self.mframes.get(mod)
        if fr is not None:
            return fr
        tree = self.modules.get(mod)
        if tree is None:
            raise AnalysisError(f"{self.label}pydep: no module {mod}")
        fr = Frame(None, mod)
        self.mframes[mod] = fr
        lazy = fr.lazy = {}
        for st in tree.body:
            if isinstance(st, (ast.FunctionDef,)):
                lazy[st.name] = ("def", st)
            elif isinstance(st, ast.ClassDef):
                lazy[st.name] = ("class", st)
                self._classes[(mod, st.name)] = st
            elif isinstance(st, (ast.Import, ast.ImportFrom)):
                self.do_import(st, fr)
            elif isinstance(st, ast.Assign) and len(st.targets) == 1 and isinstance(st.targets[0], ast.Name):
                lazy[st.targets[0].id] = ("expr", st.value)
            elif isinstance(st, ast.AnnAssign) and isinstance(st.target, ast.Name) and st.value is not None:
                lazy[st.target.id] = ("expr", st.value)
        return fr

    def do_import(self, st, fr):
        if isinstance(st, ast.Import):
            for a in st.names:
                if a.asname:
                    fr.vars[a.asname] = self.module_object(a.name)
                else:
                    fr.vars[a.name.split(".")[0]] = X(a.name.split(".")[0])
            return
        base = st.module or ""
        for a in st.names:
            tgt = a.asname or a.name
            full = f"{base}.{a.name}" if base else a.name
            mo = self.module_object(full)
            if isinstance(mo, M):
                fr.vars[tgt] = mo
                continue
            bm = self.module_object(base)
            if isinstance(bm, M):
                fr.vars[tgt] = ("from", bm.name, a.name)
            else:
                fr.vars[tgt] = X(full)

    def module_object(self, dotted):
        for p in self.pkg:
            if dotted.startswith(p + "."):
                rest = dotted[len(p) + 1:]
                if rest in self.modules:
                    return M(rest)
        return X(dotted)

    def mlookup(self, mod, name):
        fr = self.mframe(mod)
        if name in fr.vars:
            v = fr.vars[name]
            if isinstance(v, tuple) and v and v[0] == "from":
                v = self.mlookup(v[1], v[2])
                if v is None:
                    v = X(f"?.{name}")
                fr.vars[name] = v
            return v
        item = fr.lazy.get(name)
        if item is None:
            return None
        key = (mod, name)
        if key in self._resolving:
            return D()
        self._resolving.add(key)
        try:
            kind, node = item
            if kind == "def":
                v = self.make_def(node, fr, mod, name)
            elif kind == "class":
                v = C(mod, name)
            else:
                v = self.ev(node, fr)
            fr.vars[name] = v
            return v
        finally:
            self._resolving.discard(key)

    def make_def(self, node, fr, mod, owner):
        a = node.args
        defaults = tuple(self.ev(x, fr) for x in a.defaults)
        kwdefaults = tuple(None if x is None else self.ev(x, fr) for x in a.kw_defaults)
        v = F(node, fr, mod, node.name, owner, defaults, kwdefaults)
        for dec in reversed(node.decorator_list):
            dv = self.ev(dec, fr)
            if isinstance(dv, F) and dv.frame.parent is None:
                self.decorators.add((dv.mod, dv.name))
            v = self.call(dv, [v], {}, dec, fr)
        return v

    def is_enum(self, c):
        node = self._classes.get((c.mod, c.name))
        if node is None:
            self.mframe(c.mod)
            node = self._classes.get((c.mod, c.name))
        if node is None:
            return False
        for b in node.bases:
            x = b
            while isinstance(x, ast.Attribute):
                x = x.value
            if isinstance(x, ast.Name) and x.id == "enum":
                return True
        return False

    def class_fields(self, c):
        node = self._classes.get((c.mod, c.name))
        if node is None:
            return None
        return [st.target.id for st in node.body if isinstance(st, ast.AnnAssign) and isinstance(st.target, ast.Name)]

    # ------------------------------------------------------------------ names
    def lookup(self, name, fr):
        f = fr
        while f is not None:
            if f.parent is None:
                v = self.mlookup(f.mod, name)
                if v is not None:
                    return v
                break
            if name in f.vars:
                return f.vars[name]
            f = f.parent
        return X(f"builtins.{name}")

    def store(self, tgt, val, fr):
        if isinstance(tgt, ast.Name):
            fr.vars[tgt.id] = val
        elif isinstance(tgt, (ast.Tuple, ast.List)):
            n = len(tgt.elts)
            star = [i for i, e in enumerate(tgt.elts) if isinstance(e, ast.Starred)]
            if isinstance(val, T) and not star and len(val.items) == n:
                for e, x in zip(tgt.elts, val.items):
                    self.store(e, x, fr)
            elif isinstance(val, T) and len(star) == 1 and len(val.items) >= n - 1:
                i = star[0]
                k = len(val.items) - (n - 1)
                for e, x in zip(tgt.elts[:i], val.items[:i]):
                    self.store(e, x, fr)
                self.store(tgt.elts[i].value, T(tuple(val.items[i:i + k])), fr)
                for e, x in zip(tgt.elts[i + 1:], val.items[i + k:]):
                    self.store(e, x, fr)
            else:
                each = elem_of(val)
                for e in tgt.elts:
                    self.store(e.value if isinstance(e, ast.Starred) else e, each, fr)
        elif isinstance(tgt, ast.Subscript):
            root = tgt.value
            idx = self.ev_index(tgt.slice, fr)
            cur = self.ev(root, fr)
            if isinstance(cur, T):
                if isinstance(idx, K) and idx.kind == "int" and -len(cur.items) <= idx.v < len(cur.items):
                    items = list(cur.items)
                    items[idx.v] = join(items[idx.v], val)
                    new = T(tuple(items))
                else:
                    new = T(tuple(join(x, val) for x in cur.items))
            elif isinstance(cur, DV) and isinstance(idx, K):
                items = [(k, v) for k, v in cur.items if k != idx] + [(idx, val)]
                new = DV(tuple(items))
            else:
                new = join(cur, D(flatten(val) | flatten(idx)))
            if isinstance(root, (ast.Name, ast.Attribute, ast.Subscript)):
                self.store(root, new, fr)
        elif isinstance(tgt, ast.Attribute):
            cur = self.ev(tgt.value, fr)
            if isinstance(cur, R):
                new = cur.put(**{tgt.attr: join(project(cur, tgt.attr), val)})
            else:
                new = R(cur if isinstance(cur, D) else D(flatten(cur)), ((tgt.attr, val),))
            if isinstance(tgt.value, (ast.Name, ast.Attribute, ast.Subscript)):
                self.store(tgt.value, new, fr)
        elif isinstance(tgt, ast.Starred):
            self.store(tgt.value, val, fr)
        else:
            self.err(fr.mod, tgt, f"unsupported assignment target {type(tgt).__name__}")

    # ------------------------------------------------------------------ statements
    def block(self, stmts, fr):
        """Executes statements; returns False if no path falls through."""
        for st in stmts:
            if not self.stmt(st, fr):
                return False
        return True

    def branches(self, fr, bodies):
        """Runs alternative bodies from the same state; joins the states of those that fall through."""
        start = fr.vars
        outs = []
        for b in bodies:
            fr.vars = dict(start)
            if self.block(b, fr):
                outs.append(fr.vars)
        if not outs:
            fr.vars = start
            return False
        merged = {}
        names = set()
        for o in outs:
            names |= set(o)
        for n in names:
            v = None
            for o in outs:
                v = join(v, o[n]) if n in o else v
            merged[n] = v
        fr.vars = merged
        return True

    def stmt(self, st, fr):
        self.steps += 1
        if self.steps > 400000:
            self.err(fr.mod, st, "evaluation budget exhausted")
        if isinstance(st, ast.Assign):
            v = self.ev(st.value, fr)
            for t in st.targets:
                self.store(t, v, fr)
            return True
        if isinstance(st, ast.AnnAssign):
            if st.value is not None:
                self.store(st.target, self.ev(st.value, fr), fr)
            return True
        if isinstance(st, ast.AugAssign):
            load = ast.copy_location(_as_load(st.target), st.target)
            v = self.binop(st.op, self.ev(load, fr), self.ev(st.value, fr))
            self.store(st.target, v, fr)
            return True
        if isinstance(st, ast.Expr):
            self.ev(st.value, fr)
            return True
        if isinstance(st, ast.Return):
            v = self.ev(st.value, fr) if st.value is not None else NONE
            f = fr
            while f.fn is None and f.parent is not None:
                f = f.parent
            f.ret = join(f.ret, v)
            return False
        if isinstance(st, ast.Raise):
            if st.exc is not None:
                self.ev(st.exc, fr)
            return False
        if isinstance(st, ast.If):
            t = self.test(st.test, fr)
            if t is True:
                return self.block(st.body, fr)
            if t is False:
                return self.block(st.orelse, fr)
            return self.branches(fr, [st.body, st.orelse])
        if isinstance(st, (ast.For, ast.While)):
            if isinstance(st, ast.For):
                it = self.ev(st.iter, fr)
                if isinstance(it, T) and not it.items:
                    return self.block(st.orelse, fr)
            for _ in range(8):
                before = dict(fr.vars)
                if isinstance(st, ast.For):
                    self.store(st.target, elem_of(it), fr)
                else:
                    self.ev(st.test, fr)
                start = fr.vars
                fr.vars = dict(start)
                fell = self.block(st.body, fr)
                after = fr.vars if fell else start
                merged = {}
                for n in set(before) | set(after):
                    merged[n] = join(before.get(n), after.get(n))
                fr.vars = merged
                if merged == before:
                    break
            else:
                self.err(fr.mod, st, "loop does not reach a fixed point")
            self.block(st.orelse, fr)
            return True
        if isinstance(st, ast.FunctionDef):
            owner = fr.fn.owner if fr.fn is not None else st.name
            fr.vars[st.name] = self.make_def(st, fr, fr.mod, owner)
            return True
        if isinstance(st, ast.With):
            for item in st.items:
                v = self.ev(item.context_expr, fr)
                if item.optional_vars is not None:
                    self.store(item.optional_vars, D(flatten(v)), fr)
            return self.block(st.body, fr)
        if isinstance(st, ast.Try):
            ok = self.branches(fr, [list(st.body) + list(st.orelse)] + [list(h.body) for h in st.handlers])
            if st.finalbody:
                return self.block(st.finalbody, fr) and ok
            return ok
        if isinstance(st, ast.Assert):
            self.ev(st.test, fr)
            return True
        if isinstance(st, (ast.Pass, ast.Break, ast.Continue, ast.Delete, ast.Nonlocal)):
            return True
        if isinstance(st, (ast.Import, ast.ImportFrom)):
            tmp = Frame(None, fr.mod)
            self.do_import(st, tmp)
            for k, v in tmp.vars.items():
                if isinstance(v, tuple) and v and v[0] == "from":
                    v = self.mlookup(v[1], v[2]) or X(f"?.{k}")
                fr.vars[k] = v
            return True
        if isinstance(st, ast.ClassDef):
            fr.vars[st.name] = X(f"?.{st.name}")
            return True
        self.err(fr.mod, st, f"unsupported statement {type(st).__name__}")

    # ------------------------------------------------------------------ tests
    def test(self, node, fr):
        v = self.ev(node, fr)
        t = truth(v) if isinstance(v, (K, F, P, C, M, X, T)) else None
        if t is None and self.watch_enum and _mentions_enum(v, self.watch_enum):
            self.undecided.append((fr.mod, getattr(node, "lineno", 0)))
        return t

    # ------------------------------------------------------------------ expressions
    def ev(self, n, fr):
        if n is None:
            return NONE
        m = getattr(self, "ev_" + type(n).__name__, None)
        if m is None:
            self.err(fr.mod, n, f"unsupported expression {type(n).__name__}")
        return m(n, fr)

    def ev_Constant(self, n, fr):
        v = n.value
        if v is None:
            return NONE
        if isinstance(v, bool):
            return K("bool", v)
        if isinstance(v, int):
            return K("int", v)
        if isinstance(v, float):
            return K("float", v)
        if isinstance(v, str):
            return K("str", v)
        return D()

    def ev_Name(self, n, fr):
        return self.lookup(n.id, fr)

    def ev_JoinedStr(self, n, fr):
        for v in n.values:
            if isinstance(v, ast.FormattedValue):
                self.ev(v.value, fr)
        return D()

    def ev_FormattedValue(self, n, fr):
        self.ev(n.value, fr)
        return D()

    def ev_Tuple(self, n, fr):
        items, loose = [], False
        for e in n.elts:
            if isinstance(e, ast.Starred):
                v = self.ev(e.value, fr)
                if isinstance(v, T):
                    items += list(v.items)
                else:
                    items.append(D(flatten(v)))
                    loose = True
            else:
                items.append(self.ev(e, fr))
        if loose:
            return D(flatten(T(tuple(items))))
        return T(tuple(items))

    ev_List = ev_Tuple

    def ev_Set(self, n, fr):
        return D(flatten(T(tuple(self.ev(e, fr) for e in n.elts))))

    def ev_Dict(self, n, fr):
        items = []
        ok = True
        for k, v in zip(n.keys, n.values):
            vv = self.ev(v, fr)
            if k is None:
                if isinstance(vv, DV):
                    items += list(vv.items)
                else:
                    ok = False
                    items.append((D(), vv))
                continue
            kk = self.ev(k, fr)
            if not isinstance(kk, K):
                ok = False
            items.append((kk, vv))
        if ok:
            return DV(tuple(items))
        out = E
        for k, v in items:
            out |= flatten(k) | flatten(v)
        return D(out)

    def ev_Lambda(self, n, fr):
        a = n.args
        defaults = tuple(self.ev(x, fr) for x in a.defaults)
        kwdefaults = tuple(None if x is None else self.ev(x, fr) for x in a.kw_defaults)
        owner = fr.fn.owner if fr.fn is not None else "<module>"
        return F(n, fr, fr.mod, "<lambda>", owner, defaults, kwdefaults)

    def ev_IfExp(self, n, fr):
        t = self.test(n.test, fr)
        if t is True:
            return self.ev(n.body, fr)
        if t is False:
            return self.ev(n.orelse, fr)
        return join(self.ev(n.body, fr), self.ev(n.orelse, fr))

    def ev_NamedExpr(self, n, fr):
        v = self.ev(n.value, fr)
        self.store(n.target, v, fr)
        return v

    def ev_Starred(self, n, fr):
        return elem_of(self.ev(n.value, fr))

    def ev_Slice(self, n, fr):
        return T((self.ev(n.lower, fr), self.ev(n.upper, fr), self.ev(n.step, fr)))

    def ev_UnaryOp(self, n, fr):
        v = self.ev(n.operand, fr)
        if isinstance(n.op, ast.Not):
            t = truth(v) if isinstance(v, (K, F, P, C, M, X, T)) else None
            if t is not None:
                return K("bool", not t)
            if self.watch_enum and _mentions_enum(v, self.watch_enum):
                return v
            return D(flatten(v), True)
        if isinstance(v, K) and v.kind in ("int", "float") and isinstance(n.op, ast.USub):
            return K(v.kind, -v.v)
        if isinstance(v, D):
            if isinstance(n.op, ast.USub) and v.gate:
                return D(v.tags, False, v.gate)
            return D(flatten(v), v.mask and isinstance(n.op, ast.Invert))
        return D(flatten(v))

    def ev_BoolOp(self, n, fr):
        is_and = isinstance(n.op, ast.And)
        pending = None
        last = None
        for x in n.values:
            v = self.ev(x, fr)
            last = v
            t = truth(v) if isinstance(v, (K, F, P, C, M, X, T)) else None
            if t is None:
                pending = join(pending, v)
                continue
            if t is (not is_and):
                # `or` met a true operand / `and` met a false operand: evaluation stops here
                return v if pending is None else join(pending, v)
        if pending is None:
            return last
        return join(pending, last) if truth(last) is None else pending

    def ev_BinOp(self, n, fr):
        return self.binop(n.op, self.ev(n.left, fr), self.ev(n.right, fr))

    def binop(self, op, a, b):
        if isinstance(op, ast.Add) and isinstance(a, T) and isinstance(b, T):
            return T(a.items + b.items)
        if isinstance(a, K) and isinstance(b, K) and a.kind in ("int", "float") and b.kind in ("int", "float"):
            try:
                r = {ast.Add: lambda: a.v + b.v, ast.Sub: lambda: a.v - b.v, ast.Mult: lambda: a.v * b.v}.get(type(op))
                if r is not None:
                    r = r()
                    return K("float" if isinstance(r, float) else "int", r)
            except Exception:
                pass
        if isinstance(op, ast.Mult) and self.drop_masks:
            # (x * g1) * (y * g2) with 0/1 factors g: the product xy scaled by the 0/1 factor g1 g2
            parts = []
            for v in (a, b):
                if isinstance(v, D) and v.mask:
                    parts.append((E, v.tags | v.gate))
                elif isinstance(v, D):
                    parts.append((v.tags, v.gate))
                else:
                    parts.append((flatten(v), E))
            if parts[0][1] or parts[1][1]:
                if not (isinstance(a, D) and a.mask and isinstance(b, D) and b.mask):
                    return D(parts[0][0] | parts[1][0], False, parts[0][1] | parts[1][1])
        mask = isinstance(op, (ast.BitAnd, ast.BitOr, ast.BitXor)) and isinstance(a, D) and isinstance(b, D) \
            and a.mask and b.mask
        return D(flatten(a) | flatten(b), mask)

    def ev_Compare(self, n, fr):
        vals = [self.ev(n.left, fr)] + [self.ev(c, fr) for c in n.comparators]
        deps = E
        for v in vals:
            deps |= flatten(v)
        undec = False
        for op, a, b in zip(n.ops, vals, vals[1:]):
            r = self.compare(op, a, b)
            if r is None:
                undec = True
            elif r is False:
                return FALSE
        if not undec:
            return TRUE
        if self.watch_enum and any(_mentions_enum(x, self.watch_enum) for x in vals):
            return D(deps | frozenset({("enum", self.watch_enum)}), True)
        return D(deps, True)

    def compare(self, op, a, b):
        if isinstance(op, (ast.Is, ast.IsNot)):
            for x, y in ((a, b), (b, a)):
                if isinstance(y, K) and y.kind == "none":
                    nn = not_none(x)
                    if nn is None:
                        return None
                    return (not nn) if isinstance(op, ast.Is) else nn
            return None
        if isinstance(op, (ast.Eq, ast.NotEq)):
            if isinstance(a, K) and isinstance(b, K) and a.kind != "identity":
                if a.kind == "enum" and b.kind == "enum" and a.v[0] != b.v[0]:
                    return None
                if {a.kind, b.kind} <= {"int", "float", "bool"} or a.kind == b.kind:
                    eq = a.v == b.v
                    return eq if isinstance(op, ast.Eq) else not eq
                if "none" in (a.kind, b.kind):
                    return isinstance(op, ast.NotEq)
            if isinstance(a, K) and a.kind == "none" and not_none(b) is True or \
                    isinstance(b, K) and b.kind == "none" and not_none(a) is True:
                return isinstance(op, ast.NotEq)
            return None
        if isinstance(op, (ast.In, ast.NotIn)):
            if isinstance(a, K) and isinstance(b, T) and all(isinstance(x, K) for x in b.items):
                rs = [self.compare(ast.Eq(), a, x) for x in b.items]
                if any(r is None for r in rs):
                    return None
                r = any(rs)
                return r if isinstance(op, ast.In) else not r
            if isinstance(a, K) and isinstance(b, DV):
                r = any(k == a for k, _ in b.items)
                return r if isinstance(op, ast.In) else not r
            return None
        if isinstance(a, K) and isinstance(b, K) and {a.kind, b.kind} <= {"int", "float"}:
            r = {ast.Lt: a.v < b.v, ast.LtE: a.v <= b.v, ast.Gt: a.v > b.v, ast.GtE: a.v >= b.v}.get(type(op))
            return r
        return None

    def ev_Attribute(self, n, fr):
        v = self.ev(n.value, fr)
        return self.attr(v, n.attr, fr, n)

    def attr(self, v, name, fr, node):
        if isinstance(v, M):
            r = self.mlookup(v.name, name)
            return r if r is not None else X(f"{v.name}.?{name}")
        if isinstance(v, X):
            return X(f"{v.name}.{name}")
        if isinstance(v, C):
            if self.is_enum(v):
                return K("enum", (v.name, name))
            return X(f"{v.mod}.{v.name}.{name}")
        if isinstance(v, FS):
            out = None
            for a in v.alts:
                out = join(out, self.attr(a, name, fr, node))
            return out
        return project(v, name)

    def ev_index(self, s, fr):
        return self.ev(s, fr)

    def ev_Subscript(self, n, fr):
        base = self.ev(n.value, fr)
        idx = self.ev_index(n.slice, fr)
        if self.subscript_hook is not None:
            r = self.subscript_hook(self, n, base, idx, fr)
            if r is not None:
                return r
        if isinstance(base, T):
            if isinstance(idx, K) and idx.kind == "int" and -len(base.items) <= idx.v < len(base.items):
                return base.items[idx.v]
            if isinstance(n.slice, ast.Slice) and isinstance(idx, T):
                lo, hi, stp = idx.items
                if all(isinstance(x, K) and x.kind in ("int", "none") for x in (lo, hi, stp)):
                    return T(tuple(base.items[slice(lo.v, hi.v, stp.v)]))
            return join(elem_of(base), D(flatten(idx)))
        if isinstance(base, DV):
            if isinstance(idx, K):
                for k, v in base.items:
                    if k == idx:
                        return v
            out = D(flatten(idx))
            for _, v in base.items:
                out = join(out, v)
            return out
        if isinstance(base, V):
            if isinstance(n.slice, ast.Slice) and isinstance(idx, T):
                lo, hi, stp = idx.items
                if isinstance(lo, K) and lo.kind == "int" and lo.v >= 1 and isinstance(stp, K) and stp.kind == "none" \
                        and isinstance(hi, K) and hi.kind in ("int", "none"):
                    return D(base.tail)
            elif isinstance(idx, K) and idx.kind == "int":
                return D(base.head if idx.v == 0 else base.tail)
            return D(base.head | base.tail | flatten(idx))
        if isinstance(base, (X, C)):
            return base             # typing subscripts: Optional[...]
        return D(flatten(base) | flatten(idx))

    def comp(self, n, fr, elts):
        sub = Frame(fr, fr.mod)
        sub.fn = None
        deps = E
        for g in n.generators:
            it = self.ev(g.iter, sub)
            deps |= flatten(it)
            self.store(g.target, elem_of(it), sub)
            for c in g.ifs:
                self.ev(c, sub)
        out = deps
        for e in elts:
            out |= flatten(self.ev(e, sub))
        return D(out)

    def ev_ListComp(self, n, fr):
        return self.comp(n, fr, [n.elt])

    ev_SetComp = ev_GeneratorExp = ev_ListComp

    def ev_DictComp(self, n, fr):
        return self.comp(n, fr, [n.key, n.value])

    # ------------------------------------------------------------------ calls
    def ev_Call(self, n, fr):
        args, kwargs, splat = [], {}, None
        recv = None
        if isinstance(n.func, ast.Attribute):
            rv = self.ev(n.func.value, fr)
            if isinstance(rv, (M, X, C, FS)):
                fn = self.attr(rv, n.func.attr, fr, n.func)
            else:
                recv = rv
                fn = None
        else:
            fn = self.ev(n.func, fr)
        for a in n.args:
            if isinstance(a, ast.Starred):
                v = self.ev(a.value, fr)
                if isinstance(v, T) and splat is None:
                    args += list(v.items)
                else:
                    splat = join(splat, D(flatten(v)))
            else:
                args.append(self.ev(a, fr))
        for kw in n.keywords:
            v = self.ev(kw.value, fr)
            if kw.arg is None:
                if isinstance(v, DV) and all(isinstance(k, K) and k.kind == "str" for k, _ in v.items):
                    for k, x in v.items:
                        kwargs[k.v] = x
                else:
                    splat = join(splat, D(flatten(v)))
            else:
                kwargs[kw.arg] = v
        if recv is not None:
            return self.method(recv, n.func.attr, args, kwargs, splat, n, fr)
        return self.call(fn, args, kwargs, n, fr, splat)

    def method(self, recv, name, args, kwargs, splat, n, fr):
        if name == "replace" and not args and splat is None and kwargs and not isinstance(recv, K):
            base = recv if isinstance(recv, R) else R(recv if isinstance(recv, D) else D(flatten(recv)))
            return base.put(**kwargs)
        if name == "tree_replace" and len(args) == 1 and isinstance(args[0], DV) and not isinstance(recv, K):
            base = recv if isinstance(recv, R) else R(recv if isinstance(recv, D) else D(flatten(recv)))
            for k, v in args[0].items:
                if isinstance(k, K) and k.kind == "str":
                    f = k.v.split(".")[0]
                    base = base.put(**{f: join(project(base, f), D(flatten(v)))})
                else:
                    base = R(join(base.base, D(flatten(v))), base.fields)
            return base
        if isinstance(recv, DV):
            if name == "get" and args and splat is None:
                dflt = args[1] if len(args) > 1 else NONE
                if isinstance(args[0], K):
                    for k, v in recv.items:
                        if k == args[0]:
                            return v
                    if all(isinstance(k, K) for k, _ in recv.items):
                        return dflt
                out = dflt
                for _, v in recv.items:
                    out = join(out, v)
                return out
            if name == "values":
                return T(tuple(v for _, v in recv.items))
            if name == "keys":
                return T(tuple(k for k, _ in recv.items))
            if name == "items":
                return T(tuple(T((k, v)) for k, v in recv.items))
        if isinstance(recv, CALLABLE):
            pass
        deps = flatten(recv) | (flatten(splat) if splat is not None else E)
        res = self.opaque(deps, args, kwargs, n, fr)
        if name in MUTATORS and isinstance(n.func.value, (ast.Name, ast.Attribute)) and isinstance(recv, (T, D, DV)):
            add = T(tuple(args))
            if isinstance(recv, T) and name == "append" and len(args) == 1:
                new = D(flatten(recv) | flatten(add))
            else:
                new = D(flatten(recv) | flatten(add) | flatten(T(tuple(kwargs.values()))))
            self.store(n.func.value, new, fr)
        return res

    def opaque(self, deps, args, kwargs, n, fr, looping=False):
        """Result of a callee that is not analysed: depends on every argument; function-valued arguments are applied to
        values depending on the other arguments (round 1) and, in further rounds, on their own results.  Events recorded
        in the feedback rounds are marked weak unless the callee is known to iterate (`looping`): whether an unknown
        combinator feeds results back is not known, so such a flow is possible, not definite."""
        vals = list(args) + list(kwargs.values())
        fns = [v for v in vals if isinstance(v, CALLABLE)]
        for v in vals:
            if not isinstance(v, CALLABLE):
                deps |= flatten(v)
            elif isinstance(v, P):
                deps |= flatten(v)
            if self.watch_enum and _mentions_enum(v, self.watch_enum):
                self.undecided.append((fr.mod, getattr(n, "lineno", 0)))
        for rnd in range(6):
            before = deps
            if rnd and not looping:
                self.weak += 1
            try:
                for f in fns:
                    deps |= flatten(self.apply_unknown(f, D(before), n, fr))
            finally:
                if rnd and not looping:
                    self.weak -= 1
            if deps == before:
                break
        return D(deps)

    def apply_unknown(self, f, amb, n, fr):
        if isinstance(f, FS):
            out = None
            for a in f.alts:
                if isinstance(a, CALLABLE):
                    out = join(out, self.apply_unknown(a, amb, n, fr))
            return out
        return self.call(f, [], {}, n, fr, splat=amb)

    def call(self, fn, args, kwargs, n, fr, splat=None):
        if isinstance(fn, tuple) and fn and fn[0] == "from":
            fn = self.mlookup(fn[1], fn[2])
        if isinstance(fn, FS):
            out = None
            for a in fn.alts:
                if isinstance(a, K) and a.kind == "none":
                    continue
                out = join(out, self.call(a, args, kwargs, n, fr, splat))
            return out if out is not None else D()
        if isinstance(fn, P):
            kw = dict(fn.kwargs)
            kw.update(kwargs)
            return self.call(fn.fn, list(fn.args) + list(args), kw, n, fr, splat)
        if isinstance(fn, K) and fn.kind == "identity":
            return args[0] if args else (splat if splat is not None else D())
        if isinstance(fn, F):
            return self.apply(fn, args, kwargs, n, fr, splat)
        if isinstance(fn, C):
            return self.construct(fn, args, kwargs, n, fr, splat)
        if isinstance(fn, X):
            return self.external(fn.name, args, kwargs, n, fr, splat)
        deps = flatten(fn) | (flatten(splat) if splat is not None else E)
        return self.opaque(deps, args, kwargs, n, fr)

    def construct(self, c, args, kwargs, n, fr, splat):
        if self.is_enum(c):
            out = E
            for a in args:
                if isinstance(a, K) and a.kind == "enum":
                    return a
                out |= flatten(a)
            return D(out)
        names = self.class_fields(c) if c.mod in self.enter else None
        rest = flatten(splat) if splat is not None else E
        fields = {}
        base = E
        if names:
            for i, a in enumerate(args):
                if i < len(names):
                    fields[names[i]] = a
                else:
                    base |= flatten(a)
            if splat is not None:
                for nm in names[len(args):]:
                    fields.setdefault(nm, D(rest))
        else:
            for a in args:
                base |= flatten(a)
        base |= rest
        for k, v in kwargs.items():
            fields[k] = v
        return R(D(base), tuple(sorted(fields.items())))

    def external(self, name, args, kwargs, n, fr, splat):
        if self.external_hook is not None and splat is None:
            r = self.external_hook(self, name, args, kwargs, n, fr)
            if r is not None:
                return r
        if name in TRANSPARENT_HOF and args and isinstance(args[0], CALLABLE):
            return args[0]
        if name == "functools.partial" and args:
            return P(args[0], tuple(args[1:]), tuple(sorted(kwargs.items())))
        if name == "functools.wraps":
            return IDENT
        if name in SCAN and len(args) + len(kwargs) >= 2 and splat is None:
            return self.scan(args, kwargs, n, fr)
        if name in TREE_MAP and len(args) >= 2 and splat is None and isinstance(args[0], CALLABLE) \
                and all(isinstance(a, T) for a in args[1:]) and len({len(a.items) for a in args[1:]}) == 1:
            return self.tree_map(args[0], args[1:], n, fr)
        if name in ZEROS:
            return ZERO
        if name in WHERE and self.drop_masks and len(args) == 3 and splat is None:
            for x, z in ((args[1], args[2]), (args[2], args[1])):
                if isinstance(z, K) and z.kind in ("int", "float") and z.v == 0 and isinstance(x, D):
                    return D(x.tags, False, x.gate | flatten(args[0]))
        if name in ("builtins.list", "builtins.tuple") and len(args) == 1 and isinstance(args[0], T):
            return args[0]
        if name == "builtins.len" and len(args) == 1 and isinstance(args[0], T):
            return K("int", len(args[0].items))
        if name == "builtins.isinstance":
            return D(E, True)
        if name == "builtins.dict" and not args and splat is None:
            return DV(tuple((K("str", k), v) for k, v in kwargs.items()))
        deps = flatten(splat) if splat is not None else E
        if name.startswith("builtins.") and name not in APPLYING_BUILTINS:
            # getattr(fn, '__name__'), isinstance(f, ...), len(...): builtins do not call their function arguments
            args = [a for a in args if not isinstance(a, CALLABLE)]
            kwargs = {k: v for k, v in kwargs.items() if not isinstance(v, CALLABLE)}
        return self.opaque(deps, args, kwargs, n, fr, looping=name in LOOPING)

    def tree_map(self, f, trees, n, fr):
        out = []
        for items in zip(*[t.items for t in trees]):
            if all(isinstance(x, T) for x in items) and len({len(x.items) for x in items}) == 1:
                out.append(self.tree_map(f, list(items), n, fr))
            else:
                out.append(self.call(f, list(items), {}, n, fr))
        return T(tuple(out))

    def scan(self, args, kwargs, n, fr):
        names = ["f", "init", "xs"]
        a = dict(zip(names, args))
        for k in names:
            if k in kwargs:
                a[k] = kwargs[k]
        f, carry, xs = a.get("f"), a.get("init"), a.get("xs", NONE)
        if not isinstance(f, CALLABLE) or carry is None:
            return self.opaque(E, args, kwargs, n, fr, looping=True)
        x = T(tuple(elem_of(i) for i in xs.items)) if isinstance(xs, T) else (xs if isinstance(xs, K) else elem_of(xs))
        ys = None
        for _ in range(10):
            out = self.call(f, [carry, x], {}, n, fr)
            if isinstance(out, T) and len(out.items) == 2:
                nc, y = out.items
            else:
                nc = y = D(flatten(out))
            ys = join(ys, y)
            new = join(carry, nc)
            if new == carry:
                return T((carry, ys))
            carry = new
        self.err(fr.mod, n, "scan carry does not reach a fixed point")

    def apply(self, fn, args, kwargs, n, fr, splat=None):
        key = (fn.mod, fn.name)
        toplevel = fn.frame.parent is None
        if toplevel and key in self.anchors:
            self.events.append({"tag": self.anchors[key], "args": list(args), "kwargs": dict(kwargs), "splat": splat,
                                "stack": list(self.stack), "node": n, "mod": fr.mod, "weak": self.weak > 0})
            return D(frozenset({(self.anchors[key],)}))
        if toplevel and fn.mod not in self.enter:
            self.opaque_modules.add(fn.mod)
            deps = flatten(splat) if splat is not None else E
            return self.opaque(deps, args, kwargs, n, fr)
        if len(self.stack) > 60:
            self.err(fr.mod, n, "call depth exceeded")
        if toplevel and (fn.mod, fn.name) not in self.decorators:
            caller = next((f.owner for f, _ in reversed(self.stack) if (f.mod, f.owner) not in self.decorators), "<entry>")
            self.entered.append((caller, fn.mod, fn.name, len(self.events)))
        if sum(1 for f, _ in self.stack if f is fn) >= 3:
            return D(flatten(T(tuple(args))) | flatten(T(tuple(kwargs.values()))) | (flatten(splat) if splat is not None else E))
        new = Frame(fn.frame, fn.mod, fn)
        self.bind(fn, new, args, kwargs, splat)
        self.stack.append((fn, n))
        try:
            if isinstance(fn.node, ast.Lambda):
                return self.ev(fn.node.body, new)
            fell = self.block(fn.node.body, new)
            ret = new.ret
            if fell:
                ret = join(ret, NONE) if ret is not None else NONE
            return ret if ret is not None else D()
        finally:
            self.stack.pop()

    def bind(self, fn, fr, args, kwargs, splat):
        a = fn.node.args
        pos = [p.arg for p in a.posonlyargs + a.args]
        kwargs = dict(kwargs)
        nd = len(fn.defaults)
        for i, p in enumerate(pos):
            if i < len(args):
                fr.vars[p] = args[i]
            elif p in kwargs:
                fr.vars[p] = kwargs.pop(p)
            else:
                j = i - (len(pos) - nd)
                dflt = fn.defaults[j] if j >= 0 else None
                if splat is not None:
                    fr.vars[p] = splat if dflt is None else join(splat, dflt)
                else:
                    fr.vars[p] = dflt if dflt is not None else D()
        extra = list(args[len(pos):])
        if a.vararg:
            if splat is not None:
                fr.vars[a.vararg.arg] = D(flatten(T(tuple(extra))) | flatten(splat))
            else:
                fr.vars[a.vararg.arg] = T(tuple(extra))
        for p, dflt in zip(a.kwonlyargs, fn.kwdefaults):
            if p.arg in kwargs:
                fr.vars[p.arg] = kwargs.pop(p.arg)
            elif splat is not None:
                fr.vars[p.arg] = splat if dflt is None else join(splat, dflt)
            else:
                fr.vars[p.arg] = dflt if dflt is not None else D()
        if a.kwarg:
            if splat is not None:
                fr.vars[a.kwarg.arg] = D(flatten(splat) | flatten(T(tuple(kwargs.values()))))
            else:
                fr.vars[a.kwarg.arg] = DV(tuple((K("str", k), v) for k, v in kwargs.items()))

    # ------------------------------------------------------------------ entry
    def function(self, mod, name):
        v = self.mlookup(mod, name)
        if not isinstance(v, CALLABLE):
            raise AnalysisError(f"{self.label}anchor vanished: function {name} in {mod}.py")
        return v

    def run(self, mod, name, args):
        self.events = []
        self.undecided = []
        self.stack = []
        self.entered = []
        self.steps = 0
        fr = self.mframe(mod)
        node = ast.Call(func=ast.Name(id=name, ctx=ast.Load()), args=[], keywords=[])
        node.lineno = 0
        return self.call(self.function(mod, name), list(args), {}, node, fr)

    def owner_of(self, ev):
        """(owner function name, line of the call in the owner) for an event: the innermost frame on the call stack that
        is not a decorator wrapper."""
        stack = ev["stack"]
        site = ev["node"]
        for f, callnode in reversed(stack):
            if (f.mod, f.owner) in self.decorators:
                site = callnode
                continue
            return f.owner, getattr(site, "lineno", 0), f.mod
        return "<entry>", getattr(site, "lineno", 0), ev["mod"]


def _as_load(t):
    if isinstance(t, ast.Name):
        return ast.Name(id=t.id, ctx=ast.Load(), lineno=t.lineno, col_offset=t.col_offset)
    if isinstance(t, ast.Attribute):
        return ast.Attribute(value=t.value, attr=t.attr, ctx=ast.Load(), lineno=t.lineno, col_offset=t.col_offset)
    if isinstance(t, ast.Subscript):
        return ast.Subscript(value=t.value, slice=t.slice, ctx=ast.Load(), lineno=t.lineno, col_offset=t.col_offset)
    return t


def _mentions_enum(v, cls):
    if isinstance(v, K):
        return v.kind == "enum" and v.v[0] == cls
    if isinstance(v, D):
        return ("enum", cls) in v.tags
    if isinstance(v, T):
        return any(_mentions_enum(x, cls) for x in v.items)
    return False
