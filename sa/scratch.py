"""Scratch copies of /repo for self-tests (outside /repo and /verif, removed after use)."""
from __future__ import annotations

import contextlib
import os
import shutil
import subprocess
import tempfile

from .cfront import REPO

PARTS = ["include", "src", "plugin", "cmake", "CMakeLists.txt", "python/mujoco", "mjx/mujoco", "doc/generate"]


@contextlib.contextmanager
def scratch(parts=PARTS, repo=REPO):
    d = tempfile.mkdtemp(prefix="verif_scratch_", dir=os.environ.get("TMPDIR", "/tmp"))
    try:
        for p in parts:
            src = os.path.join(repo, p)
            dst = os.path.join(d, p)
            if not os.path.exists(src):
                continue
            os.makedirs(os.path.dirname(dst), exist_ok=True)
            if os.path.isdir(src):
                shutil.copytree(src, dst, symlinks=True)
            else:
                shutil.copy2(src, dst)
        yield d
    finally:
        shutil.rmtree(d, ignore_errors=True)


def edit(root, rel, old, new, count=1):
    p = os.path.join(root, rel)
    s = open(p).read()
    if s.count(old) < 1:
        raise RuntimeError(f"mutation anchor not found in {rel}: {old!r}")
    s = s.replace(old, new, count)
    open(p, "w").write(s)


def run_check(pid, root, tier="quick"):
    """Run a check against a scratch root; returns (exit code, stdout)."""
    env = dict(os.environ, VERIF_REPO=root, VERIF_JOBS=os.environ.get("VERIF_SELFTEST_JOBS", "4"))
    p = subprocess.run(["python3-vt", "-m", "sa.check", pid, "--tier", tier, "--no-evidence"],
                       cwd=os.path.dirname(os.path.dirname(os.path.abspath(__file__))), env=env,
                       capture_output=True, text=True)
    return p.returncode, p.stdout + p.stderr
