"""R-INDEX-BOUND: subscripts of fixed-extent array members stay inside the declared extent.

Interval evaluation of index expressions over the canonical (inlined, nested) view of every function that subscripts a
fixed-extent array member of a given struct.  Nothing is executed: an index expression is evaluated in the interval domain
with path refinement, so `mjMAX(0, mjMIN(K-1, x))` (a conditional expression after preprocessing), a helper doing the clamp,
`if (x < 0 || x >= K) return;` before the use, and a counting loop `for (i = 0; i < K; i++)` all yield [0, K-1] for the
index, whatever the spelling.

    interval(e, env)        (lo, hi) with +-inf for unknown; `c ? a : b` evaluates each arm under the refinement c / !c
    assume(cond, pol, env)  env refined by a condition: comparisons of an expression (keyed by canonical text) with an
                            interval-valued expression; && / || / ! by polarity
    index_sites(unit, struct, extents)   one record per subscript (or decayed pass to a function of the unit, followed into
                            the callee's parameter) with the interval of its index under the guards of the site
"""
from __future__ import annotations

import math

from . import cir, modref, norm
from .cfront import AnalysisError

INF = math.inf
TOP = (-INF, INF)


def _lit(n):
    if n.get("k") == "IntegerLiteral":
        try:
            return int(str(n.get("v")), 0)
        except ValueError:
            return None
    if n.get("k") == "CharacterLiteral":
        try:
            return int(n.get("v"))
        except (TypeError, ValueError):
            return None
    return None


def _meet(a, b):
    return (max(a[0], b[0]), min(a[1], b[1]))


def _join(a, b):
    return (min(a[0], b[0]), max(a[1], b[1]))


def _key(e):
    return cir.text(cir.strip(e))


def interval(e, env, enum=None):
    e = cir.strip(e)
    if e is None:
        return TOP
    k = e.get("k")
    v = _lit(e)
    if v is not None:
        return (v, v)
    base = TOP
    if k == "DeclRefExpr" and (e.get("ref") or {}).get("k") == "EnumConstantDecl":
        val = (enum or {}).get(e["ref"].get("n"))
        if val is not None:
            return (val, val)
    if k == "ConditionalOperator":
        c, a, b = cir.kids(e)
        ea = assume(c, True, env, enum)
        eb = assume(c, False, env, enum)
        ia = interval(a, ea, enum) if ea is not None else None
        ib = interval(b, eb, enum) if eb is not None else None
        if ia is None and ib is None:
            return TOP
        base = ia if ib is None else ib if ia is None else _join(ia, ib)
    elif k == "BinaryOperator" and e.get("op") in ("+", "-", "*"):
        a, b = (interval(x, env, enum) for x in cir.kids(e))
        op = e.get("op")
        if op == "+":
            base = (a[0] + b[0], a[1] + b[1])
        elif op == "-":
            base = (a[0] - b[1], a[1] - b[0])
        else:
            if all(math.isfinite(x) for x in a + b):
                ps = [x * y for x in a for y in b]
                base = (min(ps), max(ps))
        base = tuple(TOP[i] if isinstance(x, float) and math.isnan(x) else x for i, x in enumerate(base))
    elif k == "BinaryOperator" and e.get("op") == "%":
        a, b = (interval(x, env, enum) for x in cir.kids(e))
        if b[0] == b[1] and math.isfinite(b[0]) and b[0] > 0 and a[0] >= 0:
            base = (0, b[0] - 1)
    elif k == "BinaryOperator" and e.get("op") in ("<", "<=", ">", ">=", "==", "!=", "&&", "||"):
        base = (0, 1)
    elif k == "UnaryOperator" and e.get("op") == "-":
        a = interval(cir.kids(e)[0], env, enum)
        base = (-a[1], -a[0])
    elif k == "UnaryOperator" and e.get("op") == "!":
        base = (0, 1)
    ref = env.get(_key(e))
    return _meet(base, ref) if ref is not None else base


_FLIP = {"<": ">", ">": "<", "<=": ">=", ">=": "<=", "==": "==", "!=": "!="}
_NEG = {"<": ">=", ">": "<=", "<=": ">", ">=": "<", "==": "!=", "!=": "=="}


def assume(cond, pol, env, enum=None):
    """env refined by `cond` having truth value `pol`; None when the refinement is empty (infeasible arm)."""
    c = cir.strip(cond)
    if c is None:
        return env
    k = c.get("k")
    if k == "UnaryOperator" and c.get("op") == "!":
        return assume(cir.kids(c)[0], not pol, env, enum)
    if k == "BinaryOperator" and c.get("op") in ("&&", "||"):
        a, b = cir.kids(c)
        conj = (c.get("op") == "&&") == pol
        if conj:                       # both hold (a && b true, or a || b false)
            e1 = assume(a, pol, env, enum)
            return None if e1 is None else assume(b, pol, e1, enum)
        ea, eb = assume(a, pol, env, enum), assume(b, pol, env, enum)
        if ea is None:
            return eb
        if eb is None:
            return ea
        out = dict(env)
        for key in set(ea) & set(eb):
            out[key] = _join(ea[key], eb[key])
        return out
    if k == "BinaryOperator" and c.get("op") in _FLIP:
        op = c.get("op") if pol else _NEG[c.get("op")]
        a, b = cir.kids(c)
        out = dict(env)
        for x, y, o in ((a, b, op), (b, a, _FLIP[op])):
            iy = interval(y, env, enum)
            ix = interval(x, env, enum)
            if o == "<":
                r = (-INF, iy[1] - 1)
            elif o == "<=":
                r = (-INF, iy[1])
            elif o == ">":
                r = (iy[0] + 1, INF)
            elif o == ">=":
                r = (iy[0], INF)
            elif o == "==":
                r = iy
            else:
                continue
            nx = _meet(ix, r)
            if nx[0] > nx[1]:
                return None
            if _lit(cir.strip(x)) is None:
                out[_key(x)] = _meet(out.get(_key(x), TOP), nx)
        return out
    if pol is False and k != "BinaryOperator":
        # `if (!x)` on an integer expression: x == 0
        out = dict(env)
        out[_key(c)] = _meet(out.get(_key(c), TOP), (0, 0))
        return out
    return env


def _fixed_extent(t):
    import re
    m = re.search(r"\[(\d+)\]\s*$", t or "")
    return int(m.group(1)) if m else None


def _tokens(text):
    import re
    return set(re.findall(r"[A-Za-z_][A-Za-z_0-9$]*", text))


def _kill(env, name):
    return {k: v for k, v in env.items() if name not in _tokens(k)}


def _env_join(a, b):
    if a is None:
        return b
    if b is None:
        return a
    return {k: _join(a[k], b[k]) for k in set(a) & set(b)}


def _assigned_names(n):
    """names of variables modified anywhere below n (assignment, ++/--, address taken)."""
    out = set()
    if n is None:
        return out
    for x in cir.walk(n):
        k = x.get("k")
        tgt = None
        if (k == "BinaryOperator" and x.get("op") == "=") or k == "CompoundAssignOperator":
            tgt = cir.strip(cir.kids(x)[0])
        elif k == "UnaryOperator" and x.get("op") in ("++", "--", "&"):
            tgt = cir.strip(cir.kids(x)[0])
        if tgt is not None and tgt.get("k") == "DeclRefExpr":
            out.add(tgt.get("n") or (tgt.get("ref") or {}).get("n"))
    return out


class Flow:
    """Flow-sensitive interval environment over a nested view (no early exits): env of every visited expression node.

    Keys are canonical texts: local / parameter names and memory reads (`m->geom_group[i]`); a store to a variable kills
    every key that mentions it.  Loops: variables modified in the loop are unknown in the body except a counter that is
    initialised in the for-init and only incremented (its lower bound is kept); the loop condition holds in the body."""

    def __init__(self, view, enum=None):
        self.enum = enum
        self.at = {}
        body = cir.body(view) if view.get("k") in ("FunctionDecl", "CXXMethodDecl") else view
        self.stmt(body, {})

    # ------------------------------------------------------------------ expressions
    def expr(self, e, env):
        """record env for every node of e (short-circuit / conditional refinement); returns env after side effects."""
        if e is None or env is None:
            return env
        self.at[id(e)] = env
        k = e.get("k")
        kids = [c for c in cir.kids(e)]
        if k == "BinaryOperator" and e.get("op") in ("&&", "||"):
            env1 = self.expr(kids[0], env)
            self.expr(kids[1], assume(kids[0], e.get("op") == "&&", env1, self.enum))
            for nm in _assigned_names(kids[1]):
                env1 = _kill(env1, nm)
            return env1
        if k == "ConditionalOperator":
            env1 = self.expr(kids[0], env)
            self.expr(kids[1], assume(kids[0], True, env1, self.enum))
            self.expr(kids[2], assume(kids[0], False, env1, self.enum))
            for nm in _assigned_names(kids[1]) | _assigned_names(kids[2]):
                env1 = _kill(env1, nm)
            return env1
        if (k == "BinaryOperator" and e.get("op") == "=") or k == "CompoundAssignOperator":
            env = self.expr(kids[1], env)
            self.expr(kids[0], env)
            tgt = cir.strip(kids[0])
            if tgt is not None and tgt.get("k") == "DeclRefExpr":
                nm = tgt.get("n") or (tgt.get("ref") or {}).get("n")
                val = interval(kids[1], env, self.enum) if k == "BinaryOperator" else TOP
                if k == "CompoundAssignOperator" and e.get("op") in ("+=", "-="):
                    cur, d = interval(kids[0], env, self.enum), interval(kids[1], env, self.enum)
                    val = (cur[0] + d[0], cur[1] + d[1]) if e.get("op") == "+=" else (cur[0] - d[1], cur[1] - d[0])
                env = _kill(env, nm)
                if val != TOP:
                    env = dict(env)
                    env[nm] = val
            elif tgt is not None:
                # store to memory: forget what was known about that cell
                env = {kk: v for kk, v in env.items() if kk != _key(tgt)}
            return env
        if k == "UnaryOperator" and e.get("op") in ("++", "--"):
            env = self.expr(kids[0], env)
            tgt = cir.strip(kids[0])
            if tgt is not None and tgt.get("k") == "DeclRefExpr":
                nm = tgt.get("n") or (tgt.get("ref") or {}).get("n")
                cur = interval(kids[0], env, self.enum)
                d = 1 if e.get("op") == "++" else -1
                env = _kill(env, nm)
                env = dict(env)
                env[nm] = (cur[0] + d, cur[1] + d)
            return env
        for c in kids:
            if c is not None:
                env = self.expr(c, env)
        if cir.is_call(e):
            # a callee may write through pointers to locals passed by address
            for a in cir.args(e):
                a2 = cir.strip(a)
                if a2 is not None and a2.get("k") == "UnaryOperator" and a2.get("op") == "&":
                    t = cir.strip(cir.kids(a2)[0])
                    if t is not None and t.get("k") == "DeclRefExpr":
                        env = _kill(env, t.get("n") or (t.get("ref") or {}).get("n"))
        return env

    # ------------------------------------------------------------------ statements
    def stmt(self, n, env):
        if n is None or env is None:
            return env
        k = n.get("k")
        kids = list(cir.kids(n))
        if k == "CompoundStmt":
            for c in kids:
                env = self.stmt(c, env)
            return env
        if k == "DeclStmt":
            for vd in kids:
                if vd is None or vd.get("k") != "VarDecl":
                    continue
                iv = [c for c in cir.kids(vd) if c is not None]
                env = _kill(env, vd.get("n"))
                if iv:
                    env = self.expr(iv[-1], env)
                    val = interval(iv[-1], env, self.enum)
                    if val != TOP and "[" not in (vd.get("t") or "") and "*" not in (vd.get("t") or ""):
                        env = dict(env)
                        env[vd.get("n")] = val
            return env
        if k == "IfStmt":
            idx = int(bool(n.get("hasInit"))) + int(bool(n.get("hasVar")))
            for c in kids[:idx]:
                env = self.stmt(c, env)
            cond = kids[idx]
            then = kids[idx + 1] if len(kids) > idx + 1 else None
            els = kids[idx + 2] if len(kids) > idx + 2 else None
            env = self.expr(cond, env)
            e1 = self.stmt(then, assume(cond, True, env, self.enum))
            e0 = assume(cond, False, env, self.enum)
            if els is not None:
                e0 = self.stmt(els, e0)
            if then is not None and _never_falls_through(then):
                e1 = None
            if els is not None and _never_falls_through(els):
                e0 = None
            return _env_join(e1, e0) if (e1 is not None or e0 is not None) else None
        if k in ("ForStmt", "WhileStmt", "DoStmt"):
            if k == "ForStmt":
                kk = kids + [None] * (5 - len(kids))
                init, cond, inc, body = kk[0], kk[2], kk[3], kk[4]
            elif k == "WhileStmt":
                init, cond, inc, body = None, kids[0], None, kids[-1]
            else:
                init, cond, inc, body = None, kids[1], None, kids[0]
            env = self.stmt(init, env) if init is not None and init.get("k") in ("DeclStmt", "CompoundStmt") else \
                self.expr(init, env)
            mod = _assigned_names(body) | _assigned_names(inc) | _assigned_names(cond)
            lower = {}
            for nm in mod:
                cur = env.get(nm)
                if cur is not None and math.isfinite(cur[0]) and _only_incremented(nm, body, inc, cond):
                    lower[nm] = (cur[0], INF)
            h = env
            for nm in mod:
                h = _kill(h, nm)
            h = dict(h)
            h.update(lower)
            if k == "DoStmt":
                self.stmt(body, h)
                self.expr(cond, h)
                return assume(cond, False, h, self.enum) or h
            self.expr(cond, h)
            hb = assume(cond, True, h, self.enum)
            hb = self.stmt(body, hb)
            if inc is not None and hb is not None:
                self.expr(inc, hb)
            out = assume(cond, False, h, self.enum) if cond is not None else h
            if _has_break(body):
                out = h
            return out if out is not None else h
        if k == "SwitchStmt":
            for c in kids[:-1]:
                env = self.expr(c, env) if c is not None and c.get("k") not in ("DeclStmt",) else self.stmt(c, env)
            body = kids[-1]
            h = env
            for nm in _assigned_names(body):
                h = _kill(h, nm)
            self._switch_body(body, h)
            return h
        if k in ("CaseStmt", "DefaultStmt", "LabelStmt", "AttributedStmt"):
            for c in kids:
                if c is None:
                    continue
                if c.get("k", "").endswith("Stmt"):
                    env = self.stmt(c, env)
                else:
                    env = self.expr(c, env) if k not in ("CaseStmt",) or c is kids[-1] else env
            return env
        if k == "ReturnStmt":
            for c in kids:
                self.expr(c, env)
            return None
        if k in ("BreakStmt", "ContinueStmt", "GotoStmt", "NullStmt"):
            return env
        if k.endswith("Stmt"):
            for c in kids:
                env = self.stmt(c, env) if c is not None and c.get("k", "").endswith("Stmt") else self.expr(c, env)
            return env
        return self.expr(n, env)

    def _switch_body(self, body, h):
        # every labelled section starts from the havocked environment
        if body is None:
            return
        if body.get("k") != "CompoundStmt":
            self.stmt(body, h)
            return
        env = h
        for c in cir.kids(body):
            if c is None:
                continue
            if c.get("k") in ("CaseStmt", "DefaultStmt"):
                env = h
            env = self.stmt(c, env)
            if env is None:
                env = h


def _never_falls_through(s):
    k = s.get("k")
    if k in ("ReturnStmt", "BreakStmt", "ContinueStmt", "GotoStmt"):
        return True
    if k == "CompoundStmt":
        ks = [c for c in cir.kids(s) if c is not None]
        return bool(ks) and _never_falls_through(ks[-1])
    if cir.is_call(cir.strip(s) or {}):
        from . import paths
        return paths.is_noreturn_call(cir.strip(s), set())
    return False


def _has_break(body):
    if body is None:
        return False
    stack = [body]
    while stack:
        x = stack.pop()
        if x.get("k") == "BreakStmt":
            return True
        if x.get("k") in ("ForStmt", "WhileStmt", "DoStmt", "SwitchStmt"):
            continue
        stack.extend(c for c in cir.kids(x) if c is not None)
    return False


def _only_incremented(name, *regions):
    for r in regions:
        if r is None:
            continue
        for x in cir.walk(r):
            k = x.get("k")
            tgt = None
            if (k == "BinaryOperator" and x.get("op") == "=") or k == "CompoundAssignOperator":
                tgt = cir.strip(cir.kids(x)[0])
                okk = k == "CompoundAssignOperator" and x.get("op") == "+=" and interval(cir.kids(x)[1], {})[0] >= 0
            elif k == "UnaryOperator" and x.get("op") in ("++", "--", "&"):
                tgt = cir.strip(cir.kids(x)[0])
                okk = x.get("op") == "++"
            if tgt is not None and tgt.get("k") == "DeclRefExpr" and (tgt.get("n") or (tgt.get("ref") or {}).get("n")) == name \
                    and not okk:
                return False
    return True


_FLOWS = {}


def site_interval(view, node, index, enum=None):
    """interval of `index` at `node` (an expression of the nested view) under the flow-sensitive environment of that point."""
    fl = _FLOWS.get(id(view))
    if fl is None or fl[0] is not view:
        fl = (view, Flow(view, enum))
        _FLOWS.clear()
        _FLOWS[id(view)] = fl
    env = fl[1].at.get(id(node))
    if env is None:
        env = fl[1].at.get(id(cir.strip(node)))
    if env is None:
        return (None, None)     # unreachable or in a construct the flow does not enter: undecided
    return interval(index, env, enum)


def depends_on_scalar_param(view, index):
    """the index reads a scalar parameter of the function (directly or through a local initialised from one): its range is
    the caller's business and cannot be judged inside the function."""
    seen = set()
    work = [index]
    decls = {x.get("id"): x for x in cir.walk(view) if x.get("k") == "VarDecl"}
    while work:
        e = work.pop()
        for x in cir.walk(e):
            if x.get("k") != "DeclRefExpr":
                continue
            r = x.get("ref") or {}
            if r.get("k") == "ParmVarDecl" and "*" not in (r.get("t") or "") and "[" not in (r.get("t") or ""):
                return True
            if r.get("k") == "VarDecl" and r.get("id") not in seen and r.get("id") in decls:
                seen.add(r.get("id"))
                work.extend(c for c in cir.kids(decls[r.get("id")]) if c is not None)
    return False


def index_sites(unit, struct, enum=None, exclude=()):
    """Records dict(function, file, line, member, extent, index, lo, hi, via) for every subscript of a fixed-extent array member
    of `struct` in the functions of this TU (canonical views: helpers inlined, early exits nested)."""
    out = []
    tu_funcs = [n for n, fn in unit.funcs.items() if (fn.get("file") or unit.tu) == unit.tu]
    # quick filter: functions mentioning a member of the struct with array type
    for name in sorted(tu_funcs):
        fn = unit.funcs[name]
        hit = False
        for x in cir.walk(fn):
            if x.get("k") == "MemberExpr" and _fixed_extent(x.get("t")) is not None:
                c = cir.kids(x)
                b = cir.strip(c[0]) if c else None
                if b is not None and modref._struct_of(b.get("t")) == struct:
                    hit = True
                    break
        if not hit:
            continue
        try:
            view = norm.canon(unit, name, inline_helpers=True, propagate=False, nested=True, exclude=exclude)
        except AnalysisError:
            view = norm.nest(fn, fatal=True)
        par = {}
        for x in cir.walk(view):
            for c in cir.kids(x):
                if c is not None:
                    par[id(c)] = x
        for x in cir.walk(view):
            if x.get("k") != "MemberExpr" or _fixed_extent(x.get("t")) is None:
                continue
            c = cir.kids(x)
            b = cir.strip(c[0]) if c else None
            if b is None or modref._struct_of(b.get("t")) != struct:
                continue
            ext = _fixed_extent(x.get("t"))
            e, p = x, par.get(id(x))
            while p is not None and p.get("k") in cir.TRANSPARENT:
                e, p = p, par.get(id(p))
            rec = {"function": name, "file": fn.get("file") or unit.tu, "line": x.get("line") or fn.get("line"),
                   "member": x.get("n"), "extent": ext}
            if p is not None and p.get("k") == "ArraySubscriptExpr" and cir.kids(p)[0] is e:
                idx = cir.kids(p)[1]
                lo, hi = site_interval(view, p, idx, enum)
                out.append(dict(rec, index=cir.text(idx)[:100], lo=lo, hi=hi, via="subscript",
                                caller_contract=depends_on_scalar_param(view, idx)))
            elif p is not None and cir.is_call(p) and cir.kids(p)[0] is not e:
                callee = cir.callee(p)
                argi = [j for j, a in enumerate(cir.args(p)) if a is e]
                cf = unit.funcs.get(callee) if callee else None
                if cf is None or not argi or (cf.get("file") or unit.tu) != unit.tu:
                    out.append(dict(rec, index=None, lo=None, hi=None, via=f"pass:{callee}", callee=callee,
                                    argi=argi[0] if argi else None))
                    continue
                ps = cir.params(cf)
                if argi[0] >= len(ps):
                    out.append(dict(rec, index=None, lo=None, hi=None, via=f"pass:{callee}"))
                    continue
                sub = param_sites(unit, callee, argi[0], enum)
                if not sub:
                    out.append(dict(rec, index=None, lo=None, hi=None, via=f"pass:{callee}"))
                for r2 in sub:
                    out.append(dict(rec, function=f"{name}>{r2['function']}", index=r2["index"], lo=r2["lo"], hi=r2["hi"],
                                    via=r2["via"], line=r2["line"]))
            elif p is not None and p.get("k") == "UnaryExprOrTypeTraitExpr":
                continue        # sizeof(member)
            else:
                out.append(dict(rec, index=None, lo=None, hi=None, via=f"other:{(p or {}).get('k')}"))
    return out


def param_sites(unit, fname, argi, enum=None, depth=0):
    """Subscripts of pointer parameter `argi` of `fname` (a function of this unit), following passes of the parameter to other
    functions of the unit.  Records dict(function, line, index, lo, hi, via); a use that cannot be followed (pointer
    arithmetic, pass to a function outside the unit, alias) is a record with lo = hi = None."""
    cf = unit.funcs.get(fname)
    if cf is None or depth > 4:
        return [{"function": fname, "line": None, "index": None, "lo": None, "hi": None, "via": f"pass:{fname}"}]
    ps = cir.params(cf)
    if argi >= len(ps):
        return [{"function": fname, "line": cf.get("line"), "index": None, "lo": None, "hi": None, "via": f"pass:{fname}"}]
    pid = ps[argi].get("id")
    cview = norm.nest(cf, fatal=True)
    par = {}
    for x in cir.walk(cview):
        for c in cir.kids(x):
            if c is not None:
                par[id(c)] = x
    out = []
    for y in cir.walk(cview):
        if y.get("k") != "DeclRefExpr" or (y.get("ref") or {}).get("id") != pid:
            continue
        e, p = y, par.get(id(y))
        while p is not None and p.get("k") in cir.TRANSPARENT:
            e, p = p, par.get(id(p))
        if p is not None and p.get("k") == "ArraySubscriptExpr" and cir.kids(p)[0] is e:
            lo, hi = site_interval(cview, p, cir.kids(p)[1], enum)
            out.append({"function": fname, "line": p.get("line") or cf.get("line"), "index": cir.text(cir.kids(p)[1])[:100],
                        "lo": lo, "hi": hi, "via": f"param:{fname}",
                        "caller_contract": depends_on_scalar_param(cview, cir.kids(p)[1])})
        elif p is not None and cir.is_call(p) and cir.kids(p)[0] is not e:
            callee = cir.callee(p)
            ai = [j for j, a in enumerate(cir.args(p)) if a is e]
            if callee in unit.funcs and ai and callee != fname:
                for r2 in param_sites(unit, callee, ai[0], enum, depth + 1):
                    out.append(dict(r2, function=f"{fname}>{r2['function']}"))
            else:
                out.append({"function": fname, "line": p.get("line"), "index": None, "lo": None, "hi": None, "via": f"pass:{callee}"})
        elif p is not None and p.get("k") in ("IfStmt", "ConditionalOperator", "WhileStmt", "ForStmt") or \
                (p is not None and p.get("k") == "UnaryOperator" and p.get("op") == "!") or \
                (p is not None and p.get("k") == "BinaryOperator" and p.get("op") in ("&&", "||", "==", "!=")):
            continue            # null test of the pointer
        else:
            out.append({"function": fname, "line": (p or y).get("line"), "index": None, "lo": None, "hi": None,
                        "via": f"other:{(p or {}).get('k')}"})
    return out
