"""X-macro tables of include/mujoco/mjxmacro.h, expanded by the preprocessor.

A probe file redefines X / XMJV / XNV / XVEC so that every row becomes one marker line
`@ROW@ table @ arg1 @ arg2 ...` and runs `clang -E`.  The macro list is read from the
header itself (every `#define MJ...` that is not function-like plumbing).
"""
from __future__ import annotations

import os
import re
import subprocess

from .cfront import REPO, STUBS, AnalysisError, build_flags

_CACHE = {}


def tables(repo=REPO):
    """{macro_name: [tuple of row args (strings, whitespace-normalised)]}"""
    if repo in _CACHE:
        return _CACHE[repo]
    hdr = os.path.join(repo, "include", "mujoco", "mjxmacro.h")
    try:
        src = open(hdr).read()
    except OSError:
        raise AnalysisError("include/mujoco/mjxmacro.h not found")
    names = re.findall(r"^#define\s+(MJ[A-Z0-9_]+)\b(?!\()", src, re.M)
    names = [n for n in names if n not in ("MJ_M", "MJ_D")]
    # function-like table macros (MJMODEL_POINTERS_PREAMBLE(m)) are skipped
    probe = ["#include <mujoco/mjxmacro.h>",
             "#undef MJ_M", "#define MJ_M(n) m->n", "#undef MJ_D", "#define MJ_D(n) d->n",
             "#define X(...) @ROW@ X @ __VA_ARGS__ @END@",
             "#define XMJV(...) @ROW@ XMJV @ __VA_ARGS__ @END@",
             "#define XNV(...) @ROW@ XNV @ __VA_ARGS__ @END@",
             "#define XVEC(...) @ROW@ XVEC @ __VA_ARGS__ @END@"]
    for n in names:
        probe.append(f'@TABLE@ "{n}"')
        probe.append(n)
        probe.append("@ENDTABLE@")
    flags = [f for f in build_flags(repo)["c"] if f.startswith(("-D", "-I", "-std"))]
    p = subprocess.run(["clang", "-E", "-P", "-x", "c"] + flags + ["-"], input="\n".join(probe).encode(),
                       cwd=repo, capture_output=True)
    if p.returncode != 0:
        raise AnalysisError("preprocessing the X-macro probe failed: " + p.stderr.decode()[:1000])
    out = {}
    cur = None
    text = p.stdout.decode()
    for m in re.finditer(r'@TABLE@\s+"(\w+)"(.*?)@ENDTABLE@', text, re.S):
        name, body = m.group(1), m.group(2)
        rows = []
        for r in re.finditer(r"@ROW@\s*(\w+)\s*@(.*?)@END@", body, re.S):
            kind = r.group(1)
            args = _split_args(r.group(2))
            rows.append((kind,) + tuple(args))
        out[name] = rows
    if "MJMODEL_POINTERS" not in out or "MJDATA_POINTERS" not in out:
        raise AnalysisError("X-macro tables MJMODEL_POINTERS / MJDATA_POINTERS not found")
    _CACHE[repo] = out
    return out


def _split_args(s):
    args = []
    depth = 0
    cur = ""
    for ch in s:
        if ch == "," and depth == 0:
            args.append(cur)
            cur = ""
            continue
        if ch in "([":
            depth += 1
        elif ch in ")]":
            depth -= 1
        cur += ch
    args.append(cur)
    return [re.sub(r"\s+", "", a) if not re.search(r"[a-zA-Z_]\s+[a-zA-Z_]", a.strip()) else re.sub(r"\s+", " ", a.strip())
            for a in args]


def pointers(table, repo=REPO):
    """Rows of a pointer table as dicts(type,name,nr,nc,kind)."""
    rows = []
    for r in tables(repo).get(table, []):
        if len(r) >= 5:
            rows.append({"kind": r[0], "type": r[1], "name": r[2], "nr": r[3], "nc": r[4]})
    return rows


def sizes(table="MJMODEL_SIZES", repo=REPO):
    return [r[1] for r in tables(repo).get(table, [])]
