"""Field-level mod facts over struct pointers (mjData, mjModel, mjvScene, ...).

Per function, every event through which a field of a tracked struct can be modified:
  assign   p->f = ..            (also compound assignment, ++/--)
  elem     p->f[i] = .. / *p->f = .. / p->f[i].g = .. / p->f.g = ..
  pass     p->f (pointer/array field) passed to a parameter whose pointee is not const
  addr     &p->f or &p->f[i] passed / stored
  alias    T* v = p->f  with non-const pointee (later writes through v are not followed)
  memcpy   first argument of memcpy/memset/memmove
Reads are recorded as `read` when requested.  The base struct is taken from the type of the
base expression of the innermost MemberExpr chain (e.g. `mjData *`, `const mjModel *`).
"""
from __future__ import annotations

import re

from . import cir

WRITE_LIBC = {"memcpy": (0,), "memset": (0,), "memmove": (0,), "strcpy": (0,), "strncpy": (0,), "snprintf": (0,),
              "sprintf": (0,)}


def _struct_of(t):
    """'const mjData *' -> 'mjData' ; 'mjvScene *' -> 'mjvScene'; 'mjData' -> 'mjData'"""
    if not t:
        return None
    t = t.replace("const ", "").replace("struct ", "").replace("volatile ", "").strip()
    t = t.rstrip("*& ").strip()
    t = re.sub(r"\s*\*\s*(restrict|__restrict)?$", "", t).strip()
    return t.rstrip("_") if t else None


def root_field(n):
    """For an lvalue/pointer expression, the (struct, field, depth, base_text) of the outermost struct-pointer field
    it goes through: d->qpos[i] -> ('mjData','qpos',1,'d'); d->time -> ('mjData','time',0,'d');
    m->opt.timestep -> ('mjModel','opt',1,'m'); scn->geoms[k].pos[0] -> ('mjvScene','geoms',2,'scn')."""
    depth = 0
    n = cir.strip(n)
    last = None
    while n is not None:
        k = n.get("k")
        if k == "MemberExpr":
            c = cir.kids(n)
            base = cir.strip(c[0]) if c else None
            if n.get("arrow") and base is not None and base.get("k") in ("DeclRefExpr",):
                return _struct_of(base.get("t")), n.get("n"), depth, cir.text(base)
            if n.get("arrow") and base is not None:
                # p->a->b : continue to the root but remember this one
                last = (_struct_of(base.get("t")), n.get("n"), depth, cir.text(base))
                return last
            depth += 1
            n = base
            continue
        if k == "ArraySubscriptExpr":
            depth += 1
            n = cir.strip(cir.kids(n)[0])
            continue
        if k == "UnaryOperator" and n.get("op") == "*":
            depth += 1
            n = cir.strip(cir.kids(n)[0])
            continue
        if k == "UnaryOperator" and n.get("op") == "&":
            n = cir.strip(cir.kids(n)[0])
            continue
        if k == "BinaryOperator" and n.get("op") in ("+", "-"):
            n = cir.strip(cir.kids(n)[0])
            continue
        return None
    return None


def _param_types(fntype):
    """'void (mjtNum *, const mjtNum *, int)' -> ['mjtNum *','const mjtNum *','int']"""
    if not fntype or "(" not in fntype:
        return []
    inner = fntype[fntype.index("(") + 1: fntype.rindex(")")]
    out, depth, cur = [], 0, ""
    for ch in inner:
        if ch == "," and depth == 0:
            out.append(cur.strip())
            cur = ""
            continue
        if ch in "([":
            depth += 1
        elif ch in ")]":
            depth -= 1
        cur += ch
    if cur.strip():
        out.append(cur.strip())
    return out


def _const_pointee(t):
    if not t:
        return False
    t = t.strip()
    if "*" not in t and "[" not in t:
        return True  # by value
    head = t.split("*")[0]
    return "const" in head


def events(fn, structs=None, reads=False):
    """List of dict(kind, struct, field, base, line, callee?, argi?) for one function."""
    out = []

    def add(kind, rf, node, **kw):
        if rf is None or rf[0] is None:
            return
        if structs and rf[0] not in structs:
            return
        e = {"kind": kind, "struct": rf[0], "field": rf[1], "depth": rf[2], "base": rf[3], "line": node.get("line"),
             "pos": pos[0]}
        e.update(kw)
        out.append(e)

    pos = [0]       # preorder position of the node inside fn (execution order within straight-line code)
    for pos[0], n in enumerate(cir.walk(fn)):
        k = n.get("k")
        if (k == "BinaryOperator" and n.get("op") == "=") or k == "CompoundAssignOperator" or \
                (k == "UnaryOperator" and n.get("op") in ("++", "--")):
            lhs = cir.kids(n)[0]
            rf = root_field(lhs)
            if rf is not None:
                add("assign" if rf[2] == 0 else "elem", rf, n, op=n.get("op"))
        elif cir.is_call(n):
            name = cir.callee(n)
            ce = cir.callee_expr(n)
            ptypes = _param_types((ce.get("ref") or {}).get("t") if ce is not None and ce.get("k") == "DeclRefExpr" else
                                  (ce.get("t") if ce is not None else None))
            for i, a in enumerate(cir.args(n)):
                s = cir.strip(a)
                if s is None:
                    continue
                at = s.get("t") or ""
                is_ptr = "*" in at or "[" in at
                if s.get("k") == "UnaryOperator" and s.get("op") == "&":
                    rf = root_field(s)
                    pt = ptypes[i] if i < len(ptypes) else None
                    if rf is not None and not (pt and _const_pointee(pt)):
                        add("addr", rf, n, callee=name, argi=i)
                    continue
                if not is_ptr:
                    continue
                rf = root_field(s)
                if rf is None:
                    continue
                pt = ptypes[i] if i < len(ptypes) else None
                if name in WRITE_LIBC:
                    if i in WRITE_LIBC[name]:
                        add("pass", rf, n, callee=name, argi=i)
                    continue
                if pt is not None and _const_pointee(pt):
                    continue
                add("pass", rf, n, callee=name, argi=i)
        elif k == "VarDecl" and n.get("init"):
            t = n.get("t") or ""
            if "*" in t and not _const_pointee(t):
                init = [c for c in cir.kids(n) if c is not None]
                if init:
                    s = cir.strip(init[-1])
                    if s is not None and s.get("k") in ("MemberExpr", "BinaryOperator", "ArraySubscriptExpr", "UnaryOperator"):
                        rf = root_field(s)
                        st = (s.get("t") or "")
                        if rf is not None and ("*" in st or "[" in st or (s.get("k") == "UnaryOperator" and s.get("op") == "&")):
                            add("alias", rf, n, var=n.get("n"))
    if reads:
        for n in cir.walk(fn):
            if n.get("k") == "MemberExpr" and n.get("arrow"):
                c = cir.kids(n)
                base = cir.strip(c[0]) if c else None
                if base is not None:
                    st = _struct_of(base.get("t"))
                    if st and (not structs or st in structs):
                        out.append({"kind": "read", "struct": st, "field": n.get("n"), "depth": 0,
                                    "base": cir.text(base), "line": n.get("line")})
    return out


def unit_events(unit, structs=None, reads=False):
    """{function: {'file':..,'line':..,'static':..,'events':[...], 'calls':[names]}}"""
    structs = set(structs) if structs else None
    out = {}
    for name, fn in unit.funcs.items():
        ev = events(fn, structs, reads)
        calls = sorted({cir.callee(c) for c in cir.calls(fn) if cir.callee(c)})
        out[name] = {"file": fn.get("file") or unit.tu, "line": fn.get("line"),
                     "static": fn.get("storageClass") == "static", "events": ev, "calls": calls}
    return out
