"""All-paths structured exploration of a C function body with correlated pure predicates.

A *rule* supplies an abstract state (hashable) and transfer callbacks; the engine walks the
statement tree, splitting at branches, joining by set union, iterating loops to a fixpoint.
Path sensitivity (ESP-style): a branch condition that is a pure expression is remembered as
an assumption (text -> truth value) until one of its variables is assigned; a later test of
the same text follows only the consistent branch.  That is what makes

    if (!buffer) mj_markStack(d);  ...  if (!buffer) mj_freeStack(d);

verify.  Paths end at `return`, at calls that do not return (the repo's error handlers and
the expansion of mjERROR) and at the end of the body.
"""
from __future__ import annotations

from . import cir
from .cfront import AnalysisError

NORETURN = {"mju_error", "mju_error_v", "mju_error_i", "mju_error_s", "exit", "abort", "longjmp",
            "_exit", "__assert_fail", "__builtin_unreachable", "__builtin_trap", "quick_exit"}

MAX_STATES = 20000


def error_msg_vars(fn):
    """ids of local mjLogMessage variables initialised with .level = mjLOG_ERROR (mjERROR)."""
    out = set()
    for n in cir.walk(fn):
        if n.get("k") == "VarDecl" and n.get("init"):
            for x in cir.walk(n):
                if x.get("k") == "DeclRefExpr" and (x.get("ref") or {}).get("n") == "mjLOG_ERROR":
                    out.add(n.get("id"))
                    break
    return out


def is_noreturn_call(call, errvars):
    name = cir.callee(call)
    if name in NORETURN:
        return True
    if name == "mju_message":
        a = cir.args(call)
        if a:
            x = cir.strip(a[0])
            if x is not None and x.get("k") == "UnaryOperator" and x.get("op") == "&":
                y = cir.strip(cir.kids(x)[0])
                if y is not None and y.get("k") == "DeclRefExpr" and (y.get("ref") or {}).get("id") in errvars:
                    return True
    return False


def norm_cond(n):
    """(key, polarity, vars) for a pure condition, or None.

    !x, x == 0, x == NULL -> (x, False); x != 0, x -> (x, True).
    """
    n = cir.strip(n)
    if n is None or not cir.is_pure(n):
        return None
    pol = True
    while True:
        if n.get("k") == "UnaryOperator" and n.get("op") == "!":
            pol = not pol
            n = cir.strip(cir.kids(n)[0])
            continue
        if n.get("k") == "BinaryOperator" and n.get("op") in ("==", "!="):
            a, b = (cir.strip(x) for x in cir.kids(n))
            za = _is_zero(a)
            zb = _is_zero(b)
            if za != zb:
                if n.get("op") == "==":
                    pol = not pol
                n = b if za else a
                continue
        if n.get("k") == "CallExpr" and cir.callee(n) == "__builtin_expect":
            n = cir.strip(cir.args(n)[0])
            continue
        break
    return cir.text(n), pol, frozenset(cir.vars_in(n))


def _is_zero(n):
    if n is None:
        return False
    if n.get("k") == "IntegerLiteral" and str(n.get("v")) == "0":
        return True
    if n.get("k") in ("GNUNullExpr", "CXXNullPtrLiteralExpr"):
        return True
    return False


class Rule:
    """Base class of path rules.  States must be hashable."""

    def initial(self, fn):
        return ()

    def call(self, state, node, name, ctx):
        """Transfer over a call (after its arguments).  Return a state, a list of states,
        or None to end the path silently."""
        return state

    def assign(self, state, node, ctx):
        """Transfer over an assignment / compound assignment / ++ / -- / VarDecl with init."""
        return state

    def use(self, state, node, ctx):
        """Called for every expression node kind in `self.use_kinds` (post-order)."""
        return state

    use_kinds = frozenset()

    def branch(self, state, cond, taken, ctx):
        """Refine a state on a branch edge; return None to drop (infeasible)."""
        return state

    def ret(self, state, node, ctx):
        """A `return` statement (node) is reached."""

    def fallthrough(self, state, ctx):
        """End of the function body reached without return."""

    def noreturn(self, state, node, ctx):
        """A non-returning call ends the path."""

    def loop_enter(self, state, node, ctx):
        return state

    def loop_exit(self, state, node, ctx):
        return state


class Ctx:
    def __init__(self, unit, fn):
        self.unit = unit
        self.fn = fn
        self.errvars = error_msg_vars(fn)
        self.reports = []
        self.file = fn.get("file") or (unit.tu if unit else "?")

    def where(self, node):
        return f"{node.get('file') or self.file}:{node.get('line')}"

    def report(self, node, msg, **kw):
        r = {"file": node.get("file") or self.file, "line": node.get("line"),
             "function": self.fn.get("n"), "msg": msg}
        r.update(kw)
        if r not in self.reports:
            self.reports.append(r)


class Explorer:
    """Runs one rule over one function."""

    def __init__(self, rule, unit, fn):
        self.rule = rule
        self.ctx = Ctx(unit, fn)
        self.fn = fn

    # a configuration is (state, env) with env a frozenset of (key, polarity, vars)
    def run(self):
        b = cir.body(self.fn)
        if b is None:
            return self.ctx
        start = {(self.rule.initial(self.fn), frozenset())}
        out = self.stmt(b, start)
        for st, env in out["next"]:
            self.rule.fallthrough(st, self.ctx)
        if out["break"] or out["continue"]:
            raise AnalysisError(f"break/continue outside loop in {self.fn.get('n')}")
        return self.ctx

    # ------------------------------------------------------------------ statements
    @staticmethod
    def _res(nxt=None):
        return {"next": set(nxt or ()), "break": set(), "continue": set()}

    @staticmethod
    def _merge(C):
        """Join: configurations with the same rule state keep only the predicates they share."""
        if len(C) < 2:
            return C
        d = {}
        for st, env in C:
            if st in d:
                d[st] = d[st] & env
            else:
                d[st] = env
        return {(st, env) for st, env in d.items()}

    def _check(self, s):
        if len(s) > MAX_STATES:
            raise AnalysisError(f"state explosion in {self.fn.get('n')} ({len(s)} configurations)")

    def stmt(self, n, S):
        if n is None or not S:
            return self._res(S)
        k = n.get("k")
        m = getattr(self, "s_" + k, None)
        if m is not None:
            return m(n, S)
        if k.endswith("Stmt") and k not in ("DeclStmt", "NullStmt"):
            raise AnalysisError(f"unsupported statement kind {k} in {self.fn.get('n')} at {self.ctx.where(n)}")
        # expression statement
        return self._res(self.expr(n, S))

    def s_NullStmt(self, n, S):
        return self._res(S)

    def s_CompoundStmt(self, n, S):
        res = self._res()
        cur = set(S)
        for c in cir.kids(n):
            if not cur:
                break
            r = self.stmt(c, cur)
            res["break"] |= r["break"]
            res["continue"] |= r["continue"]
            cur = r["next"]
        res["next"] = cur
        return res

    def s_DeclStmt(self, n, S):
        cur = set(S)
        for d in cir.kids(n):
            if d is None:
                continue
            if d.get("k") == "VarDecl":
                init = [c for c in cir.kids(d) if c is not None and not c.get("k", "").endswith("Attr")]
                if init:
                    cur = self.expr(init[-1], cur)
                    nxt = set()
                    for st, env in cur:
                        env = self._invalidate(env, d.get("n"))
                        r = self.rule.assign(st, d, self.ctx)
                        for s2 in self._many(r):
                            nxt.add((s2, env))
                    cur = nxt
        return self._res(cur)

    def s_ReturnStmt(self, n, S):
        c = [x for x in cir.kids(n) if x is not None]
        cur = self.expr(c[0], S) if c else S
        for st, env in cur:
            self.rule.ret(st, n, self.ctx)
        return self._res()

    def s_IfStmt(self, n, S):
        c = list(cir.kids(n))
        # [init?] [var?] cond then [else]
        idx = 0
        if n.get("hasInit"):
            r = self.stmt(c[0], S)
            S = r["next"]
            idx = 1
        if n.get("hasVar"):
            r = self.stmt(c[idx], S)
            S = r["next"]
            idx += 1
        cond = c[idx]
        then = c[idx + 1] if len(c) > idx + 1 else None
        els = c[idx + 2] if len(c) > idx + 2 else None
        res = self._res()
        for cfg in S:
            before = {e[0] for e in cfg[1]}
            T, F = self.cond(cond, {cfg})
            r1 = self.stmt(then, T)
            r2 = self.stmt(els, F) if els is not None else self._res(F)
            same = all({c[0] for c in r1[key]} == {c[0] for c in r2[key]} for key in ("next", "break", "continue"))
            for r in (r1, r2):
                for key in ("next", "break", "continue"):
                    if same:
                        # relevance: the property state does not depend on this predicate, forget it
                        res[key] |= {(st, frozenset(e for e in env if e[0] in before)) for st, env in r[key]}
                    else:
                        res[key] |= r[key]
        for key in ("next", "break", "continue"):
            res[key] = self._merge(res[key])
        self._check(res["next"])
        return res

    def _loop(self, n, S, init, cond, inc, body, do_first=False):
        if init is not None:
            S = self.stmt(init, S)["next"]
        S = {(self.rule.loop_enter(st, n, self.ctx), env) for st, env in S}
        exits = set()
        seen = set()
        work = set(S)
        first = True
        while work:
            seen |= work
            self._check(seen)
            if do_first and first:
                T, F = work, set()
            elif cond is not None:
                T, F = self.cond(cond, work)
            else:
                T, F = work, set()
            first = False
            exits |= F
            # variables assigned in the loop invalidate assumptions lazily (via assign)
            r = self.stmt(body, T)
            exits |= r["break"]
            after = r["next"] | r["continue"]
            if inc is not None:
                after = self.expr(inc, after)
            if do_first and cond is not None:
                T2, F2 = self.cond(cond, after)
                exits |= F2
                after = T2
            work = after - seen
        return self._res({(self.rule.loop_exit(st, n, self.ctx), env) for st, env in exits})

    def s_ForStmt(self, n, S):
        c = list(cir.kids(n)) + [None] * 5
        init, _var, cond, inc, body = c[0], c[1], c[2], c[3], c[4]
        return self._loop(n, S, init, cond, inc, body)

    def s_WhileStmt(self, n, S):
        c = [x for x in cir.kids(n)]
        return self._loop(n, S, None, c[0], None, c[-1])

    def s_DoStmt(self, n, S):
        c = list(cir.kids(n))
        return self._loop(n, S, None, c[1], None, c[0], do_first=True)

    def s_CXXForRangeStmt(self, n, S):
        c = list(cir.kids(n))
        # evaluate the range initialiser once, then body 0..n times
        body = c[-1]
        for pre in c[:-1]:
            if pre is not None and pre.get("k") == "DeclStmt":
                S = self.stmt(pre, S)["next"]
        return self._loop(n, S, None, None, None, body) if False else self._loop_nondet(n, S, body)

    def _loop_nondet(self, n, S, body):
        exits = set(S)
        seen = set()
        work = set(S)
        while work:
            seen |= work
            self._check(seen)
            r = self.stmt(body, work)
            exits |= r["break"]
            after = r["next"] | r["continue"]
            exits |= after
            work = after - seen
        return self._res(exits)

    def s_BreakStmt(self, n, S):
        r = self._res()
        r["break"] = set(S)
        return r

    def s_ContinueStmt(self, n, S):
        r = self._res()
        r["continue"] = set(S)
        return r

    def s_GotoStmt(self, n, S):
        raise AnalysisError(f"goto in {self.fn.get('n')} at {self.ctx.where(n)}: not supported by the path engine")

    def s_LabelStmt(self, n, S):
        return self.stmt(cir.kids(n)[-1], S)

    def s_AttributedStmt(self, n, S):
        c = [x for x in cir.kids(n) if x is not None and not x.get("k", "").endswith("Attr")]
        return self.stmt(c[-1], S) if c else self._res(S)

    def s_SwitchStmt(self, n, S):
        c = [x for x in cir.kids(n) if x is not None]
        cond, body = c[0], c[-1]
        S = self.expr(cond, S)
        # flatten labels
        flat = []

        def add(st):
            if st is None:
                return
            if st.get("k") in ("CaseStmt", "DefaultStmt"):
                flat.append(("label", st))
                sub = cir.kids(st)[-1] if cir.kids(st) else None
                add(sub)
            else:
                flat.append(("stmt", st))
        if body.get("k") == "CompoundStmt":
            for st in cir.kids(body):
                add(st)
        else:
            add(body)
        has_default = any(t == "label" and s.get("k") == "DefaultStmt" for t, s in flat)
        res = self._res()
        active = set()
        pure_subject = cir.is_pure(cond)
        all_labels = [cir.kids(st)[0] for t, st in flat if t == "label" and st.get("k") == "CaseStmt" and cir.kids(st)]

        def eq(lab):
            return {"k": "BinaryOperator", "op": "==", "line": lab.get("line"), "t": "int", "i": [cond, lab]}

        def entering(label_stmt):
            """states that jump to this label: refined by subject == label (case) or by subject != every label (default);
            the assumption is kept only for the rule's branch callback, not as a path predicate (fallthrough mixes labels)"""
            if not pure_subject:
                return set(S)
            out = set()
            for cfg in S:
                before = {e[0] for e in cfg[1]}
                if label_stmt.get("k") == "CaseStmt" and cir.kids(label_stmt):
                    T, _F = self.cond(eq(cir.kids(label_stmt)[0]), {cfg})
                    cur = T
                else:
                    cur = {cfg}
                    for lab in all_labels:
                        _T, cur = self.cond(eq(lab), cur)
                        if not cur:
                            break
                for st, env in cur:
                    out.add((st, frozenset(e for e in env if e[0] in before)))
            return out
        for t, st in flat:
            if t == "label":
                active |= entering(st)
            else:
                if not active:
                    continue
                r = self.stmt(st, active)
                res["next"] |= r["break"]
                res["continue"] |= r["continue"]
                active = self._merge(r["next"])
        res["next"] |= active
        if not has_default:
            res["next"] |= entering({"k": "DefaultStmt"})
        res["next"] = self._merge(res["next"])
        self._check(res["next"])
        return res

    def s_CXXTryStmt(self, n, S):
        c = list(cir.kids(n))
        r = self.stmt(c[0], S)
        res = self._res(r["next"])
        res["break"] |= r["break"]
        res["continue"] |= r["continue"]
        # handlers may start from any state reached inside the try block: approximate by
        # entry and exit states of the block
        for h in c[1:]:
            hb = cir.kids(h)[-1] if cir.kids(h) else None
            rh = self.stmt(hb, set(S) | r["next"])
            for key in ("next", "break", "continue"):
                res[key] |= rh[key]
        return res

    def s_CXXCatchStmt(self, n, S):
        return self.stmt(cir.kids(n)[-1], S)

    def s_GCCAsmStmt(self, n, S):
        return self._res(S)

    # ------------------------------------------------------------------ expressions
    def _many(self, r):
        if r is None:
            return ()
        if isinstance(r, (list, set)):
            return r
        return (r,)

    def _invalidate(self, env, var):
        if var is None or not env:
            return env
        return frozenset(e for e in env if var not in e[2])

    def expr(self, n, S):
        """Evaluate an expression for effects; returns the set of configurations after."""
        if n is None or not S:
            return S
        k = n.get("k")
        if k in ("BinaryOperator",) and n.get("op") in ("&&", "||"):
            out = set()
            for cfg in S:
                before = {e[0] for e in cfg[1]}
                T, F = self.cond(n, {cfg})
                for st, env in T | F:
                    out.add((st, frozenset(e for e in env if e[0] in before)))
            return out
        if k == "ConditionalOperator":
            c = cir.kids(n)
            out = set()
            for cfg in S:
                before = {e[0] for e in cfg[1]}
                T, F = self.cond(c[0], {cfg})
                for st, env in self.expr(c[1], T) | self.expr(c[2], F):
                    out.add((st, frozenset(e for e in env if e[0] in before)))
            return out
        if k == "StmtExpr":
            return self.stmt(cir.kids(n)[0], S)["next"]
        if k == "LambdaExpr":
            return S  # bodies of lambdas are separate functions
        if k in ("UnaryExprOrTypeTraitExpr",):
            return S  # unevaluated operand
        cur = S
        ck = cir.kids(n)
        if cir.is_call(n):
            # callee expression first (could contain calls), then args
            for c in ck:
                cur = self.expr(c, cur)
            name = cir.callee(n)
            nxt = set()
            noret = is_noreturn_call(n, self.ctx.errvars)
            for st, env in cur:
                r = self.rule.call(st, n, name, self.ctx)
                for s2 in self._many(r):
                    if noret:
                        self.rule.noreturn(s2, n, self.ctx)
                    else:
                        # &x passed: x may change
                        e2 = env
                        if env:
                            for a in cir.args(n):
                                a = cir.strip(a)
                                if a is not None and a.get("k") == "UnaryOperator" and a.get("op") == "&":
                                    e2 = self._invalidate(e2, cir.base_var(a))
                        nxt.add((s2, e2))
            return nxt
        for c in ck:
            cur = self.expr(c, cur)
        is_assign = (k == "BinaryOperator" and n.get("op") == "=") or k == "CompoundAssignOperator" or \
                    (k == "UnaryOperator" and n.get("op") in ("++", "--"))
        if is_assign:
            nxt = set()
            tgt = cir.strip(ck[0])
            var = None
            if tgt is not None and tgt.get("k") == "DeclRefExpr":
                var = (tgt.get("ref") or {}).get("n")
            ttext = cir.text(tgt) if tgt is not None else None
            for st, env in cur:
                if var is not None:
                    env = self._invalidate(env, var)
                elif ttext and env:
                    env = frozenset(e for e in env if ttext not in e[0])
                r = self.rule.assign(st, n, self.ctx)
                for s2 in self._many(r):
                    nxt.add((s2, env))
            return nxt
        if k in self.rule.use_kinds:
            nxt = set()
            for st, env in cur:
                r = self.rule.use(st, n, self.ctx)
                for s2 in self._many(r):
                    nxt.add((s2, env))
            return nxt
        return cur

    def cond(self, n, S):
        """Evaluate a condition; returns (true_configs, false_configs)."""
        if not S:
            return set(), set()
        s = cir.strip(n, casts=True)
        if s is None:
            return set(S), set(S)
        k = s.get("k")
        if k == "BinaryOperator" and s.get("op") == "&&":
            a, b = cir.kids(s)
            T1, F1 = self.cond(a, S)
            T2, F2 = self.cond(b, T1)
            return T2, F1 | F2
        if k == "BinaryOperator" and s.get("op") == "||":
            a, b = cir.kids(s)
            T1, F1 = self.cond(a, S)
            T2, F2 = self.cond(b, F1)
            return T1 | T2, F2
        if k == "UnaryOperator" and s.get("op") == "!":
            T, F = self.cond(cir.kids(s)[0], S)
            return F, T
        if k == "CallExpr" and cir.callee(s) == "__builtin_expect":
            return self.cond(cir.args(s)[0], S)
        if k == "IntegerLiteral":
            return (set(S), set()) if str(s.get("v")) != "0" else (set(), set(S))
        if k == "CXXBoolLiteralExpr":
            return (set(S), set()) if s.get("v") else (set(), set(S))
        nc = norm_cond(s)
        cur = self.expr(s, S)
        T, F = set(), set()
        for st, env in cur:
            known = None
            if nc is not None:
                key, pol, vs = nc
                for e in env:
                    if e[0] == key:
                        known = e[1] if pol else (not e[1])
                        break
            for taken in (True, False):
                if known is not None and known != taken:
                    continue
                st2 = self.rule.branch(st, s, taken, self.ctx)
                if st2 is None:
                    continue
                env2 = env
                if nc is not None and known is None:
                    key, pol, vs = nc
                    env2 = env | {(key, taken if pol else (not taken), vs)}
                (T if taken else F).add((st2, env2))
        return T, F


def explore(rule, unit, fn):
    return Explorer(rule, unit, fn).run()
