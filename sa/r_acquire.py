"""R-ACQUIRE: bounded slot arrays of mjvScene (geoms / lights) — producer shape, ownership, acquire/release typestate.

Everything is derived from the clang AST of the engine TUs; only the property's anchor (`acquireGeom`) is a name.

  shape_acquire   all paths of a slot producer: a NULL return only where `P->ngeom >= P->maxgeom` is known and
                  `P->status` is known non-zero; the warning only where `P->status` is known zero (once); a non-NULL
                  return only where `P->ngeom < P->maxgeom` is known and the value is the current slot
                  `P->geoms + P->ngeom`
  shape_release   all paths of every function that increments `P->ngeom`: the increment (by one, once) only where
                  `*G == P->geoms + P->ngeom` is known (the other branch does not reach it), and `*G` is nulled
  scene_access    every syntactic access to the tracked mjvScene fields with its context (store / element store /
                  alias / pass / address / read): the input of R-WHO-WRITES
  pairing         typestate per pointer variable over all paths of every caller: Idle -acquire-> U -test-> H|N,
                  H -release-> R;  release needs H (never U, N, R or Idle) on every path, so a pointer is released at most
                  once;  a held slot that is not released on some path is *abandoned* (legal: the count is not advanced
                  and the next acquire re-initialises the slot — the `if (alpha == 0) continue;` idiom), but an acquire
                  site from which no path reaches a release loses its geom on every execution
  lights          the same bound for `P->lights`: an alias `P->lights + P->nlight` is formed only where
                  `P->nlight < K` (K <= declared extent) is known on the path
"""
from __future__ import annotations

import re

from . import cir, modref, paths
from .cfront import AnalysisError

SCENE = "mjvScene"
WARN_CALLS = {"mju_warning", "mju_warning_i", "mju_warning_s", "mj_warning"}


# ----------------------------------------------------------------------------------------------- small helpers

def _is_null(n):
    n = cir.strip(n)
    return n is not None and (n.get("k") in ("GNUNullExpr", "CXXNullPtrLiteralExpr") or
                              (n.get("k") == "IntegerLiteral" and str(n.get("v")) == "0"))


def _int_lit(n):
    n = cir.strip(n)
    if n is not None and n.get("k") == "IntegerLiteral":
        try:
            return int(str(n.get("v")), 0)
        except ValueError:
            return None
    return None


def scene_param(fn):
    for p in cir.params(fn):
        if modref._struct_of(p.get("t")) == SCENE and "*" in (p.get("t") or ""):
            return p.get("n")
    return None


def param_of_type(fn, pred):
    for i, p in enumerate(cir.params(fn)):
        if pred((p.get("t") or "").replace(" ", "")):
            return i, p.get("n")
    return None, None


def slot_texts(P, arr="geoms", cnt="ngeom"):
    return {f"{P}->{arr} + {P}->{cnt}", f"&{P}->{arr}[{P}->{cnt}]", f"{P}->{cnt} + {P}->{arr}"}


def _cmp(cond):
    """(lhs_text, op, rhs_text) of a relational BinaryOperator, else None."""
    c = cir.strip(cond)
    if c is not None and c.get("k") == "BinaryOperator" and c.get("op") in ("<", "<=", ">", ">=", "==", "!="):
        a, b = cir.kids(c)
        return cir.text(a), c.get("op"), cir.text(b), a, b
    return None


def capacity_branch(cond, taken, cnt_text, cap_text=None):
    """What a branch on `cond` tells about  cnt < cap :  'ok' (cnt < cap), 'full' (cnt >= cap) or None.
    With cap_text None the capacity is an integer literal and ('ok', K) / ('full', K) is returned."""
    c = _cmp(cond)
    if c is None:
        return None
    a, op, b, an, bn = c
    if a == cnt_text:
        other, on = b, bn
    elif b == cnt_text:
        other, on = a, an
        op = {"<": ">", ">": "<", "<=": ">=", ">=": "<=", "==": "==", "!=": "!="}[op]
    else:
        return None
    if cap_text is not None:
        if other != cap_text:
            return None
        k = None
    else:
        k = _int_lit(on)
        if k is None:
            return None
    # now: cnt <op> cap
    if op == "<":
        r = "ok" if taken else "full"
    elif op == ">=":
        r = "full" if taken else "ok"
    else:
        return None       # >, <=, ==, != do not decide cnt < cap on both edges; they establish nothing
    return r if k is None else (r, k)


# ----------------------------------------------------------------------------------------------- producer shape

class AcquireShape(paths.Rule):
    """state: (cap, status)  cap in '?','ok','full' ; status in '?','zero','nz'"""

    def __init__(self, P, arr="geoms", cnt="ngeom", cap="maxgeom", status="status"):
        self.P = P
        self.cnt = f"{P}->{cnt}"
        self.cap = f"{P}->{cap}"
        self.status = f"{P}->{status}"
        self.arr = f"{P}->{arr}"
        self.slots = slot_texts(P, arr, cnt)

    def initial(self, fn):
        return ("?", "?")

    def branch(self, st, cond, taken, ctx):
        r = capacity_branch(cond, taken, self.cnt, self.cap)
        if r is not None:
            return (r, st[1])
        nc = paths.norm_cond(cond)
        if nc is not None and nc[0] == self.status:
            nz = taken if nc[1] else (not taken)
            return (st[0], "nz" if nz else "zero")
        return st

    def assign(self, st, node, ctx):
        if node.get("k") == "VarDecl":
            return st
        lhs = cir.text(cir.kids(node)[0])
        if lhs == self.status:
            v = None
            if node.get("k") == "BinaryOperator" and node.get("op") == "=":
                v = _int_lit(cir.kids(node)[1])
            ctx.status_writes += 1
            return (st[0], "?" if v is None else ("nz" if v != 0 else "zero"))
        if lhs in (self.cnt, self.cap, self.arr):
            ctx.report(node, f"the slot producer writes {lhs} (only the release function and the reset may)", kind="A-mod")
            return ("?", st[1])
        return st

    def call(self, st, node, name, ctx):
        if name in WARN_CALLS:
            ctx.warns += 1
            if st[0] != "full":
                ctx.report(node, "overflow warning reached on a path where the geom buffer is not known to be full",
                           kind="A-warn")
            if st[1] != "zero":
                ctx.report(node, f"overflow warning is not guarded by `!{self.status}`: it would repeat on every failed "
                           f"acquisition instead of once", kind="A-once")
        return st

    def ret(self, st, node, ctx):
        c = [x for x in cir.kids(node) if x is not None]
        if not c:
            ctx.report(node, "slot producer returns no value", kind="A-ret")
            return
        if _is_null(c[0]):
            ctx.null_returns += 1
            if st[0] != "full":
                ctx.report(node, f"NULL is returned on a path where `{self.cnt} >= {self.cap}` is not known to hold "
                           f"(the failure return is not dominated by the capacity comparison)", kind="A-null")
            if st[1] != "nz":
                ctx.report(node, f"NULL is returned on a path where {self.status} was not set: the overflow is not reported "
                           f"through the scene status", kind="A-status")
            return
        ctx.slot_returns += 1
        if st[0] != "ok":
            ctx.report(node, f"a geom slot is returned on a path where `{self.cnt} < {self.cap}` is not known to hold: the "
                       f"slot may lie beyond the scene capacity", kind="A-cap")
        r = cir.strip(c[0])
        txt = cir.text(r)
        if txt not in self.slots:
            # a local initialised once with the current slot
            ok = False
            if r is not None and r.get("k") == "DeclRefExpr":
                rid = (r.get("ref") or {}).get("id")
                decl = ctx.decls.get(rid)
                if decl is not None and ctx.assign_count.get(rid, 0) == 0:
                    init = [x for x in cir.kids(decl) if x is not None and not x.get("k", "").endswith("Attr")]
                    ok = bool(init) and cir.text(init[-1]) in self.slots
            if not ok:
                ctx.report(node, f"the returned pointer `{txt}` is not the current slot `{self.arr} + {self.cnt}`", kind="A-slot")

    def fallthrough(self, st, ctx):
        ctx.report(ctx.fn, "slot producer can end without returning a value", kind="A-ret")


def _local_decls(fn):
    decls, count = {}, {}
    for n in cir.walk(fn):
        if n.get("k") in ("VarDecl", "ParmVarDecl"):
            decls[n.get("id")] = n
    for n in cir.walk(fn):
        k = n.get("k")
        if (k == "BinaryOperator" and n.get("op") == "=") or k == "CompoundAssignOperator" or \
                (k == "UnaryOperator" and n.get("op") in ("++", "--")):
            t = cir.strip(cir.kids(n)[0])
            if t is not None and t.get("k") == "DeclRefExpr":
                rid = (t.get("ref") or {}).get("id")
                count[rid] = count.get(rid, 0) + 1
        if k == "UnaryOperator" and n.get("op") == "&":
            t = cir.strip(cir.kids(n)[0])
            if t is not None and t.get("k") == "DeclRefExpr":
                rid = (t.get("ref") or {}).get("id")
                count[rid] = count.get(rid, 0) + 1     # address taken: may be written elsewhere
    return decls, count


def shape_acquire(unit, name, arr="geoms", cnt="ngeom", cap="maxgeom", status="status"):
    fn = unit.funcs.get(name)
    if fn is None:
        raise AnalysisError(f"slot producer {name} not found in {unit.tu}")
    P = scene_param(fn)
    if P is None:
        raise AnalysisError(f"{name}: no mjvScene* parameter")
    rule = AcquireShape(P, arr, cnt, cap, status)
    ex = paths.Explorer(rule, unit, fn)
    ctx = ex.ctx
    ctx.null_returns = ctx.slot_returns = ctx.warns = ctx.status_writes = 0
    ctx.decls, ctx.assign_count = _local_decls(fn)
    ex.run()
    return {"function": name, "file": fn.get("file") or unit.tu, "line": fn.get("line"), "scene": P,
            "null_returns": ctx.null_returns, "slot_returns": ctx.slot_returns, "warns": ctx.warns,
            "status_writes": ctx.status_writes, "reports": ctx.reports}


# ----------------------------------------------------------------------------------------------- release shape

class ReleaseShape(paths.Rule):
    """state: (checked, increments, nulled)"""

    def __init__(self, P, G, arr="geoms", cnt="ngeom"):
        self.P, self.G = P, G
        self.cnt = f"{P}->{cnt}"
        self.arr = f"{P}->{arr}"
        self.slots = slot_texts(P, arr, cnt)
        self.deref = {f"*{G}", f"{G}[0]"}

    def initial(self, fn):
        return (False, 0, False)

    def branch(self, st, cond, taken, ctx):
        c = _cmp(cond)
        if c is None or c[1] not in ("==", "!="):
            return st
        a, op, b = c[0], c[1], c[2]
        if (a in self.deref and b in self.slots) or (b in self.deref and a in self.slots):
            ctx.checks += 1
            equal = taken if op == "==" else (not taken)
            return (equal, st[1], st[2])
        return st

    def assign(self, st, node, ctx):
        if node.get("k") == "VarDecl":
            return st
        k = node.get("k")
        lhs = cir.text(cir.kids(node)[0])
        if lhs == self.cnt:
            by_one = (k == "UnaryOperator" and node.get("op") == "++") or \
                     (k == "CompoundAssignOperator" and node.get("op") == "+=" and _int_lit(cir.kids(node)[1]) == 1) or \
                     (k == "BinaryOperator" and node.get("op") == "=" and
                      cir.text(cir.kids(node)[1]) in (f"{self.cnt} + 1", f"1 + {self.cnt}"))
            if not by_one:
                ctx.report(node, f"{self.cnt} is changed by something other than an increment by one", kind="R-step")
            if not st[0]:
                ctx.report(node, f"{self.cnt} is incremented on a path where `*{self.G} == {self.arr} + {self.cnt}` is not known "
                           f"to hold: a pointer that is not the current slot is not rejected", kind="R-check")
            # the slot moved: the equality no longer holds
            return (False, min(st[1] + 1, 2), st[2])
        if lhs in self.deref:
            if k == "BinaryOperator" and node.get("op") == "=" and _is_null(cir.kids(node)[1]):
                return (st[0], st[1], True)
            return (False, st[1], False)
        if lhs in (self.G, self.arr):
            return (False, st[1], st[2])
        return st

    def _exit(self, st, node, ctx):
        checked, inc, nulled = st
        ctx.exits += 1
        if inc == 0:
            return          # rejected or nothing done
        if inc > 1:
            ctx.report(node, f"{self.cnt} can be incremented more than once per release", kind="R-step")
        if not nulled:
            ctx.report(node, f"the released pointer `*{self.G}` is not set to NULL: a second release of the same pointer would "
                       f"not be rejected", kind="R-null")

    def ret(self, st, node, ctx):
        self._exit(st, node, ctx)

    def fallthrough(self, st, ctx):
        self._exit(st, ctx.fn, ctx)


def increments(fn, cnt="ngeom"):
    """Nodes of fn that modify <scene>->cnt other than by `= 0`."""
    out = []
    for n in cir.walk(fn):
        k = n.get("k")
        if (k == "BinaryOperator" and n.get("op") == "=") or k == "CompoundAssignOperator" or \
                (k == "UnaryOperator" and n.get("op") in ("++", "--")):
            rf = modref.root_field(cir.kids(n)[0])
            if rf is not None and rf[0] == SCENE and rf[1] == cnt and rf[2] == 0:
                if k == "BinaryOperator" and _int_lit(cir.kids(n)[1]) == 0:
                    continue
                out.append(n)
    return out


def shape_release(unit, name, arr="geoms", cnt="ngeom"):
    fn = unit.funcs[name]
    P = scene_param(fn)
    gi, G = param_of_type(fn, lambda t: t.endswith("mjvGeom**"))
    res = {"function": name, "file": fn.get("file") or unit.tu, "line": fn.get("line"), "scene": P, "geom": G,
           "geom_index": gi, "reports": [], "checks": 0, "exits": 0}
    if P is None or G is None:
        res["reports"].append({"file": res["file"], "line": fn.get("line"), "function": name, "kind": "R-sig",
                               "msg": f"{name} increments the scene's {cnt} but has no (mjvGeom**, mjvScene*) parameters: "
                                      f"it cannot reject a pointer that is not the current slot"})
        return res
    rule = ReleaseShape(P, G, arr, cnt)
    ex = paths.Explorer(rule, unit, fn)
    ex.ctx.checks = ex.ctx.exits = 0
    ex.run()
    res["reports"] = ex.ctx.reports
    res["checks"] = ex.ctx.checks
    res["exits"] = ex.ctx.exits
    return res


# ----------------------------------------------------------------------------------------------- accesses (who writes)

_CHAIN = ("ArraySubscriptExpr", "MemberExpr")


def scene_access(unit, fields=("ngeom", "maxgeom", "geoms", "status", "nlight", "lights")):
    """All accesses to the given mjvScene fields in this TU:
    dict(function, file, line, field, base, depth, ctx, op, rhs, expr, var, callee, const)"""
    fields = set(fields)
    out = []

    def visit(fname, ffile, n, parents):
        if n is None:
            return
        if n.get("k") == "MemberExpr" and n.get("arrow") and n.get("n") in fields:
            c = cir.kids(n)
            base = cir.strip(c[0]) if c else None
            if base is not None and modref._struct_of(base.get("t")) == SCENE:
                out.append(_classify(fname, ffile, n, parents, cir.text(base)))
        c = n.get("i")
        if c:
            parents.append(n)
            for x in c:
                visit(fname, ffile, x, parents)
            parents.pop()

    for fname, fn in unit.funcs.items():
        visit(fname, fn.get("file") or unit.tu, fn, [])
    return out


def _classify(fname, ffile, m, parents, base):
    """Climb from the MemberExpr to the maximal access path and look at its context."""
    e = m
    depth = 0
    addr = False
    i = len(parents) - 1
    while i >= 0:
        p = parents[i]
        k = p.get("k")
        kids = cir.kids(p)
        et = e.get("t") or ""
        if k in cir.TRANSPARENT:
            e = p
        elif k == "ArraySubscriptExpr" and kids and kids[0] is e:
            e = p
            depth += 1
        elif k == "MemberExpr":
            e = p
            depth += 1
        elif k == "UnaryOperator" and p.get("op") == "*":
            e = p
            depth += 1
        elif k == "UnaryOperator" and p.get("op") == "&":
            e = p
            addr = True
            depth = max(depth - 1, 0)
        elif k == "BinaryOperator" and p.get("op") in ("+", "-") and ("*" in et or "[" in et) and "*" in (p.get("t") or ""):
            e = p
        else:
            break
        i -= 1
    return _ctx(fname, ffile, m, e, parents[:i + 1], base, depth, addr)


def _contains(a, b):
    if a is b:
        return True
    for x in cir.walk(a):
        if x is b:
            return True
    return False


def _ctx(fname, ffile, m, e, parents, base, depth, addr):
    r = {"function": fname, "file": ffile, "line": m.get("line"), "field": m.get("n"), "base": base, "depth": depth,
         "ctx": "read", "expr": cir.text(e), "addr": addr}
    p = parents[-1] if parents else None
    if p is None:
        return r
    k = p.get("k")
    kids = cir.kids(p)
    et = e.get("t") or ""
    is_ptr = "*" in et or "[" in et or addr
    if ((k == "BinaryOperator" and p.get("op") == "=") or k == "CompoundAssignOperator") and kids and kids[0] is e \
            and not addr:
        r["ctx"] = "store"
        r["op"] = p.get("op")
        r["rhs"] = cir.text(kids[1])
        r["rhs_node_null"] = _is_null(kids[1])
        r["rhs_lit"] = _int_lit(kids[1])
        return r
    if k == "UnaryOperator" and p.get("op") in ("++", "--") and not addr:
        r["ctx"] = "store"
        r["op"] = p.get("op")
        return r
    if cir.is_call(p) and kids and kids[0] is not e:
        idx = [j for j, a in enumerate(kids[1:]) if a is e]
        name = cir.callee(p)
        r["callee"] = name
        if is_ptr:
            ce = cir.callee_expr(p)
            pt = modref._param_types((ce.get("ref") or {}).get("t") if ce is not None and ce.get("k") == "DeclRefExpr"
                                     else (ce.get("t") if ce is not None else None))
            j = idx[0] if idx else None
            const = j is not None and j < len(pt) and modref._const_pointee(pt[j])
            r["ctx"] = "read" if const else "pass"
            r["argi"] = j
        return r
    if is_ptr:
        if k == "VarDecl":
            r["ctx"] = "read" if modref._const_pointee(p.get("t") or "") else "alias"
            r["var"] = p.get("n")
            return r
        if k == "BinaryOperator" and p.get("op") == "=" and len(kids) > 1 and kids[1] is e:
            lt = (kids[0].get("t") or "")
            r["ctx"] = "read" if modref._const_pointee(lt) else "alias"
            r["var"] = cir.text(kids[0])
            return r
        if k == "ReturnStmt":
            r["ctx"] = "alias"
            r["var"] = "<return>"
            return r
        if k in ("InitListExpr", "ConditionalOperator", "CompoundLiteralExpr"):
            r["ctx"] = "alias"
            r["var"] = f"<{k}>"
            return r
    return r


def zeroes_scene(unit):
    """functions that memset their whole mjvScene parameter to 0"""
    out = []
    for name, fn in unit.funcs.items():
        P = scene_param(fn)
        if P is None:
            continue
        for c in cir.calls(fn, "memset"):
            a = cir.args(c)
            if len(a) == 3 and cir.text(a[0]) == P and _int_lit(a[1]) == 0 and \
                    re.sub(r"\s|struct", "", cir.text(a[2])) in ("sizeof(mjvScene)", f"sizeof(*{P})", "sizeof(mjvScene_)"):
                out.append(name)
    return out


def capacity_decisions(unit, cap="maxgeom", status="status"):
    """Every place of this TU where the capacity of the geom array takes part in a decision or leaves the function.

    A local assigned from an expression that reads `->cap` carries the capacity (transitively).  For every branching
    construct (if / loops / ?:) whose condition reads the capacity or such a local:
        dict(function, file, line, kind="cond", expr, reported)   reported: some arm stores a non-zero value to
                                                                     `->status` or calls a no-return error handler
    and for every other use of the capacity that is not a plain initialisation of a carrying local:
        dict(..., kind="escape")                                     (argument of a call, returned value, stored away)
    """
    out = []
    for fname, fn in unit.funcs.items():
        if (fn.get("file") or unit.tu) != unit.tu:
            continue
        reads = []
        par = {}
        for n in cir.walk(fn):
            for c in cir.kids(n):
                if c is not None:
                    par[id(c)] = n
            if n.get("k") == "MemberExpr" and n.get("arrow") and n.get("n") == cap:
                c = cir.kids(n)
                base = cir.strip(c[0]) if c else None
                if base is not None and modref._struct_of(base.get("t")) == SCENE:
                    p = par.get(id(n))
                    is_store = False
                    q, e = p, n
                    while q is not None and q.get("k") in cir.TRANSPARENT:
                        e, q = q, par.get(id(q))
                    if q is not None and ((q.get("k") == "BinaryOperator" and q.get("op") == "=") or
                                          q.get("k") == "CompoundAssignOperator") and cir.kids(q)[0] is e:
                        is_store = True
                    if not is_store:
                        reads.append(n)
        if not reads:
            continue
        carriers = set()
        changed = True

        def carries(e):
            for x in cir.walk(e):
                if any(x is r for r in reads):
                    return True
                if x.get("k") == "DeclRefExpr" and (x.get("ref") or {}).get("id") in carriers:
                    return True
            return False

        while changed:
            changed = False
            for n in cir.walk(fn):
                if n.get("k") == "VarDecl" and n.get("id") not in carriers:
                    init = [c for c in cir.kids(n) if c is not None]
                    if init and carries(init[-1]):
                        carriers.add(n.get("id"))
                        changed = True
                elif n.get("k") == "BinaryOperator" and n.get("op") == "=":
                    l, r = cir.kids(n)
                    l = cir.strip(l)
                    if l is not None and l.get("k") == "DeclRefExpr" and (l.get("ref") or {}).get("k") == "VarDecl" and \
                            (l.get("ref") or {}).get("id") not in carriers and carries(r):
                        carriers.add(l["ref"].get("id"))
                        changed = True
        errv = set()

        def reports(arm):
            if arm is None:
                return False
            for x in cir.walk(arm):
                if cir.is_call(x) and paths.is_noreturn_call(x, errv):
                    return True
                if x.get("k") == "BinaryOperator" and x.get("op") == "=":
                    rf = modref.root_field(cir.kids(x)[0])
                    if rf is not None and rf[0] == SCENE and rf[1] == status and rf[2] == 0 and _int_lit(cir.kids(x)[1]) != 0:
                        return True
            return False

        in_cond = set()
        for n in cir.walk(fn):
            k = n.get("k")
            cond, arms = None, []
            kids = cir.kids(n)
            if k == "IfStmt":
                cond, then, els = _if_parts(n)
                arms = [then, els]
            elif k == "WhileStmt":
                cond, arms = kids[0], [kids[-1]]
            elif k == "DoStmt":
                cond, arms = kids[1], [kids[0]]
            elif k == "ForStmt":
                fk = list(kids) + [None] * (5 - len(kids))
                cond, arms = fk[2], [fk[4]]
            elif k == "ConditionalOperator":
                cond, arms = kids[0], kids[1:]
            if cond is None or not carries(cond):
                continue
            for x in cir.walk(cond):
                in_cond.add(id(x))
            def inert(arm):
                # the arm only reports: no jump, no store, no call other than the warning / message primitives
                if arm is None:
                    return True
                for x in cir.walk(arm):
                    k2 = x.get("k")
                    if k2 in ("ReturnStmt", "BreakStmt", "ContinueStmt", "GotoStmt", "CompoundAssignOperator"):
                        return False
                    if k2 == "BinaryOperator" and x.get("op") == "=":
                        return False
                    if k2 == "UnaryOperator" and x.get("op") in ("++", "--"):
                        return False
                    if cir.is_call(x) and cir.callee(x) not in WARN_CALLS and cir.callee(x) not in ("mju_message", "printf", "snprintf"):
                        return False
                return True
            out.append({"function": fname, "file": fn.get("file") or unit.tu, "line": n.get("line") or fn.get("line"),
                        "kind": "cond", "expr": cir.text(cond)[:120], "reported": any(reports(a) for a in arms),
                        "inert": all(inert(a) for a in arms) and k == "IfStmt"})
        # other uses: a read that is neither inside a recorded condition nor the initialiser of a carrying local
        init_nodes = set()
        for n in cir.walk(fn):
            if n.get("k") == "VarDecl" and n.get("id") in carriers:
                for c in cir.kids(n):
                    if c is not None:
                        for x in cir.walk(c):
                            init_nodes.add(id(x))
            elif n.get("k") == "BinaryOperator" and n.get("op") == "=":
                l = cir.strip(cir.kids(n)[0])
                if l is not None and l.get("k") == "DeclRefExpr" and (l.get("ref") or {}).get("id") in carriers:
                    for x in cir.walk(cir.kids(n)[1]):
                        init_nodes.add(id(x))
        for r in reads:
            if id(r) in in_cond or id(r) in init_nodes:
                continue
            out.append({"function": fname, "file": fn.get("file") or unit.tu, "line": r.get("line") or fn.get("line"),
                        "kind": "escape", "expr": cir.text(par.get(id(r)) or r)[:120], "reported": False})
    return out


def _if_parts(n):
    c = list(cir.kids(n))
    idx = int(bool(n.get("hasInit"))) + int(bool(n.get("hasVar")))
    return c[idx], (c[idx + 1] if len(c) > idx + 1 else None), (c[idx + 2] if len(c) > idx + 2 else None)


def _option_index_sites(unit):
    from . import ctypeinfo, r_bound
    quick = False
    for fn in unit.funcs.values():
        if (fn.get("file") or unit.tu) == unit.tu and any("mjvOption" in (p.get("t") or "") for p in cir.params(fn)):
            quick = True
            break
    if not quick:
        return []
    return r_bound.index_sites(unit, "mjvOption", ctypeinfo.load()["enumerators"])


def tu_facts(unit):
    """Worker entry: accesses + scene-zeroing functions + call order in functions that pass a tracked field + the
    functions called in this TU whose signature mentions mjvGeom (candidates for acquire/release call sites)."""
    acc = scene_access(unit)
    order = {}
    for a in acc:
        if a["ctx"] == "pass" and a["function"] not in order:
            fn = unit.funcs[a["function"]]
            seq = []
            for st in cir.kids(cir.body(fn)):
                if st is None:
                    continue
                for c in cir.calls(st):
                    seq.append((cir.callee(c), c.get("line")))
            order[a["function"]] = seq
    geom_callees = set()
    for fname, fn in unit.funcs.items():
        for c in cir.calls(fn):
            ce = cir.callee_expr(c)
            if ce is not None and ce.get("k") == "DeclRefExpr" and "mjvGeom" in ((ce.get("ref") or {}).get("t") or ""):
                geom_callees.add(cir.callee(c))
    defs = sorted(n for n, fn in unit.funcs.items() if (fn.get("file") or unit.tu) == unit.tu)
    return {"access": acc, "zeroes": zeroes_scene(unit), "order": order, "geom_callees": sorted(geom_callees),
            "defs": defs, "capacity": capacity_decisions(unit), "index": _option_index_sites(unit),
            "statusreads": capacity_decisions(unit, cap="status")}


def cap_alloc(unit, name, cap="maxgeom", arr="geoms", elem="mjvGeom"):
    """In `name`: every non-zero store  P->cap = X  comes with a store  P->arr = alloc(X * sizeof(elem))  of the same,
    never reassigned X.  Returns (ok, detail)."""
    fn = unit.funcs[name]
    decls, count = _local_decls(fn)
    caps, arrs = [], []
    for n in cir.walk(fn):
        if n.get("k") == "BinaryOperator" and n.get("op") == "=":
            rf = modref.root_field(cir.kids(n)[0])
            if rf is None or rf[0] != SCENE or rf[2] != 0:
                continue
            if rf[1] == cap and _int_lit(cir.kids(n)[1]) != 0:
                caps.append(n)
            if rf[1] == arr and not _is_null(cir.kids(n)[1]):
                arrs.append(n)
    detail = {"cap_stores": len(caps), "array_stores": len(arrs)}
    if not caps and not arrs:
        return True, detail
    sizes = set()
    for n in arrs:
        r = cir.strip(cir.kids(n)[1])
        if not cir.is_call(r) or len(cir.args(r)) != 1 or "*" not in (r.get("t") or ""):
            return False, dict(detail, why=f"`{cir.text(cir.kids(n)[0])}` is assigned `{cir.text(r)}`, not an allocation of "
                                           f"count * sizeof({elem})")
        a = cir.strip(cir.args(r)[0])
        ok = False
        if a is not None and a.get("k") == "BinaryOperator" and a.get("op") == "*":
            x, y = (cir.strip(z) for z in cir.kids(a))
            for u, v in ((x, y), (y, x)):
                if v is not None and v.get("k") == "UnaryExprOrTypeTraitExpr" and v.get("n") == "sizeof" and \
                        (v.get("argt") or "").replace("struct ", "").rstrip("_") == elem and u is not None and \
                        u.get("k") == "DeclRefExpr":
                    rid = (u.get("ref") or {}).get("id")
                    if count.get(rid, 0) == 0:
                        sizes.add(cir.text(u))
                        ok = True
        if not ok:
            return False, dict(detail, why=f"allocation size `{cir.text(a)}` is not <never-reassigned variable> * "
                                           f"sizeof({elem})")
    for n in caps:
        x = cir.strip(cir.kids(n)[1])
        if x is None or x.get("k") != "DeclRefExpr" or cir.text(x) not in sizes:
            return False, dict(detail, why=f"capacity `{cir.text(cir.kids(n)[0])} = {cir.text(x)}` does not equal the allocated "
                                           f"element count {sorted(sizes)}")
    if caps and not arrs:
        return False, dict(detail, why="capacity set without allocating the array")
    if arrs and not caps:
        return False, dict(detail, why="array allocated without setting the capacity")
    detail["count"] = sorted(sizes)
    return True, detail


# ----------------------------------------------------------------------------------------------- pairing typestate

class JumpExplorer(paths.Explorer):
    """paths.Explorer + a rule hook on `continue` and on a `break` that leaves a loop (the rule may rewrite the state on
    the jump).  A `break` that only leaves a switch is not a jump out of the iteration."""

    def __init__(self, rule, unit, fn):
        super().__init__(rule, unit, fn)
        self._nest = []

    def _loop(self, n, S, init, cond, inc, body, do_first=False):
        self._nest.append("loop")
        try:
            return super()._loop(n, S, init, cond, inc, body, do_first)
        finally:
            self._nest.pop()

    def _loop_nondet(self, n, S, body):
        self._nest.append("loop")
        try:
            return super()._loop_nondet(n, S, body)
        finally:
            self._nest.pop()

    def s_SwitchStmt(self, n, S):
        self._nest.append("switch")
        try:
            return super().s_SwitchStmt(n, S)
        finally:
            self._nest.pop()

    def s_ContinueStmt(self, n, S):
        r = self._res()
        r["continue"] = {(self.rule.jump(st, n, "continue", self.ctx), env) for st, env in S}
        return r

    def s_BreakStmt(self, n, S):
        r = self._res()
        if self._nest and self._nest[-1] == "switch":
            r["break"] = set(S)
        else:
            r["break"] = {(self.rule.jump(st, n, "break", self.ctx), env) for st, env in S}
        return r


class PairRule(paths.Rule):
    """state: frozenset of (var_text, st, site)  st in U (acquired, untested), H (held), N (null), R (released),
    P (pointer-to-pointer parameter, not released), Q (parameter released)"""
    use_kinds = frozenset({"ArraySubscriptExpr", "UnaryOperator", "MemberExpr"})

    def __init__(self, acquires, releases, last_stmt):
        self.acquires = acquires          # names
        self.releases = releases          # name -> index of the mjvGeom** argument
        self.last_stmt = last_stmt

    def initial(self, fn):
        s = set()
        for p in cir.params(fn):
            if (p.get("t") or "").replace(" ", "").endswith("mjvGeom**"):
                s.add((p.get("n"), "P", None))
        return frozenset(s)

    @staticmethod
    def _find(state, v):
        for e in state:
            if e[0] == v:
                return e
        return None

    @staticmethod
    def _drop(state, v):
        return frozenset(e for e in state if e[0] != v)

    def assign(self, state, node, ctx):
        k = node.get("k")
        if k == "VarDecl":
            lhs = node.get("n")
            init = [c for c in cir.kids(node) if c is not None and not c.get("k", "").endswith("Attr")]
            rhs = init[-1] if init else None
        elif k == "BinaryOperator" and node.get("op") == "=":
            c = cir.kids(node)
            lhs, rhs = cir.text(c[0]), c[1]
        else:
            return state
        r = cir.strip(rhs)
        old = self._find(state, lhs)
        if cir.is_call(r) and cir.callee(r) in self.acquires:
            site = (r.get("line"), r.get("off"))
            ctx.sites.setdefault(site, {"line": r.get("line"), "var": lhs, "released": False, "abandoned": []})
            if old is not None and old[1] == "H":
                ctx.sites[old[2]]["abandoned"].append("reacquire")
            return self._drop(state, lhs) | {(lhs, "U", site)}
        if r is not None and r.get("k") == "DeclRefExpr":
            src = self._find(state, cir.text(r))
            if src is not None and src[1] in ("U", "H", "N", "R"):
                return self._drop(state, lhs) | {(lhs, src[1], src[2])}
        if old is not None and old[1] not in ("P", "Q"):
            return self._drop(state, lhs)
        return state

    def branch(self, state, cond, taken, ctx):
        if not state:
            return state
        nc = paths.norm_cond(cond)
        if nc is None:
            return state
        e = self._find(state, nc[0])
        if e is None or e[1] in ("P", "Q"):
            return state
        nonnull = taken if nc[1] else (not taken)
        if e[1] in ("N", "R"):
            return None if nonnull else state
        if e[1] == "H":
            return state if nonnull else None
        return self._drop(state, e[0]) | {(e[0], "H" if nonnull else "N", e[2])}

    def call(self, state, node, name, ctx):
        if name in self.releases:
            idx = self.releases[name]
            a = cir.args(node)
            if idx is None or idx >= len(a):
                raise AnalysisError(f"{ctx.fn.get('n')}: call of release function {name} without its pointer argument")
            x = cir.strip(a[idx])
            rsite = (node.get("line"), node.get("off"))
            ctx.release_calls.setdefault(rsite, {"line": node.get("line"), "callee": name})
            var = None
            if x is not None and x.get("k") == "UnaryOperator" and x.get("op") == "&":
                y = cir.strip(cir.kids(x)[0])
                if y is not None and y.get("k") in ("DeclRefExpr", "MemberExpr"):
                    var = cir.text(y)
            elif x is not None and x.get("k") == "DeclRefExpr":
                e = self._find(state, cir.text(x))
                if e is not None and e[1] in ("P", "Q"):
                    if e[1] == "Q":
                        ctx.report(node, f"`*{e[0]}` is released twice on some path: the second {name}() finds NULL and ends "
                                   f"in a fatal error", kind="P-double", rsite=rsite)
                    return self._drop(state, e[0]) | {(e[0], "Q", None)}
            if var is None:
                raise AnalysisError(f"{ctx.fn.get('n')}: argument `{cir.text(x)}` of {name}() at {ctx.where(node)} is not "
                                    f"`&variable` nor a mjvGeom** parameter")
            e = self._find(state, var)
            if e is None or e[1] == "N":
                ctx.report(node, f"{name}(&{var}) runs on a path with no preceding successful acquisition of `{var}`"
                           + (" (the acquisition failed: NULL)" if e is not None else ""), kind="P-norel", rsite=rsite)
                return state
            if e[1] == "U":
                ctx.report(node, f"{name}(&{var}) runs on a path where the result of the acquisition at line {e[2][0]} was "
                           f"not null-tested: a full buffer ends in the fatal pointer check instead of the status report",
                           kind="P-untested", site=e[2], rsite=rsite)
                return self._drop(state, var) | {(var, "R", e[2])}
            if e[1] == "R":
                ctx.report(node, f"`{var}` is released a second time on some path (acquired at line {e[2][0]}): the pointer "
                           f"is NULL after the first release and {name}() ends in a fatal error", kind="P-double",
                           site=e[2], rsite=rsite)
                return state
            ctx.sites[e[2]]["released"] = True
            return self._drop(state, var) | {(var, "R", e[2])}
        # &v of a tracked variable passed to anything else: not decidable here
        for a in cir.args(node):
            x = cir.strip(a)
            if x is not None and x.get("k") == "UnaryOperator" and x.get("op") == "&":
                y = cir.strip(cir.kids(x)[0])
                if y is not None and self._find(state, cir.text(y)) is not None and name not in self.acquires:
                    # undecidable unless `name` turns out to be a release wrapper (caller re-runs to a fixpoint)
                    ctx.escapes.add((name, cir.text(y), ctx.where(node)))
        return state

    def use(self, state, node, ctx):
        if not state:
            return state
        k = node.get("k")
        base = None
        if k == "ArraySubscriptExpr":
            base = cir.kids(node)[0]
        elif k == "UnaryOperator" and node.get("op") == "*":
            base = cir.kids(node)[0]
        elif k == "MemberExpr" and node.get("arrow"):
            base = cir.kids(node)[0] if cir.kids(node) else None
        if base is None:
            return state
        b = cir.strip(base)
        if b is None:
            return state
        e = self._find(state, cir.text(b))
        if e is not None and e[1] == "R":
            ctx.report(node, f"`{e[0]}` is dereferenced after its release (the release sets it to NULL)", kind="P-after",
                       site=e[2])
        return state

    def jump(self, state, node, kind, ctx):
        out = set()
        for e in state:
            if e[1] == "H":
                ctx.sites[e[2]]["abandoned"].append(kind)
            elif e[1] == "U":
                pass
            else:
                out.add(e)
        return frozenset(out)

    def _end(self, state, node, ctx, how):
        for e in state:
            if e[1] == "H":
                ctx.sites[e[2]]["abandoned"].append("end")
        ps = {e[1] for e in state if e[1] in ("P", "Q")}
        ctx.param_exit |= ps

    def ret(self, state, node, ctx):
        if node is self.last_stmt:
            self._end(state, node, ctx, "end of the function")
            return
        for e in state:
            if e[1] == "H":
                ctx.sites[e[2]]["abandoned"].append("return")
        ctx.param_exit |= {e[1] for e in state if e[1] in ("P", "Q")}

    def fallthrough(self, state, ctx):
        self._end(state, ctx.fn, ctx, "end of the function")


def pairing(unit, acquires, releases):
    """{function: {sites:[...], release_calls:[...], reports:[...], wrapper: idx|None}}"""
    acquires = set(acquires)
    out = {}
    for name, fn in unit.funcs.items():
        if name in acquires or name in releases:
            continue
        called = {cir.callee(c) for c in cir.calls(fn)}
        if not (called & (acquires | set(releases))):
            continue
        b = cir.body(fn)
        stmts = [s for s in cir.kids(b) if s is not None]
        last = stmts[-1] if stmts and stmts[-1].get("k") == "ReturnStmt" else None
        rule = PairRule(acquires, releases, last)
        ex = JumpExplorer(rule, unit, fn)
        ctx = ex.ctx
        ctx.sites, ctx.release_calls, ctx.param_exit, ctx.escapes = {}, {}, set(), set()
        ex.run()
        wrapper = None
        if ctx.param_exit == {"Q"}:
            wrapper, _ = param_of_type(fn, lambda t: t.endswith("mjvGeom**"))
        elif "Q" in ctx.param_exit:
            ctx.report(fn, f"{name} releases its mjvGeom** parameter on some paths only", kind="P-wrapper")
        sites = []
        for i, (site, s) in enumerate(sorted(ctx.sites.items(), key=lambda kv: (kv[0][0] or 0, kv[0][1] or 0))):
            sites.append({"ord": i + 1, "site": site, "line": s["line"], "var": s["var"], "released": s["released"],
                          "abandoned": sorted(set(s["abandoned"]))})
        rel = []
        for i, (rs, s) in enumerate(sorted(ctx.release_calls.items(), key=lambda kv: (kv[0][0] or 0, kv[0][1] or 0))):
            rel.append({"ord": i + 1, "rsite": rs, "line": s["line"], "callee": s["callee"]})
        out[name] = {"file": fn.get("file") or unit.tu, "line": fn.get("line"), "sites": sites, "release_calls": rel,
                     "reports": ctx.reports, "wrapper": wrapper, "escapes": sorted(ctx.escapes)}
    return out


# ----------------------------------------------------------------------------------------------- lights

class LightRule(paths.Rule):
    """state: abstract value of P->nlight: ('c', k) constant, ('lt', K) known < K, ('?',)"""

    def __init__(self, P, extent, arr="lights", cnt="nlight"):
        self.P = P
        self.extent = extent
        self.cnt = f"{P}->{cnt}"
        self.arr = f"{P}->{arr}"

    def initial(self, fn):
        return ("?",)

    def branch(self, st, cond, taken, ctx):
        r = capacity_branch(cond, taken, self.cnt, None)
        if r is None:
            return st
        kind, K = r
        if kind == "ok":
            if st[0] == "c":
                return st if st[1] < K else None
            if st[0] == "lt":
                return ("lt", min(st[1], K))
            return ("lt", K)
        if st[0] == "c" and st[1] < K:
            return None
        return st

    def _bounded(self, st):
        return (st[0] == "c" and 0 <= st[1] < self.extent) or (st[0] == "lt" and st[1] <= self.extent)

    def assign(self, st, node, ctx):
        k = node.get("k")
        if k == "VarDecl":
            init = [c for c in cir.kids(node) if c is not None and not c.get("k", "").endswith("Attr")]
            if init:
                self._alias(st, node, init[-1], ctx)
            return st
        c = cir.kids(node)
        lhs = cir.text(c[0])
        if lhs == self.cnt:
            ctx.cnt_writes += 1
            if k == "BinaryOperator" and node.get("op") == "=":
                v = _int_lit(c[1])
                return ("c", v) if v is not None else ("?",)
            if (k == "UnaryOperator" and node.get("op") == "++") or \
                    (k == "CompoundAssignOperator" and node.get("op") == "+=" and _int_lit(c[1]) == 1):
                if st[0] == "c":
                    return ("c", st[1] + 1) if st[1] + 1 <= self.extent else ("?",)
                if st[0] == "lt":
                    return ("lt", st[1] + 1)
                return ("?",)
            return ("?",)
        if k == "BinaryOperator" and node.get("op") == "=":
            self._alias(st, node, c[1], ctx)
            rf = modref.root_field(c[0])
            if rf is not None and rf[0] == SCENE and rf[1] == "lights" and rf[2] > 0:
                self._index(st, node, c[0], ctx)
        return st

    def _alias(self, st, node, rhs, ctx):
        r = cir.strip(rhs)
        if r is None:
            return
        t = cir.text(r)
        if t == self.arr or t == f"&{self.arr}[0]":
            ctx.aliases += 1
            if self.extent < 1:
                ctx.report(node, "light array has no element", kind="L-bound")
            return
        if t in (f"{self.arr} + {self.cnt}", f"&{self.arr}[{self.cnt}]"):
            ctx.aliases += 1
            if not self._bounded(st):
                ctx.report(node, f"light slot `{t}` is formed on a path where `{self.cnt} < {self.extent}` is not known to hold "
                           f"(the scene has room for {self.extent} lights)", kind="L-bound")
            return
        rf = modref.root_field(r)
        if rf is not None and rf[0] == SCENE and rf[1] == "lights" and ("*" in (r.get("t") or "")):
            ctx.aliases += 1
            ctx.report(node, f"light slot `{t}` is formed with an index the analysis cannot bound", kind="L-bound")

    def _index(self, st, node, lhs, ctx):
        ctx.report(node, f"direct store through `{cir.text(lhs)}`: index not bounded by the analysis", kind="L-bound")

    def call(self, st, node, name, ctx):
        for a in cir.args(node):
            x = cir.strip(a)
            if x is None:
                continue
            rf = modref.root_field(x)
            if rf is not None and rf[0] == SCENE and rf[1] == "lights" and ("*" in (x.get("t") or "") or "[" in (x.get("t") or "")):
                self._alias(st, node, x, ctx)
        return st


def lights(unit, name, extent):
    fn = unit.funcs[name]
    P = scene_param(fn)
    if P is None:
        raise AnalysisError(f"{name}: no mjvScene* parameter")
    rule = LightRule(P, extent)
    ex = paths.Explorer(rule, unit, fn)
    ex.ctx.aliases = ex.ctx.cnt_writes = 0
    ex.run()
    return {"function": name, "file": fn.get("file") or unit.tu, "line": fn.get("line"), "aliases": ex.ctx.aliases,
            "cnt_writes": ex.ctx.cnt_writes, "reports": ex.ctx.reports}


# ----------------------------------------------------------------------------------------------- checker self-test

def run_mutants(pid, mutants, res, jobs=6):
    """Thorough-tier self-test of a checker on scratch copies of the repository (outside /repo and /verif).

    mutants: [(id, edits, expect)] with edits = [(file, old, new)] plain text replacements or
    [("sub", file, regex, repl, start_marker, end_marker)] regex replacements between two markers;
    expect = substring of a `rule=.. construct=..` report line that must appear, or None for a control that must add
    no report to those of the unchanged tree.  A mutant whose anchor text is gone is stale and only counted."""
    import concurrent.futures as cf
    import os
    import re as _re
    from . import scratch
    baseline = {f"rule={v['rule']} construct={v['construct']}:" for v in res.violations}

    def one(m):
        mid, edits, expect = m
        try:
            with scratch.scratch(["include", "src", "cmake", "CMakeLists.txt", "plugin"]) as root:
                for e in edits:
                    if e[0] == "sub":
                        _, f, rx, repl, a, b = e
                        p = os.path.join(root, f)
                        s = open(p).read()
                        if a not in s or b not in s:
                            return mid, "stale", ""
                        i, j = s.index(a), s.index(b)
                        t = _re.sub(rx, repl, s[i:j])
                        if t == s[i:j]:
                            return mid, "stale", ""
                        open(p, "w").write(s[:i] + t + s[j:])
                    else:
                        try:
                            scratch.edit(root, e[0], e[1], e[2])
                        except RuntimeError:
                            return mid, "stale", ""
                rc, out = scratch.run_check(pid, root)
        except Exception as ex:  # pragma: no cover
            return mid, "error", str(ex)
        lines = [l for l in out.splitlines() if "rule=" in l and not l.startswith("KNOWN-FINDING")
                 and not any(b in l for b in baseline)]
        if expect is None:
            return mid, ("silent" if rc != 2 and not lines else "control-fired"), "\n".join(lines[:2]) or out[-300:]
        if rc == 2:
            return mid, "refused", out[-300:]
        return mid, ("fired" if any(expect in l for l in lines) else "missed"), "\n".join(lines[:2])

    res.rule("SELFTEST", "scratch-copy mutants must be reported naming the construct; controls must stay silent", floor=0)
    with cf.ThreadPoolExecutor(max_workers=jobs) as ex:
        results = list(ex.map(one, mutants))
    bad, summary = [], {}
    for mid, status, detail in results:
        summary[mid] = status
        if status in ("fired", "silent"):
            res.ok("SELFTEST", mid, {"status": status})
        elif status == "stale":
            res.count("selftest_stale")
        else:
            bad.append((mid, status, detail))
    res.extra["selftest"] = summary
    if bad:
        raise AnalysisError("checker self-test failed: " + "; ".join(f"{m}: {s} [{d[:200]}]" for m, s, d in bad))
