"""Mini evaluator for *literal* Python modules (never imports or executes repo code).

`eval_module(path, classes)` parses a module with `ast` and evaluates every top-level
`NAME = <expr>` / `NAME: T = <expr>` whose right-hand side is built only from

  * constants (str, int, float, bool, None, bytes), unary +/-/~, binary + - * // % ** << >> | & ^
    on ints (and + on str / tuple / list),
  * tuples, lists, sets, dict displays,
  * `dict([...])`, `dict((...))`, `dict(k=v)`, `tuple(...)`, `list(...)`, `frozenset(...)`, `set(...)`,
    `collections.OrderedDict([...])`,
  * calls of *record constructors*: a call `C(...)` (or `mod.C(...)`) where `C` is listed in `classes`
    becomes `{"__class__": "C", field: value, ...}`; positional arguments are bound through the
    constructor signature, missing fields take the class's constant defaults,
  * names bound earlier in the same module by such an assignment.

Anything else raises `AnalysisError` naming file:line.  `class_table(path)` derives the constructor
signatures from a module of dataclass-like classes (annotated fields, or the parameters of an explicit
`__init__`; single inheritance inside the module is followed) — again by parsing only.

Every record dict carries `"__line__"` (line of the constructor call) so that reports can point at the
metadata source; it is not part of the value (use `strip_lines` or ignore the key when comparing).
"""
from __future__ import annotations

import ast
import os

from .cfront import AnalysisError

_MISSING = object()

_BINOPS = {
    ast.Add: lambda a, b: a + b, ast.Sub: lambda a, b: a - b, ast.Mult: lambda a, b: a * b,
    ast.FloorDiv: lambda a, b: a // b, ast.Mod: lambda a, b: a % b, ast.Pow: lambda a, b: a ** b,
    ast.LShift: lambda a, b: a << b, ast.RShift: lambda a, b: a >> b, ast.BitOr: lambda a, b: a | b,
    ast.BitAnd: lambda a, b: a & b, ast.BitXor: lambda a, b: a ^ b,
}
_CONTAINERS = {"dict", "tuple", "list", "set", "frozenset", "OrderedDict"}


def _err(path, node, msg):
    raise AnalysisError(f"{path}:{getattr(node, 'lineno', '?')}: pyeval: {msg}")


def parse(path):
    try:
        with open(path, encoding="utf-8") as f:
            src = f.read()
    except OSError as e:
        raise AnalysisError(f"cannot read {path}: {e}")
    try:
        return ast.parse(src, filename=path)
    except SyntaxError as e:
        raise AnalysisError(f"{path}: not parseable: {e}")


# --------------------------------------------------------------------------------------
# constructor signatures from a module of dataclass-like classes


def class_table(path) -> dict:
    """{class name: [(field, default or pyeval.REQUIRED)]} from annotated fields / __init__ params."""
    tree = parse(path)
    raw = {}
    bases = {}
    for node in tree.body:
        if not isinstance(node, ast.ClassDef):
            continue
        bases[node.name] = [b.id for b in node.bases if isinstance(b, ast.Name)]
        fields = None
        init = None
        ann = []
        for st in node.body:
            if isinstance(st, ast.FunctionDef) and st.name == "__init__":
                init = st
            elif isinstance(st, ast.AnnAssign) and isinstance(st.target, ast.Name):
                d = REQUIRED
                if st.value is not None:
                    d = _const_default(st.value)
                ann.append((st.target.id, d))
        if init is not None:
            a = init.args
            if a.vararg or a.kwarg or a.posonlyargs:
                raise AnalysisError(f"{path}:{init.lineno}: pyeval: unsupported __init__ signature of {node.name}")
            names = [x.arg for x in a.args][1:]
            defs = [REQUIRED] * (len(names) - len(a.defaults)) + [_const_default(d) for d in a.defaults]
            fields = list(zip(names, defs))
            for kw, d in zip(a.kwonlyargs, a.kw_defaults):
                fields.append((kw.arg, REQUIRED if d is None else _const_default(d)))
            # annotated fields that __init__ does not take keep their class default (e.g. ArrayType.nullable)
            have = {n for n, _ in fields}
            fields += [(n, d) for n, d in ann if n not in have and d is not REQUIRED]
        elif ann:
            fields = ann
        raw[node.name] = fields
    out = {}

    def resolve(name, seen=()):
        if name in out:
            return out[name]
        if name in seen:
            raise AnalysisError(f"{path}: pyeval: cyclic class hierarchy at {name}")
        f = raw.get(name)
        if f is None:
            for b in bases.get(name, ()):
                if b in raw:
                    f = resolve(b, seen + (name,))
                    break
        out[name] = f
        return f

    for name in raw:
        resolve(name)
    return {k: v for k, v in out.items() if v is not None}


class _Required:
    def __repr__(self):
        return "<required>"


REQUIRED = _Required()


def _const_default(node):
    try:
        return ast.literal_eval(node)
    except Exception:
        return REQUIRED


# --------------------------------------------------------------------------------------
# evaluator


class Evaluator:
    def __init__(self, path, classes=None):
        self.path = path
        self.classes = classes or {}
        self.env = {}
        self.lines = {}          # top-level name -> line of its binding

    def module(self, tree, only=None):
        for st in tree.body:
            tgt = val = None
            if isinstance(st, ast.Assign) and len(st.targets) == 1 and isinstance(st.targets[0], ast.Name):
                tgt, val = st.targets[0].id, st.value
            elif isinstance(st, ast.AnnAssign) and isinstance(st.target, ast.Name) and st.value is not None:
                tgt, val = st.target.id, st.value
            if tgt is None:
                continue
            if only is not None and tgt not in only:
                continue
            self.env[tgt] = self.ev(val)
            self.lines[tgt] = st.lineno
        return self.env

    def ev(self, n):
        if isinstance(n, ast.Constant):
            return n.value
        if isinstance(n, ast.Tuple):
            return tuple(self.seq(n.elts))
        if isinstance(n, ast.List):
            return list(self.seq(n.elts))
        if isinstance(n, ast.Set):
            return frozenset(self.seq(n.elts))
        if isinstance(n, ast.Dict):
            out = {}
            for k, v in zip(n.keys, n.values):
                if k is None:
                    inner = self.ev(v)
                    if not isinstance(inner, dict):
                        _err(self.path, n, "** of a non-dict")
                    out.update(inner)
                else:
                    self.put(out, self.ev(k), self.ev(v), k)
            return out
        if isinstance(n, ast.UnaryOp):
            v = self.ev(n.operand)
            if isinstance(n.op, ast.USub) and isinstance(v, (int, float)):
                return -v
            if isinstance(n.op, ast.UAdd) and isinstance(v, (int, float)):
                return +v
            if isinstance(n.op, ast.Invert) and isinstance(v, int):
                return ~v
            if isinstance(n.op, ast.Not):
                return not v
            _err(self.path, n, f"unsupported unary operation on {type(v).__name__}")
        if isinstance(n, ast.BinOp):
            a, b = self.ev(n.left), self.ev(n.right)
            f = _BINOPS.get(type(n.op))
            ok_num = isinstance(a, (int, float)) and isinstance(b, (int, float)) and not isinstance(a, bool)
            ok_cat = isinstance(n.op, ast.Add) and type(a) is type(b) and isinstance(a, (str, tuple, list))
            if f is None or not (ok_num or ok_cat):
                _err(self.path, n, "unsupported binary operation")
            if isinstance(n.op, (ast.LShift, ast.Pow)) and isinstance(b, (int, float)) and abs(b) > 4096:
                _err(self.path, n, "shift/power too large")
            try:
                return f(a, b)
            except Exception as e:      # division by zero etc.
                _err(self.path, n, f"cannot evaluate: {e}")
        if isinstance(n, ast.Name):
            if n.id in self.env:
                return self.env[n.id]
            if n.id in ("True", "False", "None"):
                return {"True": True, "False": False, "None": None}[n.id]
            _err(self.path, n, f"name {n.id!r} is not a literal bound earlier in the module")
        if isinstance(n, ast.Call):
            return self.call(n)
        if isinstance(n, ast.Starred):
            _err(self.path, n, "starred expression")
        _err(self.path, n, f"unsupported expression {type(n).__name__}")

    def seq(self, elts):
        out = []
        for e in elts:
            if isinstance(e, ast.Starred):
                v = self.ev(e.value)
                if not isinstance(v, (tuple, list)):
                    _err(self.path, e, "* of a non-sequence")
                out.extend(v)
            else:
                out.append(self.ev(e))
        return out

    def put(self, d, k, v, node):
        try:
            hash(k)
        except TypeError:
            _err(self.path, node, "unhashable dict key")
        d[k] = v

    def call(self, n):
        f = n.func
        name = f.id if isinstance(f, ast.Name) else f.attr if isinstance(f, ast.Attribute) else None
        if name is None:
            _err(self.path, n, "call of a computed callee")
        if isinstance(f, ast.Attribute) and not isinstance(f.value, ast.Name):
            _err(self.path, n, "call of a computed callee")
        if name in self.classes:
            return self.record(n, name)
        if name in _CONTAINERS and (isinstance(f, ast.Name) or name == "OrderedDict"):
            return self.container(n, name)
        _err(self.path, n, f"call of {name!r}: neither a known record constructor nor a container constructor")

    def record(self, n, name):
        sig = self.classes[name]
        names = [x for x, _ in sig]
        out = {"__class__": name, "__line__": n.lineno}
        if len(n.args) > len(names):
            _err(self.path, n, f"too many positional arguments for {name}")
        for fname, a in zip(names, n.args):
            if isinstance(a, ast.Starred):
                _err(self.path, a, "starred argument")
            out[fname] = self.ev(a)
        for kw in n.keywords:
            if kw.arg is None:
                _err(self.path, n, "** argument")
            if kw.arg not in names:
                _err(self.path, n, f"{name} has no field {kw.arg!r}")
            if kw.arg in out:
                _err(self.path, n, f"duplicate argument {kw.arg!r} for {name}")
            out[kw.arg] = self.ev(kw.value)
        for fname, d in sig:
            if fname not in out:
                if d is REQUIRED:
                    _err(self.path, n, f"{name}() misses required field {fname!r}")
                out[fname] = d
        return out

    def container(self, n, name):
        if name in ("dict", "OrderedDict"):
            out = {}
            if len(n.args) > 1:
                _err(self.path, n, "dict() with several positional arguments")
            if n.args:
                src = self.ev(n.args[0])
                if isinstance(src, dict):
                    out.update(src)
                elif isinstance(src, (list, tuple)):
                    for it in src:
                        if not isinstance(it, (tuple, list)) or len(it) != 2:
                            _err(self.path, n, "dict() item is not a pair")
                        if it[0] in out:
                            _err(self.path, n, f"dict() repeats key {it[0]!r}")
                        self.put(out, it[0], it[1], n)
                else:
                    _err(self.path, n, "dict() of a non-sequence")
            for kw in n.keywords:
                if kw.arg is None:
                    _err(self.path, n, "** argument")
                out[kw.arg] = self.ev(kw.value)
            return out
        if n.keywords or len(n.args) > 1:
            _err(self.path, n, f"unsupported arguments for {name}()")
        src = self.ev(n.args[0]) if n.args else ()
        if isinstance(src, dict):
            src = list(src)
        if not isinstance(src, (list, tuple, frozenset)):
            _err(self.path, n, f"{name}() of a non-sequence")
        if name == "tuple":
            return tuple(src)
        if name == "list":
            return list(src)
        return frozenset(src)


def eval_module(path, classes=None, only=None) -> dict:
    """Evaluate the literal top-level bindings of the module at `path` (see module docstring)."""
    ev = Evaluator(path, classes)
    ev.module(parse(path), only)
    return ev.env


def strip_lines(v):
    """Deep copy without the "__line__" bookkeeping keys."""
    if isinstance(v, dict):
        return {k: strip_lines(x) for k, x in v.items() if k != "__line__"}
    if isinstance(v, (list, tuple)):
        return type(v)(strip_lines(x) for x in v)
    return v


def module_path(repo, relpath):
    p = os.path.join(repo, relpath)
    if not os.path.isfile(p):
        raise AnalysisError(f"anchor vanished: {relpath} does not exist under {repo}")
    return p
