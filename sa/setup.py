"""setup_cmd: check the tools, create the cache directory and pre-parse the engine TUs."""
from __future__ import annotations

import os
import shutil
import subprocess
import sys
import time

from . import cfront


def main():
    t = time.time()
    for tool in ("clang", "clang++"):
        if not shutil.which(tool):
            print(f"setup: {tool} not found")
            return 2
    os.makedirs(cfront.CACHE, exist_ok=True)
    os.makedirs(os.path.join(cfront.VERIF, "evidence"), exist_ok=True)
    try:
        cfront.load_tus(cfront.engine_c_tus(), load=False)
        # C++ translation units that whole-TU rules need (C37 exception flow): parse once here so quick checks are warm
        repo = cfront.REPO
        cxx = []
        for d in ("src/xml", "src/user"):
            dd = os.path.join(repo, d)
            if os.path.isdir(dd):
                cxx += sorted(f"{d}/{f}" for f in os.listdir(dd) if f.endswith(".cc"))
        try:
            cfront.load_tus(cxx, load=False)
        except cfront.AnalysisError as e:
            print(f"setup: note: some C++ TUs did not parse ({str(e)[:200]}); the checks that need them will report it")
    except cfront.AnalysisError as e:
        print(f"setup: front end failed: {e}")
        return 2
    cfront.prune_cache()
    print(f"setup ok ({time.time() - t:.1f}s)")
    return 0


if __name__ == "__main__":
    sys.stdout.flush()
    os._exit(main())
