"""C++ helpers for the C38 / C39 checkers (class model, member roles, C++-aware path explorer).

Everything here works on the pruned clang IR of cfront.py.  Nothing is keyed on names of
locals or on source positions: fields are identified by the id of their FieldDecl
(`MemberExpr.mid`), methods by the id of their in-class declaration.
"""
from __future__ import annotations

import re

from . import cir, paths
from .cfront import AnalysisError

METHOD_KINDS = ("CXXMethodDecl", "CXXConstructorDecl", "CXXDestructorDecl", "CXXConversionDecl")


# ----------------------------------------------------------------------------- walking

def walk(n, lambdas=True):
    """Preorder walk.  A LambdaExpr carries its body twice (closure class + body); only the
    body is visited (or nothing when lambdas=False)."""
    stack = [n]
    while stack:
        x = stack.pop()
        if not x:
            continue
        yield x
        c = x.get("i")
        if not c:
            continue
        if x.get("k") == "LambdaExpr":
            if lambdas:
                b = lambda_body(x)
                if b is not None:
                    stack.append(b)
            continue
        stack.extend(reversed(c))


def lambda_body(n):
    for c in reversed(cir.kids(n)):
        if c and c.get("k") == "CompoundStmt":
            return c
    return None


def lambda_params(n):
    for c in cir.kids(n):
        if c and c.get("k") == "CXXRecordDecl":
            for m in cir.kids(c):
                if m and m.get("k") == "CXXMethodDecl" and m.get("n") == "operator()":
                    return cir.params(m)
    return []


def all_decls(decls):
    """Flatten namespaces / linkage specs; yields (decl, namespace path).  The pruned IR names a
    file only where it changes, so the enclosing declaration's file is pushed down."""
    stack = [(d, ()) for d in reversed(decls)]
    while stack:
        d, ns = stack.pop()
        if not d:
            continue
        yield d, ns
        if d.get("k") in ("NamespaceDecl", "LinkageSpecDecl"):
            sub = ns + ((d.get("n") or "<anon>"),) if d.get("k") == "NamespaceDecl" else ns
            f = d.get("file") or d.get("nfile")
            for c in reversed(cir.kids(d)):
                if c and f and c.get("file") is None:
                    c["file"] = f
                stack.append((c, sub))


def cond_core(n):
    """(core condition, negated) with C++20 rewritten operators (`a != b` as `!(a == b)`) and `!` removed."""
    neg = False
    n = skip(n)
    while n is not None:
        if n.get("k") == "CXXRewrittenBinaryOperator":
            n = skip(cir.kids(n)[0])
            continue
        if n.get("k") == "UnaryOperator" and n.get("op") == "!":
            neg = not neg
            n = skip(cir.kids(n)[0])
            continue
        break
    return n, neg


# ----------------------------------------------------------------------------- expression text

_TRANSPARENT_CXX = {"CXXBindTemporaryExpr", "MaterializeTemporaryExpr", "ExprWithCleanups"}


def real_args(n):
    return [a for a in cir.kids(n) if a is not None and a.get("k") != "CXXDefaultArgExpr"]


def is_conversion_construct(n):
    """Single-argument construction that only re-wraps a value: std:: value types (string, string_view, ...)
    and copy/move constructions.  Constructions of user classes from other types are real operations."""
    a = real_args(n)
    if len(a) != 1:
        return False
    t = strip_cvref(n.get("dt") or n.get("t"))
    t0 = strip_cvref(n.get("t"))
    if t.startswith("std::") or t0.startswith("std::") or "basic_string" in t:
        return True
    m = re.match(r"^void \((.*)\)", n.get("ctort") or "")
    if m:
        p = strip_cvref(m.group(1)).replace("&&", "").strip()
        if p in (t, t0):
            return True
    at = strip_cvref(a[0].get("t"))
    return at in (t, t0)


def skip(n):
    """Strip parens, casts, temporaries and value-preserving single-argument constructions."""
    while n is not None:
        n2 = cir.strip(n)
        if n2 is None:
            return n
        n = n2
        if n.get("k") in ("CXXConstructExpr", "CXXTemporaryObjectExpr") and is_conversion_construct(n):
            n = real_args(n)[0]
            continue
        return n
    return n


def op_name(n):
    """operator name of a CXXOperatorCallExpr ('->', '[]', '==', ...)."""
    if n is None or n.get("k") != "CXXOperatorCallExpr":
        return None
    c = cir.kids(n)
    f = cir.strip(c[0]) if c else None
    nm = ((f or {}).get("ref") or {}).get("n") or ""
    m = re.match(r"operator\s*(.*)", nm)
    return m.group(1) if m else None


def op_args(n):
    return list(cir.kids(n)[1:])


def etext(n) -> str:
    """Canonical text; overloaded -> * [] are printed like the built-in operators."""
    n = skip(n)
    if n is None:
        return ""
    k = n.get("k")
    if k == "CXXOperatorCallExpr":
        op = op_name(n)
        a = op_args(n)
        if op == "->" and len(a) == 1:
            return etext(a[0])
        if op == "*" and len(a) == 1:
            return "*" + etext(a[0])
        if op == "[]" and len(a) == 2:
            return f"{etext(a[0])}[{etext(a[1])}]"
        if op == "()" and a:
            return f"{etext(a[0])}({', '.join(etext(x) for x in a[1:])})"
        if len(a) == 2:
            return f"{etext(a[0])} {op} {etext(a[1])}"
        if len(a) == 1:
            return f"{op}{etext(a[0])}"
    if k == "MemberExpr":
        c = cir.kids(n)
        if not c:
            return str(n.get("n"))
        b = skip(c[0])
        if b is not None and b.get("k") == "CXXThisExpr":
            return str(n.get("n"))
        return etext(b) + ("->" if n.get("arrow") else ".") + str(n.get("n"))
    if k in ("CXXMemberCallExpr", "CallExpr"):
        c = cir.kids(n)
        return f"{etext(c[0])}({', '.join(etext(a) for a in c[1:] if a is not None and a.get('k') != 'CXXDefaultArgExpr')})"
    if k == "UnaryOperator":
        c = cir.kids(n)
        inner = etext(c[0])
        if n.get("isPostfix"):
            return inner + n.get("op")
        if n.get("op") == "&" and inner.startswith("*"):
            return inner[1:]
        if n.get("op") == "*" and inner.startswith("&"):
            return inner[1:]
        return n.get("op") + inner
    if k in ("BinaryOperator", "CompoundAssignOperator"):
        c = cir.kids(n)
        return f"{etext(c[0])} {n.get('op')} {etext(c[1])}"
    if k == "ConditionalOperator":
        c = cir.kids(n)
        return f"{etext(c[0])} ? {etext(c[1])} : {etext(c[2])}"
    if k in ("CXXConstructExpr", "CXXTemporaryObjectExpr"):
        a = real_args(n)
        return f"{short_type(n.get('t'))}({', '.join(etext(x) for x in a)})"
    if k == "InitListExpr":
        return "{" + ", ".join(etext(x) for x in cir.kids(n)) + "}"
    if k == "StringLiteral":
        return str(n.get("v"))
    return cir.text(n)


def short_type(t):
    t = (t or "").replace("const ", "").strip()
    return t


def words(s):
    return set(re.findall(r"[A-Za-z_]\w*", s or ""))


def subst_words(s, mapping):
    if not mapping:
        return s
    return re.sub(r"[A-Za-z_]\w*", lambda m: mapping.get(m.group(0), m.group(0)), s)


def elem_key_ptr(ptr_expr) -> str:
    """Canonical designation of the object a pointer expression points to."""
    return etext(ptr_expr)


def elem_key_obj(obj_expr) -> str:
    s = etext(obj_expr)
    if s.startswith("*"):
        return s[1:]
    return "&" + s


def receiver(call):
    """(object expression, is_arrow, member name, member id) of a member call, or None."""
    if call is None or call.get("k") != "CXXMemberCallExpr":
        return None
    c = cir.kids(call)
    f = cir.strip(c[0]) if c else None
    if f is None or f.get("k") != "MemberExpr":
        return None
    b = cir.kids(f)
    return (b[0] if b else None), bool(f.get("arrow")), f.get("n"), f.get("mid")


def receiver_key(call) -> str | None:
    r = receiver(call)
    if r is None or r[0] is None:
        return None
    return elem_key_ptr(r[0]) if r[1] else elem_key_obj(r[0])


def field_of(n):
    """FieldDecl id if n (after stripping) is a MemberExpr naming a data member."""
    n = skip(n)
    if n is not None and n.get("k") == "MemberExpr" and n.get("mid"):
        return n.get("mid")
    return None


def member_call_on_field(call):
    """(field id, method name) if call is `<...>.field.method(...)`."""
    r = receiver(call)
    if r is None:
        return None
    f = field_of(r[0])
    if f is None:
        return None
    return f, r[2]


def op_call_on_field(call):
    """(field id, operator) if call is `field[...]` etc."""
    if call is None or call.get("k") != "CXXOperatorCallExpr":
        return None
    a = op_args(call)
    if not a:
        return None
    f = field_of(a[0])
    if f is None:
        return None
    return f, op_name(call)


def template_args(t):
    """Top-level template arguments of a type spelling."""
    t = t or ""
    i = t.find("<")
    if i < 0:
        return []
    depth = 0
    out, cur = [], []
    for ch in t[i:]:
        if ch == "<":
            depth += 1
            if depth == 1:
                continue
        elif ch == ">":
            depth -= 1
            if depth == 0:
                out.append("".join(cur).strip())
                break
        elif ch == "," and depth == 1:
            out.append("".join(cur).strip())
            cur = []
            continue
        cur.append(ch)
    return out


def template_name(t):
    t = (t or "").strip()
    t = re.sub(r"^(const|volatile|mutable)\s+", "", t)
    i = t.find("<")
    return (t if i < 0 else t[:i]).strip()


def strip_cvref(t):
    t = (t or "").strip()
    t = re.sub(r"\bconst\b", "", t)
    t = t.replace("&", "").strip()
    return re.sub(r"\s+", " ", t)


# ----------------------------------------------------------------------------- class model

class Method:
    def __init__(self, cls, decl, access):
        self.cls = cls
        self.decl = decl                  # in-class declaration
        self.id = decl.get("id")
        self.name = decl.get("n")
        self.kind = decl.get("k")
        self.access = access
        self.type = decl.get("t") or ""
        self.node = decl if cir.body(decl) is not None else None    # definition (with body)
        self.deleted = bool(decl.get("explicitlyDeleted"))
        self.defaulted = bool(decl.get("explicitlyDefaulted"))
        self.implicit = bool(decl.get("isImplicit"))
        self.static = decl.get("storageClass") == "static"

    @property
    def desc(self):
        t = self.type
        i = t.find("(")
        if i < 0:
            return f"{self.name}()"
        depth = 0
        j = i
        for j in range(i, len(t)):
            if t[j] == "(":
                depth += 1
            elif t[j] == ")":
                depth -= 1
                if depth == 0:
                    break
        tail = " const" if t[j + 1:].strip().startswith("const") else ""
        return f"{self.name}({t[i + 1:j]}){tail}"

    @property
    def qual(self):
        return f"{self.cls.name}::{self.desc}"

    @property
    def body(self):
        return cir.body(self.node) if self.node is not None else None

    @property
    def file(self):
        return (self.node or self.decl).get("file") or self.cls.file

    @property
    def line(self):
        return (self.node or self.decl).get("line")

    def params(self):
        return cir.params(self.node or self.decl)

    def is_special(self):
        return self.kind in ("CXXConstructorDecl", "CXXDestructorDecl") or self.name in ("operator=",)


class ClassModel:
    """Fields, methods (with access and out-of-line definitions), friends of one class."""

    def __init__(self, decls, name, tu_file=None):
        self.name = name
        rec = None
        flat = list(all_decls(decls))
        for d, ns in flat:
            if d.get("k") == "CXXRecordDecl" and d.get("n") == name and d.get("completeDefinition"):
                rec = d
                self.ns = ns
                break
        if rec is None:
            # records nested in an (anonymous) namespace / other class
            for d, ns in flat:
                for x in cir.walk(d):
                    if x.get("k") == "CXXRecordDecl" and x.get("n") == name and x.get("completeDefinition"):
                        rec = x
                        self.ns = ns
                        break
                if rec is not None:
                    break
        if rec is None:
            raise AnalysisError(f"anchor class {name} not found")
        self.node = rec
        self.file = rec.get("file") or rec.get("nfile") or tu_file
        self.is_struct = rec.get("tagUsed") == "struct"
        self.fields = {}         # id -> FieldDecl
        self.field_order = []
        self.field_access = {}
        self.methods = {}        # in-class decl id -> Method
        self.friends = []
        self.bases = rec.get("bases") or []
        access = "public" if self.is_struct else "private"
        for c in cir.kids(rec):
            if not c:
                continue
            k = c.get("k")
            if k == "AccessSpecDecl":
                access = c.get("access") or access
            elif k == "FieldDecl":
                self.fields[c.get("id")] = c
                self.field_order.append(c.get("id"))
                self.field_access[c.get("id")] = access
            elif k in METHOD_KINDS:
                self.methods[c.get("id")] = Method(self, c, access)
            elif k == "FunctionTemplateDecl":
                for m in cir.kids(c):
                    if m and m.get("k") in METHOD_KINDS:
                        mm = Method(self, m, access)
                        mm.template = c
                        self.methods[m.get("id")] = mm
            elif k == "FriendDecl":
                self.friends.append(c.get("t") or "?")
        # out-of-line definitions (a later reference may name the definition instead of the in-class declaration)
        self.by_id = dict(self.methods)
        for d, ns in flat:
            if d.get("k") in METHOD_KINDS and d.get("prev") in self.methods and cir.body(d) is not None:
                m = self.methods[d["prev"]]
                d.setdefault("file", d.get("nfile") or tu_file)
                m.node = d
                self.by_id[d.get("id")] = m
        for m in self.methods.values():
            if m.node is not None and m.node.get("file") is None:
                m.node["file"] = self.file

    # -- lookups
    def field_named(self, name):
        for fid, f in self.fields.items():
            if f.get("n") == name:
                return fid
        return None

    def fname(self, fid):
        f = self.fields.get(fid)
        return f.get("n") if f else str(fid)

    def methods_named(self, name):
        return [m for m in self.methods.values() if m.name == name]

    def require_method(self, name):
        ms = [m for m in self.methods_named(name) if not m.deleted]
        if not ms:
            raise AnalysisError(f"anchor method {self.name}::{name} not found")
        return ms

    def user_methods(self):
        """Methods with a user-written body (no implicit/defaulted/deleted)."""
        return [m for m in self.methods.values() if m.node is not None and not m.implicit and not m.defaulted
                and not m.deleted]

    def callee_method(self, call):
        """Method of this class called by `call` (by member id), else None."""
        if call is None or call.get("k") != "CXXMemberCallExpr":
            return None
        c = cir.kids(call)
        f = cir.strip(c[0]) if c else None
        if f is None or f.get("k") != "MemberExpr":
            return None
        return self.by_id.get(f.get("mid"))

    # -- field access summaries
    def fields_read_by(self, method):
        out = set()
        if method.node is None:
            return out
        for x in walk(method.node):
            if x.get("k") == "MemberExpr" and x.get("mid") in self.fields:
                out.add(x["mid"])
        return out

    def returned_field(self, method):
        """Field id when every return of the method returns (the value/address/.get() of) one field."""
        b = method.body
        if b is None:
            return None
        got = set()
        vl = None
        for x in walk(b):
            if x.get("k") == "ReturnStmt":
                c = [y for y in cir.kids(x) if y is not None]
                if not c:
                    return None
                e = skip(c[0])
                for _ in range(4):      # `const T v = field_; return v;` reports the same field
                    if e is None or e.get("k") != "DeclRefExpr" or (e.get("ref") or {}).get("k") != "VarDecl":
                        break
                    if vl is None:
                        vl = value_locals(method.node)
                    d = vl.get(e["ref"].get("id"))
                    if d is None:
                        break
                    e = skip(d[1])
                if e is not None and e.get("k") == "CXXMemberCallExpr":
                    r = receiver(e)
                    if r and r[2] in ("get",):
                        e = skip(r[0])
                f = field_of(e)
                if f is None or f not in self.fields:
                    return None
                got.add(f)
        return got.pop() if len(got) == 1 else None

    def accessors_of(self, fid):
        return {m.id for m in self.methods.values() if m.node is not None and self.returned_field(m) == fid}

    def field_writes(self, method):
        """[(field id, node, rhs expr or None)] for direct writes to own fields in a method body."""
        out = []
        if method.node is None:
            return out
        for x in walk(method.node):
            k = x.get("k")
            tgt = rhs = None
            if k == "BinaryOperator" and x.get("op") == "=":
                tgt, rhs = cir.kids(x)
            elif k == "CompoundAssignOperator":
                tgt, rhs = cir.kids(x)
            elif k == "UnaryOperator" and x.get("op") in ("++", "--"):
                tgt = cir.kids(x)[0]
            elif k == "CXXOperatorCallExpr" and op_name(x) in ("=", "+=", "-=", "++", "--"):
                a = op_args(x)
                tgt = a[0] if a else None
                rhs = a[1] if len(a) > 1 else None
            if tgt is None:
                continue
            t = cir.strip(tgt)
            if t is not None and t.get("k") == "MemberExpr" and t.get("mid") in self.fields:
                b = cir.kids(t)
                base = skip(b[0]) if b else None
                if base is None or base.get("k") == "CXXThisExpr":
                    out.append((t["mid"], x, rhs))
        return out

    def ctor_inits(self, ctor):
        """{field id: init expr} of a constructor (written and implicit initialisers).

        clang lists initialisers in field order; members of trivial type with neither a written
        nor a default initialiser are omitted, which is resolved by counting.
        """
        node = ctor.node or ctor.decl
        inits = [c for c in cir.kids(node) if c and c.get("k") == "CXXCtorInitializer"]
        if self.bases:
            raise AnalysisError(f"{self.name}: constructor initialisers of a derived class are not modelled")
        order = list(self.field_order)
        missing = len(order) - len(inits)
        if missing < 0:
            raise AnalysisError(f"{self.name}: more constructor initialisers than fields")
        if missing:
            cand = [f for f in order if not [c for c in cir.kids(self.fields[f]) if c] and
                    _TRIVIAL.match(strip_cvref(self.fields[f].get("dt") or self.fields[f].get("t")))]
            if len(cand) != missing:
                raise AnalysisError(f"{self.name}: cannot attribute constructor initialisers to fields "
                                    f"({len(inits)} initialisers, {len(order)} fields, {len(cand)} omittable)")
            order = [f for f in order if f not in cand]
        out = {}
        for f, ini in zip(order, inits):
            c = [x for x in cir.kids(ini) if x is not None]
            out[f] = c[0] if c else None
        return out


def methods_touching(cm, fids):
    """{method id: set(field ids directly accessed)} restricted to `fids`."""
    out = {}
    for m in cm.methods.values():
        if m.node is None:
            continue
        s = {x["mid"] for x in walk(m.node) if x.get("k") == "MemberExpr" and x.get("mid") in fids}
        out[m.id] = s
    return out


def internal_calls(cm, method):
    """[(callee Method, call node)] for calls of own-class methods inside a method body."""
    out = []
    if method.node is None:
        return out
    for x in walk(method.node):
        if x.get("k") == "CXXMemberCallExpr":
            cal = cm.callee_method(x)
            if cal is not None:
                out.append((cal, x))
    return out


def topo_private_first(cm, methods):
    """Order methods so that callees come before callers (own-class calls); recursion is an error."""
    ids = {m.id: m for m in methods}
    deps = {m.id: {c.id for c, _ in internal_calls(cm, m) if c.id in ids and c.id != m.id} for m in methods}
    out, done, visiting = [], set(), set()

    def visit(i):
        if i in done:
            return
        if i in visiting:
            raise AnalysisError(f"{cm.name}: recursive helper methods are not modelled")
        visiting.add(i)
        for j in sorted(deps[i]):
            visit(j)
        visiting.discard(i)
        done.add(i)
        out.append(ids[i])
    for m in methods:
        visit(m.id)
    return out


_TRIVIAL = re.compile(r"^((unsigned|signed)\s+)?(long long|long|int|short|char|bool|float|double|unsigned|size_t)$|.*\*$")

GUARD_TEMPLATES = ("std::lock_guard", "std::unique_lock", "std::scoped_lock")


def guard_decl_mutex(vardecl):
    """Field id of the mutex locked by `std::lock_guard<...> v(mutex_member)`, else None."""
    if vardecl is None or vardecl.get("k") != "VarDecl":
        return None
    if template_name(vardecl.get("t")) not in GUARD_TEMPLATES:
        return None
    init = [c for c in cir.kids(vardecl) if c is not None]
    if not init:
        return None
    e = cir.strip(init[-1])
    while e is not None and e.get("k") in _TRANSPARENT_CXX:
        e = cir.strip(cir.kids(e)[0])
    if e is None or e.get("k") != "CXXConstructExpr":
        return None
    a = real_args(e)
    if len(a) != 1:          # defer_lock / adopt_lock / try_to_lock forms are not "holds the lock here"
        return None
    return field_of(a[0])


# ----------------------------------------------------------------------------- path exploration

class _TU:
    def __init__(self, tu):
        self.tu = tu


class CxxExplorer(paths.Explorer):
    """paths.Explorer plus structured bindings and scope exits (RAII guards)."""

    def s_DeclStmt(self, n, S):
        cur = set(S)
        for d in cir.kids(n):
            if d is None:
                continue
            if d.get("k") == "DecompositionDecl":
                init = [c for c in cir.kids(d) if c is not None and c.get("k") != "BindingDecl"]
                if init:
                    cur = self.expr(init[-1], cur)
                nxt = set()
                for st, env in cur:
                    for b in cir.kids(d):
                        if b and b.get("k") == "BindingDecl":
                            env = self._invalidate(env, b.get("n"))
                    for s2 in self._many(self.rule.assign(st, d, self.ctx)):
                        nxt.add((s2, env))
                cur = nxt
            else:
                cur = super().s_DeclStmt({"k": "DeclStmt", "i": [d], "line": n.get("line")}, cur)["next"]
        return self._res(cur)

    def s_CompoundStmt(self, n, S):
        res = super().s_CompoundStmt(n, S)
        hook = getattr(self.rule, "scope_exit", None)
        if hook is not None:
            for key in ("next", "break", "continue"):
                res[key] = {(hook(st, n, self.ctx), env) for st, env in res[key]}
        return res

    def s_CXXForRangeStmt(self, n, S):
        c = list(cir.kids(n))
        body = c[-1]
        for pre in c[:-1]:
            if pre is not None and pre.get("k") == "DeclStmt":
                S = self.stmt(pre, S)["next"]
        # the loop variable is re-bound on every iteration: rule.range_iter(state, loop, ctx)
        hook = getattr(self.rule, "range_iter", None)
        exits = set(S)
        seen = set()
        work = set(S)
        while work:
            if hook is not None:
                work = {(hook(st, n, self.ctx), env) for st, env in work}
            work -= seen
            seen |= work
            self._check(seen)
            r = self.stmt(body, work)
            exits |= r["break"]
            after = r["next"] | r["continue"]
            exits |= after
            work = after - seen
        return self._res(exits)


def range_vars(loop):
    """Names bound by the loop variable declaration of a CXXForRangeStmt."""
    c = [x for x in cir.kids(loop)]
    out = set()
    for pre in c[:-1]:
        if pre is not None and pre.get("k") == "DeclStmt":
            for d in cir.kids(pre):
                if d and not d.get("isImplicit"):
                    if d.get("n"):
                        out.add(d["n"])
                    for b in cir.kids(d):
                        if b and b.get("k") == "BindingDecl" and b.get("n"):
                            out.add(b["n"])
    return out


def explore(rule, tu, fn):
    return CxxExplorer(rule, _TU(tu), fn).run()


def scope_guards(compound):
    """ids of guard variables declared directly in a compound statement."""
    out = set()
    for st in cir.kids(compound):
        if st and st.get("k") == "DeclStmt":
            for d in cir.kids(st):
                if d and guard_decl_mutex(d) is not None:
                    out.add(d.get("id"))
    return out


# ----------------------------------------------------------------------------- value locals / loop exits

def is_const_local(t):
    """The declared type makes the variable itself immutable (`const T`, `T *const`), references excluded."""
    t = (t or "").strip()
    if "&" in t:
        return False
    if "*" in t:
        return bool(re.search(r"\*\s*const$", t))
    return t.startswith("const ") or t.endswith(" const")


def value_locals(fn_node):
    """{VarDecl id: (VarDecl, init expr)} of the locals of a function that hold one value for their whole life:
    declared with an initialiser, not static, not a reference, and never written, incremented, bound to a reference or
    address-taken afterwards (every mention is an rvalue read, or the variable is const).  Whether the *initialiser* still
    denotes the same value at a later point is the caller's business (it depends on what the rule tracks)."""
    par = {}
    for x in walk(fn_node):
        for c in cir.kids(x):
            if c:
                par[id(c)] = x
        if x.get("k") == "LambdaExpr":
            b = lambda_body(x)
            if b is not None:
                par[id(b)] = x
    cand = {}
    for x in walk(fn_node):
        if x.get("k") != "VarDecl" or not x.get("init") or x.get("storageClass") == "static":
            continue
        t = x.get("t") or ""
        if "&" in t or "[" in t:
            continue
        init = [c for c in cir.kids(x) if c is not None and not c.get("k", "").endswith("Attr")]
        if len(init) != 1:
            continue
        cand[x.get("id")] = (x, init[0])
    for x in walk(fn_node):
        if x.get("k") != "DeclRefExpr":
            continue
        rid = (x.get("ref") or {}).get("id")
        if rid not in cand or is_const_local(cand[rid][0].get("t")):
            continue
        p = par.get(id(x))
        while p is not None and p.get("k") == "ParenExpr":
            p = par.get(id(p))
        if p is None or p.get("k") != "ImplicitCastExpr" or p.get("ck") != "LValueToRValue":
            del cand[rid]
    return cand


def loop_parts(lp):
    """(condition or None, body) of a while / for / do loop."""
    c = list(cir.kids(lp))
    k = lp.get("k")
    if k == "DoStmt":
        return c[1], c[0]
    if k == "ForStmt":
        c += [None] * 5
        return c[2], c[4]
    if k == "WhileStmt":
        return c[0], c[-1]
    return None, None


def loop_exit_conds(lp):
    """Every condition that decides whether the loop goes on: the loop condition itself and the conditions of the
    `if (g) break;` / `if (g) return ..;` / `if (g) {..} else break;` statements placed directly in the loop body
    (`while (c) S`, `for (;;) { if (!c) break; S }` and `do { S; if (!c) break; } while (true)` exit on the same test)."""
    cond, body = loop_parts(lp)
    out = [cond] if cond is not None else []
    sts = cir.kids(body) if body is not None and body.get("k") == "CompoundStmt" else [body]
    for st in sts:
        if st is None or st.get("k") != "IfStmt" or st.get("hasInit") or st.get("hasVar"):
            continue
        c = list(cir.kids(st))
        for arm in c[1:3]:
            a = arm
            while a is not None and a.get("k") == "CompoundStmt" and len([y for y in cir.kids(a) if y]) == 1:
                a = [y for y in cir.kids(a) if y][0]
            if a is not None and a.get("k") in ("BreakStmt", "ReturnStmt"):
                out.append(c[0])
                break
    return out


def _ref_id(e):
    e = skip(e)
    return (e.get("ref") or {}).get("id") if e is not None and e.get("k") == "DeclRefExpr" else None


def modifies_var(n, vid):
    """Some node under n assigns to / increments / takes the address of the variable with id vid."""
    for x in walk(n):
        k = x.get("k")
        tgt = None
        if (k == "BinaryOperator" and x.get("op") == "=") or k == "CompoundAssignOperator":
            tgt = cir.kids(x)[0]
        elif k == "UnaryOperator" and x.get("op") in ("++", "--", "&"):
            tgt = cir.kids(x)[0]
        elif k == "CXXOperatorCallExpr" and op_name(x) in ("=", "+=", "-=", "++", "--"):
            a = op_args(x)
            tgt = a[0] if a else None
        if tgt is not None and _ref_id(tgt) == vid:
            return True
    return False


def _is_step(e, vid):
    e = skip(e)
    if e is None:
        return False
    if e.get("k") == "UnaryOperator" and e.get("op") == "++":
        return _ref_id(cir.kids(e)[0]) == vid
    if e.get("k") == "CompoundAssignOperator" and e.get("op") == "+=":
        a, b = cir.kids(e)
        b = skip(b)
        return _ref_id(a) == vid and b is not None and b.get("k") == "IntegerLiteral" and str(b.get("v")) == "1"
    return False


def index_loop(root, lp):
    """A loop that counts a local upward by one, whichever way it is written:
        for (i = s; i < B; i++) BODY          i = s; while (i < B) { BODY; i++; }
    -> {"var": id, "start": expr, "bound": expr, "op": "<" | "!=", "body": [statements of BODY]} or None.
    BODY does not modify the counter; in the while form the step is the last statement of the body, no `continue`
    can skip it, and nothing between the initialisation and the loop modifies the counter."""
    k = lp.get("k")
    if k not in ("ForStmt", "WhileStmt"):
        return None
    cond, body = loop_parts(lp)
    c = skip(cond)
    if c is None or c.get("k") != "BinaryOperator" or c.get("op") not in ("<", "!=", ">"):
        return None
    a, b = cir.kids(c)
    if c["op"] == ">":
        a, b, op = b, a, "<"
    else:
        op = c["op"]
    vid = _ref_id(a)
    if vid is None or (skip(a).get("ref") or {}).get("k") != "VarDecl":
        return None

    def start_of(st):
        """initial value if statement st (re)initialises the counter"""
        if st is None:
            return None
        if st.get("k") == "DeclStmt":
            for d in cir.kids(st):
                if d and d.get("k") == "VarDecl" and d.get("id") == vid:
                    init = [y for y in cir.kids(d) if y is not None]
                    return init[-1] if init else None
            return None
        e = skip(st)
        if e is not None and e.get("k") == "BinaryOperator" and e.get("op") == "=" and _ref_id(cir.kids(e)[0]) == vid:
            return cir.kids(e)[1]
        return None
    stmts = [y for y in cir.kids(body) if y is not None] if body is not None and body.get("k") == "CompoundStmt" else \
        ([body] if body is not None else [])
    if k == "ForStmt":
        kids = list(cir.kids(lp)) + [None] * 5
        start = start_of(kids[0])
        if start is None or not _is_step(kids[3], vid):
            return None
    else:
        if not stmts or not _is_step(stmts[-1], vid):
            return None
        stmts = stmts[:-1]
        for st in stmts:
            for x in walk(st):
                if x.get("k") == "ContinueStmt":
                    return None
        start = None
        for P in walk(root):
            if P.get("k") == "CompoundStmt" and any(y is lp for y in cir.kids(P)):
                sib = list(cir.kids(P))
                i = [j for j, y in enumerate(sib) if y is lp][0]
                for st in reversed(sib[:i]):
                    start = start_of(st)
                    if start is not None or (st is not None and modifies_var(st, vid)):
                        break
                break
        if start is None:
            return None
    if any(modifies_var(st, vid) for st in stmts) or modifies_var(b, vid):
        return None
    return {"var": vid, "start": start, "bound": b, "op": op, "body": stmts}


# ----------------------------------------------------------------------------- linear forms

def linear(n, leaf, resolve=None):
    """Flatten an expression over + and - into {term: coefficient}.  `leaf(expr) -> term`.
    `resolve(expr) -> expr` (optional) is applied to every operand first: a rule passes the function that replaces
    a value local by its defining expression, so that a hoisted sub-expression and the spelled-out one give one form."""
    out = {}

    def go(x, sign):
        x = cir.strip(x)
        if resolve is not None:
            x = cir.strip(resolve(x))
        if x is not None and x.get("k") == "BinaryOperator" and x.get("op") in ("+", "-"):
            a, b = cir.kids(x)
            go(a, sign)
            go(b, sign if x.get("op") == "+" else -sign)
            return
        t = leaf(x)
        out[t] = out.get(t, 0) + sign
    go(n, 1)
    return {t: c for t, c in out.items() if c != 0}


def is_zero_literal(n):
    n = skip(n)
    return n is not None and n.get("k") == "IntegerLiteral" and str(n.get("v")) == "0"


# ----------------------------------------------------------------------------- aliases of protected storage
# (additive: used by C38's "protected alias" clause of R-LOCK; nothing above depends on it)

_VIEW_TYPES = ("string_view", "std::span", "reference_wrapper", "initializer_list")


def carries_alias(t, dt=None):
    """The type can hold a non-owning handle into somebody else's storage: a raw pointer, an iterator or a view, directly
    or as a template argument (pair<iterator, bool>, vector<T *>).  Owning / value types (size_t, std::string,
    std::shared_ptr<T>) do not.  The desugared spelling is preferred (it resolves `auto`, typedefs and tuple_element)."""
    s = dt or t or ""
    for _ in range(6):          # function types and function-pointer declarators say nothing about stored handles
        s2 = re.sub(r"\([^()]*\)", "", s)
        if s2 == s:
            break
        s = s2
    return "*" in s or "iterator" in s.lower() or any(v in s for v in _VIEW_TYPES)


def parent_map(fn_node):
    """{id(child node): parent node} over a function (lambda bodies included)."""
    par = {}
    for x in cir.walk(fn_node):
        for c in cir.kids(x):
            if c:
                par[id(c)] = x
    return par


_ALIAS_CASTS = {"ParenExpr", "ImplicitCastExpr", "CStyleCastExpr", "CXXStaticCastExpr", "CXXConstCastExpr",
                "CXXReinterpretCastExpr", "CXXFunctionalCastExpr", "CXXDynamicCastExpr", "ExprWithCleanups", "ConstantExpr",
                "FullExpr", "SubstNonTypeTemplateParmExpr"}
_ALIAS_TEMPS = {"MaterializeTemporaryExpr", "CXXBindTemporaryExpr"}
_CMP_OPS = ("==", "!=", "<", ">", "<=", ">=", "<=>")


class AliasEval:
    """Does an expression designate, or evaluate to a handle into, storage that a lock protects?

    value(e, env) -> None | (cls, root, stale)
        cls   "L": e is a glvalue designating protected storage (a member, an element, `*p`, `it->second`, a reference
                   bound to one of those, the result of a call on such an object that is not a temporary);
              "V": e is a value that points into it (address of an "L", an iterator / raw pointer / view returned by a call
                   on such an object, a raw pointer read out of it, a local holding one of these);
        root  the name of the protected member the storage belongs to;
        stale the handle was obtained in a lock region that has ended since.
    env: {VarDecl/BindingDecl id: (root, stale)} of the locals that currently hold such a handle; `is_ref(id)` says whether a
    local is a reference (then mentioning it designates the storage itself).  `member_root(mid)` names a protected data
    member of `this` (else None), `own_call_root(call)` names what a call of an own-class method on `this` hands out.
    Only data flow and types decide: a call result is a handle when its type can carry one (`carries_alias`), it designates
    protected storage when it is used as an lvalue (clang wraps class prvalues in MaterializeTemporaryExpr /
    CXXBindTemporaryExpr: those are copies); everything copied by value into a type that cannot carry a handle is clean."""

    def __init__(self, member_root, own_call_root, is_ref):
        self.member_root, self.own_call_root, self.is_ref = member_root, own_call_root, is_ref

    @staticmethod
    def _join(*vals):
        vals = [v for v in vals if v is not None and v[0] != "T"]
        if not vals:
            return None
        return vals[0][1], any(v[2] for v in vals)

    def value(self, e, env):
        if e is None:
            return None
        k = e.get("k")
        c = [x for x in cir.kids(e) if x is not None]
        if k in _ALIAS_CASTS:
            if not c:
                return None
            r = self.value(c[-1], env)
            if r is None or r[0] == "T":
                return r
            if k == "ImplicitCastExpr" and e.get("ck") == "LValueToRValue" and r[0] == "L":
                return ("V", r[1], r[2]) if carries_alias(e.get("t"), e.get("dt")) else None
            if k == "ImplicitCastExpr" and e.get("ck") == "ArrayToPointerDecay" and r[0] == "L":
                return ("V", r[1], r[2])
            return r
        if k in _ALIAS_TEMPS:
            r = self.value(c[-1], env) if c else None
            if r is not None and r[0] == "L":          # a materialised prvalue is a copy, not the protected object
                return ("V", r[1], r[2]) if carries_alias(e.get("t"), e.get("dt")) else None
            return r
        if k == "CXXThisExpr":
            return ("T", None, False)
        if k == "DeclRefExpr":
            rid = (e.get("ref") or {}).get("id")
            if rid in env:
                root, stale = env[rid]
                return ("L" if self.is_ref(rid) else "V", root, stale)
            return None
        if k == "MemberExpr":
            b = self.value(c[0], env) if c else ("T", None, False)
            if b is None:
                return None
            if b[0] == "T":
                root = self.member_root(e.get("mid"))
                return ("L", root, False) if root else None
            if e.get("t") == "<bound member function type>":
                return b
            if e.get("arrow") or b[0] == "L":
                return ("L", b[1], b[2])
            # member of a by-value aggregate that holds handles (pair<iterator, bool>::first)
            return ("V", b[1], b[2]) if carries_alias(e.get("t"), e.get("dt")) else None
        if k == "UnaryOperator":
            op = e.get("op")
            r = self.value(c[0], env) if c else None
            if r is None or r[0] == "T":
                return None
            if op == "*":
                return ("L", r[1], r[2])
            if op == "&":
                inner = cir.strip(c[0], casts=False)
                if inner is not None and inner.get("k") == "DeclRefExpr" and r[0] == "V":
                    return None                          # address of the local that holds the handle
                return ("V", r[1], r[2])
            if op in ("++", "--"):
                return r
            return None
        if k == "ArraySubscriptExpr":
            j = self._join(*(self.value(x, env) for x in c))
            return ("L",) + j if j else None
        if k in ("BinaryOperator", "CompoundAssignOperator"):
            op = e.get("op")
            if op == ",":
                return self.value(c[1], env)
            if op == "=":
                return self.value(c[1], env)
            if op in ("+", "-", "+=", "-=") and carries_alias(e.get("t"), e.get("dt")):
                j = self._join(*(self.value(x, env) for x in c))
                return ("V",) + j if j else None
            return None
        if k in ("ConditionalOperator", "BinaryConditionalOperator"):
            arms = [self.value(x, env) for x in c[1:]]
            j = self._join(*arms)
            if not j:
                return None
            return ("L" if all(a is not None and a[0] == "L" for a in arms) else "V",) + j
        if k == "CXXOperatorCallExpr":
            op = op_name(e)
            a = [self.value(x, env) for x in op_args(e)]
            j = self._join(*a)
            if not j or op in _CMP_OPS:
                return None
            first = a[0] is not None and a[0][0] != "T" if a else False
            if op in ("*", "[]") and first:
                return ("L",) + j
            if op == "->" and first:
                return ("V",) + j
            if op == "=":
                return a[1] if len(a) > 1 and a[1] is not None and a[1][0] != "T" else None
            return ("V",) + j if carries_alias(e.get("t"), e.get("dt")) else None
        if k == "CXXMemberCallExpr":
            r = receiver(e)
            b = self.value(r[0], env) if r and r[0] is not None else (("T", None, False) if r else None)
            av = [self.value(x, env) for x in real_args(e)[1:]]
            if b is not None and b[0] == "T":
                own = self.own_call_root(e)          # (root, returns a reference) or None
                if own is None:
                    return None
                if carries_alias(e.get("t"), e.get("dt")):
                    return ("V", own[0], False)
                return ("L", own[0], False) if own[1] else None
            j = self._join(b, *av)
            if not j:
                return None
            if carries_alias(e.get("t"), e.get("dt")):
                return ("V",) + j
            if b is not None and (b[0] == "L" or (r[1] and b[0] == "V")):
                return ("L", b[1], b[2])       # an lvalue unless materialised as a temporary (see _ALIAS_TEMPS)
            return None
        if k == "CallExpr":
            av = [self.value(x, env) for x in real_args(e)[1:]]
            j = self._join(*av)
            if not j:
                return None
            if carries_alias(e.get("t"), e.get("dt")):
                return ("V",) + j
            if any(a is not None and a[0] == "L" for a in av):
                return ("L",) + j              # std::move(x), std::get<1>(*it), std::as_const(x): still the object
            return None
        if k in ("CXXConstructExpr", "CXXTemporaryObjectExpr", "InitListExpr", "CXXStdInitializerListExpr",
                 "CXXParenListInitExpr"):
            j = self._join(*(self.value(x, env) for x in c))
            return ("V",) + j if j and carries_alias(e.get("t"), e.get("dt")) else None
        return None


_ALIAS_UP = _ALIAS_CASTS | _ALIAS_TEMPS


def direct_handle(t, dt=None):
    """The type *is* a handle (raw pointer, iterator, view), as opposed to an aggregate / container that holds handles."""
    s = strip_cvref(dt or t)
    if s.endswith("*"):
        return True
    top = template_name(s)
    return "iterator" in top.lower() or any(v in top for v in _VIEW_TYPES)


def alias_context(par, node, is_ref, direct=True):
    """How the mention `node` (a DeclRefExpr of a local that holds a handle into protected storage) is used:
    "copy" (its value initialises / is assigned to something: the data flow goes on), "overwrite" (the local itself gets a
    new value), "test" (compared / tested for null: the storage is not touched), "return", "discard", or a description of a
    real use (dereference, member access or call through it, passing it on, reading the referenced object).
    direct=False: the local is a by-value aggregate / container of handles (pair<iterator, bool>, vector<T *>): its own
    members and methods are not the protected storage, only the handles taken out of it are followed."""
    x, p = node, par.get(id(node))
    while p is not None:
        k = p.get("k")
        if not is_ref and not direct and k == "MemberExpr" and cir.kids(p) and cir.kids(p)[0] is x and not p.get("arrow"):
            if p.get("t") == "<bound member function type>":
                call = par.get(id(p))
                if call is None or not carries_alias(call.get("t"), call.get("dt")):
                    return "copy"
                x, p = call, par.get(id(call))
                direct = direct_handle(call.get("t"), call.get("dt"))
                continue
            if not carries_alias(p.get("t"), p.get("dt")):
                return "copy"
            direct = direct_handle(p.get("t"), p.get("dt"))
        elif k in _ALIAS_UP:
            if k == "ImplicitCastExpr" and p.get("ck") == "LValueToRValue" and is_ref:
                return "read of the referenced object"
            if k == "ImplicitCastExpr" and p.get("ck") in ("PointerToBoolean",):
                return "test"
        elif k in ("CXXConstructExpr", "CXXTemporaryObjectExpr") and is_conversion_construct(p):
            if is_ref:
                return "copy of the referenced object"
        elif k in ("ConditionalOperator", "BinaryConditionalOperator") and p.get("i") and p["i"][0] is not x:
            pass
        elif k == "BinaryOperator" and p.get("op") in ("+", "-") and not is_ref:
            pass
        else:
            break
        x, p = p, par.get(id(p))
    if p is None:
        return "discard"
    k = p.get("k")
    kids_ = list(cir.kids(p))
    first = bool(kids_) and kids_[0] is x
    if k in ("VarDecl", "DecompositionDecl"):
        return "copy"
    if k == "ReturnStmt":
        return "return"
    if k in ("CompoundStmt", "NullStmt"):
        return "discard"
    if k in ("IfStmt", "WhileStmt", "DoStmt", "ForStmt", "ConditionalOperator", "BinaryConditionalOperator"):
        return "test"
    if k == "BinaryOperator":
        op = p.get("op")
        if op == "=":
            if first:
                return "write to the referenced object" if is_ref else "overwrite"
            return "copy"
        if op in _CMP_OPS or op in ("&&", "||"):
            return "read of the referenced object" if is_ref else "test"
        if op == ",":
            return "discard" if first else "passing it on"
    if k == "CompoundAssignOperator":
        return "write to the referenced object" if is_ref else "overwrite"
    if k == "UnaryOperator":
        op = p.get("op")
        if op == "!":
            return "read of the referenced object" if is_ref else "test"
        if op == "&":
            return "copy"
        if op == "*":
            return "dereference"
        if op in ("++", "--"):
            return "write to the referenced object" if is_ref else "overwrite"
    if k == "CXXOperatorCallExpr":
        op = op_name(p)
        a = op_args(p)
        first = bool(a) and a[0] is x
        if op in _CMP_OPS:
            return "read of the referenced object" if is_ref else "test"
        if op == "=":
            if first:
                return "write to the referenced object" if is_ref else "overwrite"
            return "copy"
        if op in ("->", "*", "[]"):
            return "dereference" if first else "passing it on"
        if op in ("++", "--", "+=", "-="):
            return "advance (reads the element it designates)"
        return "passing it on"
    if k == "MemberExpr":
        return "member access through it"
    if k == "ArraySubscriptExpr":
        return "dereference"
    if k in ("CallExpr", "CXXMemberCallExpr", "CXXConstructExpr", "CXXTemporaryObjectExpr", "InitListExpr"):
        return "passing it on"
    return "use"


ALIAS_BENIGN = frozenset({"copy", "overwrite", "test", "return", "discard"})


# ----------------------------------------------------------------------------- values that derive from data members
# (additive: used by C39's derived-state rule R-DERIVED; nothing above depends on it)

ABRUPT_KINDS = ("ReturnStmt", "BreakStmt", "ContinueStmt", "GotoStmt", "CXXThrowExpr")
_ASSIGN_OPS = ("=", "+=", "-=", "*=", "/=", "|=", "&=", "^=", "<<=", ">>=", "%=")


def rooted_field(n):
    """(field id, whole) when the lvalue n designates a data member of *this (whole=True) or a part of one that lives
    inside it (`m.x`, `m[i]`, an element of a container member: whole=False).  Storage reached by following a pointer
    held in the member (`m->x`, `*m`) is not part of the member: None."""
    whole = True
    n = skip(n)
    while n is not None:
        k = n.get("k")
        if k == "MemberExpr" and n.get("t") != "<bound member function type>":
            c = cir.kids(n)
            base = skip(c[0]) if c else None
            if base is None or base.get("k") == "CXXThisExpr":
                return (n.get("mid"), whole) if n.get("mid") else None
            if n.get("arrow"):
                return None
            n, whole = base, False
            continue
        if k == "ArraySubscriptExpr":
            n, whole = skip(cir.kids(n)[0]), False
            continue
        if k == "CXXOperatorCallExpr" and op_name(n) == "[]":
            a = op_args(n)
            n, whole = (skip(a[0]) if a else None), False
            continue
        return None
    return None


def assignment_parts(x):
    """(target, value, operator) of an assignment in either spelling (built-in or overloaded operator), else None."""
    k = x.get("k")
    if k in ("BinaryOperator", "CompoundAssignOperator") and x.get("op") in _ASSIGN_OPS:
        c = cir.kids(x)
        return c[0], c[1], x.get("op")
    if k == "CXXOperatorCallExpr" and op_name(x) in _ASSIGN_OPS:
        a = op_args(x)
        if len(a) == 2:
            return a[0], a[1], op_name(x)
    return None


class MemberFlow:
    """Which values in a set of functions derive from the data members `sources` (ids of FieldDecls) of one class.

    Data flow: an expression derives from the sources when it mentions one of them, a local / parameter / structured
    binding that was initialised or assigned from such an expression, or a call of one of the functions that returns such a
    value (parameters are followed through every call site, results through the return statements; least fixed point over
    all functions, flow-insensitive inside a function).
    Control: `controlled(f, node)` says that whether `node` executes depends on a condition that derives from the sources:
    it lies in an arm / body governed by such a condition, or after a statement that can leave the enclosing block
    (return / break / continue / throw) under such a condition -- so what follows a failed search of a table is governed
    by that search, whichever way the search is written (early return, nested if, loop with a return inside).  A callee
    that is called from a governed place is governed from its first statement (`ctl_in`).
    Functions are objects with `.node` (definition) and `.params`; `callee(call)` resolves a call to one of them or None.
    `cond_pred(flow, cond, f)` may narrow which conditions count (default: the condition derives from the sources)."""

    def __init__(self, fns, sources, callee, cond_pred=None, seed_vars=()):
        self.fns = [f for f in fns if cir.body(f.node) is not None]
        self.sources = set(sources)
        self.callee = callee
        self.cond_pred = cond_pred
        # seed_vars: ids of variables (file-level / function-static / class-static) that count as sources as well
        self.tl = {id(f): set(seed_vars) for f in self.fns}
        self.ret = {id(f): False for f in self.fns}
        self.ctl_in = {id(f): False for f in self.fns}
        self.marked = {id(f): frozenset() for f in self.fns}
        self.marked_local = {id(f): frozenset() for f in self.fns}    # the same without what the callers contribute
        self._solve()

    # -- queries
    def mentions(self, e, f):
        if e is None:
            return False
        tl = self.tl.get(id(f), ())
        for x in walk(e):
            k = x.get("k")
            if k == "MemberExpr":
                if x.get("mid") in self.sources:
                    return True
            elif k == "DeclRefExpr":
                if (x.get("ref") or {}).get("id") in tl:
                    return True
            if k in ("CallExpr", "CXXMemberCallExpr"):
                g = self.callee(x)
                if g is not None and self.ret.get(id(g)):
                    return True
        return False

    def controlled(self, f, node, local=False):
        return id(node) in (self.marked_local if local else self.marked).get(id(f), ())

    def governs(self, cond, f):
        if cond is None:
            return False
        if self.cond_pred is not None:
            return bool(self.cond_pred(self, cond, f))
        return self.mentions(cond, f)

    # -- fixed point
    def _solve(self):
        for rounds in range(60):
            changed = False
            for f in self.fns:
                changed |= self._locals(f)
                ml = self._region(f, False)
                m = self._region(f, True) if self.ctl_in[id(f)] else ml
                if m != self.marked[id(f)] or ml != self.marked_local[id(f)]:
                    self.marked[id(f)], self.marked_local[id(f)] = m, ml
                    changed = True
                if not self.ret[id(f)]:
                    # what a function returns derives from the sources through the value or through a test made in the
                    # function itself; that a *caller* reached it under such a test says nothing about the value
                    for x in walk(f.node, lambdas=False):
                        if x.get("k") == "ReturnStmt" and (id(x) in ml or any(self.mentions(c, f) for c in cir.kids(x))):
                            self.ret[id(f)] = True
                            changed = True
                            break
                for x in walk(f.node):
                    if x.get("k") not in ("CallExpr", "CXXMemberCallExpr"):
                        continue
                    g = self.callee(x)
                    if g is None or id(g) not in self.tl:
                        continue
                    if id(x) in m and not self.ctl_in[id(g)]:
                        self.ctl_in[id(g)] = True
                        changed = True
                    for p, a in zip(g.params, cir.kids(x)[1:]):
                        if p.get("id") not in self.tl[id(g)] and self.mentions(a, f):
                            self.tl[id(g)].add(p.get("id"))
                            changed = True
            if not changed:
                return
        raise AnalysisError("MemberFlow: no fixed point after 60 rounds")

    def _locals(self, f):
        tl = self.tl[id(f)]
        n0 = len(tl)
        for x in walk(f.node):
            k = x.get("k")
            if k in ("VarDecl", "DecompositionDecl"):
                if x.get("id") in tl:
                    continue
                if any(self.mentions(c, f) for c in cir.kids(x) if c is not None and c.get("k") != "BindingDecl"):
                    tl.add(x.get("id"))
                    for b in cir.kids(x):
                        if b is not None and b.get("k") == "BindingDecl":
                            tl.add(b.get("id"))
                continue
            ap = assignment_parts(x)
            if ap is not None:
                vid = _ref_id(ap[0])
                if vid is not None and vid not in tl and self.mentions(ap[1], f):
                    tl.add(vid)
                continue
            if k == "CXXMemberCallExpr":          # `local.push_back(v)`, `local.emplace(k, v)`: the local now holds v
                r = receiver(x)
                vid = _ref_id(r[0]) if r and r[0] is not None else None
                if vid is not None and vid not in tl and any(self.mentions(a, f) for a in cir.kids(x)[1:]):
                    tl.add(vid)
        return len(tl) != n0

    def _region(self, f, entry_ctl):
        marked = set()

        def mark(s):
            for x in walk(s):
                marked.add(id(x))

        def seq(lst, ctl):
            esc = False
            for s in lst:
                if s is None:
                    continue
                esc = one(s, ctl or esc) or esc
            return esc

        def exprs(s):
            for x in walk(s, lambdas=False):
                k = x.get("k")
                if k in ("ConditionalOperator", "BinaryConditionalOperator"):
                    c = cir.kids(x)
                    if self.governs(c[0], f):
                        for a in c[1:]:
                            mark(a)
                elif k == "BinaryOperator" and x.get("op") in ("&&", "||"):
                    c = cir.kids(x)
                    if self.governs(c[0], f):
                        mark(c[1])

        def one(s, ctl):
            if s is None:
                return False
            if ctl:
                mark(s)
                return any(x.get("k") in ABRUPT_KINDS for x in walk(s, lambdas=False))
            k = s.get("k")
            c = list(cir.kids(s))
            if k == "CompoundStmt":
                return seq(c, False)
            if k == "IfStmt":
                idx = 0
                pre = []
                if s.get("hasInit"):
                    pre.append(c[idx])
                    idx += 1
                if s.get("hasVar"):
                    pre.append(c[idx])
                    idx += 1
                for p in pre:
                    exprs(p)
                cond = c[idx] if len(c) > idx else None
                exprs(cond)
                t = self.governs(cond, f) or bool(s.get("hasVar") and self.governs(pre[-1], f))
                e = False
                for arm in c[idx + 1:idx + 3]:
                    e = one(arm, t) or e
                return e
            if k in ("WhileStmt", "ForStmt", "DoStmt", "CXXForRangeStmt"):
                if k == "DoStmt":
                    body, heads = (c[0] if c else None), c[1:]
                else:
                    body, heads = (c[-1] if c else None), c[:-1]
                for h in heads:
                    exprs(h)
                t = any(self.governs(h, f) for h in heads if h is not None)
                e = one(body, t)
                if e and not t:               # later iterations run only if the governed exit was not taken
                    mark(s)
                return e
            if k == "SwitchStmt":
                heads, body = c[:-1], (c[-1] if c else None)
                for h in heads:
                    exprs(h)
                return one(body, any(self.governs(h, f) for h in heads if h is not None))
            if k in ABRUPT_KINDS:
                exprs(s)
                return False
            if k.endswith("Stmt") and k not in ("DeclStmt", "NullStmt"):     # labels, attributes, try / catch
                return seq([y for y in c if y is not None and not y.get("k", "").endswith("Attr")], False)
            exprs(s)
            return False
        seq([cir.body(f.node)], entry_ctl)
        return frozenset(marked)
