"""Helpers shared by the C18 / C21 / C25 / C27 checkers (private to them; no shared module is modified).

  FuncTable / cross_unit     function lookup across engine TUs for pipeline.Flattener (orchestration callees that live
                             in another TU, e.g. mj_kinematics in engine_core_smooth.c)
  local_defs / resolve       definitions of locals (initialiser + assignments); single-definition locals resolve to
                             their defining expression
  aliases                    local pointer variables that alias (an offset into) a given struct field
  enum_refs, mentions_field  small AST queries
  references                 rows of MJMODEL_REFERENCES (engine_io.c): address array -> (domain, codomain, count array)
  Prov                       index-space provenance of integer expressions in one C function (R-INDEXDIM)
  clamp_shape                does a helper clamp vec[j] to range[2i], range[2i+1] under limited[i]
  run_mutants                scratch-copy self-test driver (thorough tier)
"""
from __future__ import annotations

import concurrent.futures as cf
import os
import re

from . import cir, engine, modref
from .cfront import REPO, AnalysisError


# ----------------------------------------------------------------------------------------------------------------
# cross-TU function table


class FuncTable:
    """dict-like `.get(name)`: functions of the home unit first, then external definitions found through the
    whole-engine call graph (the defining TU is loaded on demand from the AST cache)."""

    def __init__(self, home, graph, opaque_tus=()):
        self.home = home
        self.graph = graph
        self.units = {home.tu: home}
        self.where = {}
        self.opaque = set(opaque_tus)     # functions defined there are never inlined (they are the event vocabulary)

    def unit_of(self, tu):
        if tu not in self.units:
            self.units[tu] = engine.unit(tu)
        return self.units[tu]

    def get(self, name, default=None):
        fn = self.home.funcs.get(name)
        if fn is not None:
            self.where[name] = self.home.tu
            return fn
        key = self.graph.globals.get(name)
        if key is None or key[0] in self.opaque:
            return default
        u = self.unit_of(key[0])
        fn = u.funcs.get(name)
        if fn is not None:
            self.where[name] = key[0]
        return fn if fn is not None else default

    def __contains__(self, name):
        return self.get(name) is not None

    def __getitem__(self, name):
        fn = self.get(name)
        if fn is None:
            raise KeyError(name)
        return fn


class _CrossUnit:
    def __init__(self, home, graph, opaque_tus=()):
        self.tu = home.tu
        self.funcs = FuncTable(home, graph, opaque_tus)
        self.vars = home.vars
        self.ir = home.ir


def cross_unit(home, graph, opaque_tus=()):
    return _CrossUnit(home, graph, opaque_tus)


# ----------------------------------------------------------------------------------------------------------------
# locals


def is_assign(n):
    k = n.get("k")
    return (k == "BinaryOperator" and n.get("op") == "=") or k == "CompoundAssignOperator" or \
        (k == "UnaryOperator" and n.get("op") in ("++", "--"))


def var_init(d):
    c = [x for x in cir.kids(d) if x is not None and not (x.get("k") or "").endswith("Attr")]
    return c[-1] if c and d.get("init") else None


class LocalDefs(dict):
    """{decl id: [(kind, node)]} for the locals and parameters of one function.  kind: init / assign (plain `=`, node =
    right-hand side) / update (compound assignment or ++/--, node = the operator node) / param.
    Lookup by *name* (`get`, `[]`, `in`) is offered for convenience and only answers when the name denotes a single
    declaration in the function; shadowed / re-declared names (`i`, `adr` in several loops) answer with an extra
    ('ambiguous', None) entry so that nothing is resolved through them by name."""

    def __init__(self):
        super().__init__()
        self.names = {}      # id -> name
        self.ids = {}        # name -> [ids]

    def declare(self, did, name):
        if did not in self.names:
            self.names[did] = name
            self.ids.setdefault(name, []).append(did)
            super().__setitem__(did, [])

    def of(self, ref_node):
        """definitions of the variable a DeclRefExpr refers to"""
        r = (ref_node or {}).get("ref") or {}
        return super().get(r.get("id"))

    def get(self, key, default=None):
        if key in self.names:
            return super().get(key, default)
        ids = self.ids.get(key)
        if not ids:
            return default
        if len(ids) == 1:
            return super().get(ids[0], default)
        out = [("ambiguous", None)]
        for i in ids:
            out += super().get(i, [])
        return out

    def __contains__(self, key):
        return key in self.names or key in self.ids

    def __getitem__(self, key):
        r = self.get(key)
        if r is None:
            raise KeyError(key)
        return r


def local_defs(fn):
    out = LocalDefs()
    for n in walk_own(fn):
        k = n.get("k")
        if k == "VarDecl":
            out.declare(n.get("id"), n.get("n"))
            i = var_init(n)
            if i is not None:
                dict.__getitem__(out, n.get("id")).append(("init", i))
        elif k == "ParmVarDecl":
            out.declare(n.get("id"), n.get("n"))
            dict.__getitem__(out, n.get("id")).append(("param", n))
    for n in walk_own(fn):
        if is_assign(n):
            t = cir.strip(cir.kids(n)[0])
            if t is not None and t.get("k") == "DeclRefExpr":
                did = (t.get("ref") or {}).get("id")
                if did in out.names:
                    if n.get("k") == "BinaryOperator":
                        dict.__getitem__(out, did).append(("assign", cir.kids(n)[1]))
                    else:
                        dict.__getitem__(out, did).append(("update", n))
    return out


def walk_own(fn):
    return cir.walk(fn)


def root_ref(e):
    """the DeclRefExpr at the root of an lvalue / pointer expression (a[i].b + k -> a), or None"""
    n = cir.strip(e)
    while n is not None:
        k = n.get("k")
        if k == "DeclRefExpr":
            return n
        if k in ("MemberExpr", "ArraySubscriptExpr"):
            c = cir.kids(n)
            n = cir.strip(c[0]) if c else None
            continue
        if k == "UnaryOperator" and n.get("op") in ("*", "&"):
            n = cir.strip(cir.kids(n)[0])
            continue
        if k == "BinaryOperator" and n.get("op") in ("+", "-"):
            n = cir.strip(cir.kids(n)[0])
            continue
        return None
    return None


def ref_id(e):
    r = root_ref(e)
    return ((r or {}).get("ref") or {}).get("id")


def resolve(e, defs, depth=0):
    """Follow locals that have exactly one definition (their initialiser) to the defining expression."""
    s = cir.strip(e)
    while s is not None and s.get("k") == "DeclRefExpr" and depth < 8:
        r = s.get("ref") or {}
        if r.get("k") != "VarDecl":
            break
        d = defs.of(s) or []
        if len(d) != 1 or d[0][0] != "init":
            break
        s = cir.strip(d[0][1])
        depth += 1
    return s


def aliases(fn, struct, field, defs=None):
    """Local pointer variables whose every definition is rooted at <struct>-><field> (possibly offset, possibly through
    another alias).  Returns the set of declaration ids."""
    defs = defs if defs is not None else local_defs(fn)
    out = set()
    changed = True
    while changed:
        changed = False
        for v, ds in dict.items(defs):
            if v in out or not ds:
                continue
            ok = True
            for kind, e in ds:
                if kind not in ("init", "assign"):
                    ok = False
                    break
                s = cir.strip(e)
                t = (s or {}).get("t") or ""
                if s is None or "*" not in t:
                    ok = False
                    break
                rf = modref.root_field(s)
                if rf is not None and rf[0] == struct and rf[1] == field:
                    continue
                if rf is None and ref_id(s) in out:
                    continue
                ok = False
                break
            if ok:
                out.add(v)
                changed = True
    return out


def enum_refs(n):
    return {x["ref"]["n"] for x in cir.walk(n)
            if x.get("k") == "DeclRefExpr" and (x.get("ref") or {}).get("k") == "EnumConstantDecl"}


def field_reads(n, struct=None):
    """names of fields accessed through `p->f` (optionally only when p points to `struct`)."""
    out = set()
    for x in cir.walk(n):
        if x.get("k") == "MemberExpr" and x.get("arrow"):
            c = cir.kids(x)
            base = cir.strip(c[0]) if c else None
            if struct is None or (base is not None and modref._struct_of(base.get("t")) == struct):
                out.add(x.get("n"))
    return out


def member_nodes(n, struct, field):
    for x in cir.walk(n):
        if x.get("k") == "MemberExpr" and x.get("arrow") and x.get("n") == field:
            c = cir.kids(x)
            base = cir.strip(c[0]) if c else None
            if base is not None and modref._struct_of(base.get("t")) == struct:
                yield x


def node_ids(n):
    return {id(x) for x in cir.walk(n)}


def if_parts(n):
    c = list(cir.kids(n))
    idx = int(bool(n.get("hasInit"))) + int(bool(n.get("hasVar")))
    cond = c[idx]
    then = c[idx + 1] if len(c) > idx + 1 else None
    els = c[idx + 2] if len(c) > idx + 2 else None
    return cond, then, els


def ends_path(st):
    """statement (or block) whose last statement is continue / return / break"""
    if st is None:
        return None
    if st.get("k") in ("ContinueStmt", "ReturnStmt", "BreakStmt"):
        return st.get("k")
    if st.get("k") == "CompoundStmt":
        ks = [x for x in cir.kids(st) if x is not None]
        return ends_path(ks[-1]) if ks else None
    return None


# ----------------------------------------------------------------------------------------------------------------
# statement-level inlining of same-TU helpers ("extract helper" refactors must not change what a rule sees)


def _inlinable_helper(h):
    if h is None or h.get("storageClass") != "static" or not (h.get("t") or "").startswith("void ("):
        return False
    pids = {p.get("id") for p in cir.params(h)}
    for x in cir.walk(h):
        k = x.get("k")
        if k in ("ReturnStmt", "GotoStmt", "LabelStmt"):
            return False
        if k == "VarDecl" and x.get("storageClass") == "static":
            return False
        if is_assign(x):
            t = cir.strip(cir.kids(x)[0])
            if t is not None and t.get("k") == "DeclRefExpr" and (t.get("ref") or {}).get("id") in pids:
                return False
        if k == "UnaryOperator" and x.get("op") == "&":
            t = cir.strip(cir.kids(x)[0])
            if t is not None and t.get("k") == "DeclRefExpr" and (t.get("ref") or {}).get("id") in pids:
                return False
    return True


def _subst(node, binding):
    """replace DeclRefExprs to parameters (by decl id) with copies of the bound argument expressions"""
    import copy
    kids = node.get("i")
    if not kids:
        return
    for idx, c in enumerate(kids):
        if not c:
            continue
        if c.get("k") == "DeclRefExpr" and (c.get("ref") or {}).get("id") in binding:
            arg = copy.deepcopy(binding[c["ref"]["id"]])
            kids[idx] = {"k": "ParenExpr", "t": arg.get("t"), "line": c.get("line"), "i": [arg]}
        else:
            _subst(c, binding)


def inline_helpers(unit, fn, skip=lambda name, h: False, depth=3):
    """A deep copy of `fn` in which statement-level calls `h(args);` of static void helpers of the same TU (no return
    statements, parameters never reassigned or address-taken, pure arguments) are replaced by the helper's body with
    the parameters substituted.  `skip(name, helper)` keeps a helper opaque (the primitives a rule recognises by
    shape).  Returns (copy, [names of inlined helpers])."""
    import copy
    out = copy.deepcopy(fn)
    done = []

    def expand(call, level):
        name = cir.callee(call)
        h = unit.funcs.get(name) if name else None
        if h is None or h is fn or level >= depth or (h.get("file") or unit.tu) != (fn.get("file") or unit.tu):
            return None
        if skip(name, h) or not _inlinable_helper(h):
            return None
        ps = cir.params(h)
        a = cir.args(call)
        if len(a) != len(ps) or not all(cir.is_pure(x) for x in a if x is not None):
            return None
        body = copy.deepcopy(cir.body(h))
        _subst(body, {p.get("id"): x for p, x in zip(ps, a)})
        body["inlined"] = name
        body["line"] = call.get("line")
        done.append(name)
        process(body, level + 1)
        return body

    def process(node, level):
        kids = node.get("i")
        if not kids:
            return
        stmt_parent = node.get("k") in ("CompoundStmt", "IfStmt", "ForStmt", "WhileStmt", "DoStmt", "CaseStmt",
                                        "DefaultStmt", "LabelStmt", "SwitchStmt")
        for idx, c in enumerate(kids):
            if not c:
                continue
            if stmt_parent and cir.is_call(c):
                # a call in statement position (not the condition / increment of a loop or if)
                is_stmt = node.get("k") == "CompoundStmt" or \
                    (node.get("k") == "IfStmt" and c is not if_parts(node)[0]) or \
                    (node.get("k") == "ForStmt" and idx == 4) or (node.get("k") == "WhileStmt" and idx == len(kids) - 1) or \
                    (node.get("k") == "DoStmt" and idx == 0) or (node.get("k") in ("CaseStmt", "DefaultStmt") and idx == len(kids) - 1)
                if is_stmt:
                    rep = expand(c, level)
                    if rep is not None:
                        kids[idx] = rep
                        continue
            process(c, level)
    process(cir.body(out), 0)
    return out, done


# ----------------------------------------------------------------------------------------------------------------
# values that flow through a local struct ("bundle the saved buffer and its spec in a struct" must not change what a
# rule sees): `v.f` / `(&v)->f` of a local record variable is replaced by the expression the field was defined with


def record_fields(unit, type_text):
    """field names (declaration order) of the struct a type text names in this TU (through a typedef of an anonymous
    or named struct), or None when the record is not defined in the TU's own declarations / is a union"""
    t = re.sub(r"\b(const|volatile|struct)\b", " ", type_text or "").strip()
    if not re.fullmatch(r"[A-Za-z_]\w*", t):
        return None
    rec = unit.records.get(t)
    if rec is None:
        td = unit.typedefs.get(t)
        if td is None:
            return None
        rid = None
        for x in cir.walk(td):
            if x.get("k") == "RecordType" and (x.get("decl") or {}).get("id"):
                rid = x["decl"]["id"]
                break
        if rid is not None:
            for d in unit.ir["decls"]:
                if d.get("k") == "RecordDecl" and d.get("id") == rid and d.get("completeDefinition"):
                    rec = d
                    break
        if rec is None:
            inner = re.sub(r"\b(const|volatile|struct)\b", " ", td.get("t") or "").strip()
            rec = unit.records.get(inner) if inner != t else None
    if rec is None or rec.get("tagUsed") == "union":
        return None
    fields = [c.get("n") for c in cir.kids(rec) if c is not None and c.get("k") == "FieldDecl"]
    if not fields or any(not f for f in fields) or \
            any(c is not None and c.get("k") in ("RecordDecl", "IndirectFieldDecl") for c in cir.kids(rec)):
        return None
    return fields


_VALUE_KINDS = {"DeclRefExpr", "IntegerLiteral", "FloatingLiteral", "CharacterLiteral", "GNUNullExpr", "UnaryOperator",
                "BinaryOperator", "ConditionalOperator", "MemberExpr", "ArraySubscriptExpr",
                "UnaryExprOrTypeTraitExpr"} | set(cir.TRANSPARENT)


def _stable_value(e):
    """e is a pure value expression whose memory reads (if any) all go through pointers to const"""
    for x in cir.walk(e):
        k = x.get("k")
        if k not in _VALUE_KINDS:
            return False
        if k == "BinaryOperator" and x.get("op") in ("=", ","):
            return False
        if k == "UnaryOperator" and x.get("op") in ("++", "--", "&"):
            return False
        if k == "MemberExpr":
            b = cir.strip(cir.kids(x)[0]) if cir.kids(x) else None
            if not x.get("arrow") or not ((b or {}).get("t") or "").startswith("const "):
                return False
        if k == "ArraySubscriptExpr" or (k == "UnaryOperator" and x.get("op") == "*"):
            b = cir.strip(cir.kids(x)[0])
            if "const " not in ((b or {}).get("t") or ""):
                return False
    return True


def resolve_local_structs(unit, fn, rounds=3):
    """A copy of `fn` in which reads `v.f` / `(&v)->f` of a local struct variable `v` are replaced by the expression the
    field was defined with: the member of v's initialiser list, or the single statement `v.f = e;` of the block that
    declares v (for the reads after it).  Only when nothing else can change the field (v is never assigned as a whole,
    no other store into v, `&v` does not escape unless v is const-qualified), the defining expression is a pure value
    (locals, parameters, constants, reads through pointers to const) and none of the variables it mentions is modified or
    address-taken between the definition and the read.  Everything else is left as it is.
    Returns (copy, ["v.f", ...] resolved)."""
    import copy
    out = copy.deepcopy(fn)
    done = []
    for _ in range(rounds):
        n = _resolve_structs_once(unit, out, done)
        if not n:
            break
    return out, sorted(set(done))


def _resolve_structs_once(unit, fn, done):
    body = cir.body(fn)
    if body is None:
        return 0
    nodes = list(cir.walk(body))
    order = {id(x): i for i, x in enumerate(nodes)}
    last = {}                      # id(node) -> position of the last node of its subtree
    parent = {}
    for x in nodes:
        for c in cir.kids(x):
            if c is not None:
                parent[id(c)] = x
    for x in reversed(nodes):
        last.setdefault(id(x), order[id(x)])
        p = parent.get(id(x))
        if p is not None:
            last[id(p)] = max(last.get(id(p), 0), last[id(x)])
    cand = {}
    for x in nodes:
        if x.get("k") == "VarDecl" and x.get("storageClass") != "static":
            t = x.get("t") or ""
            if "*" in t or "[" in t or "(" in t:
                continue
            fields = record_fields(unit, t)
            if fields:
                cand[x.get("id")] = {"decl": x, "fields": fields, "const": bool(re.search(r"\bconst\b", t)),
                                     "assign": {}, "reads": [], "ok": True}
    if not cand:
        return 0
    # modification positions of plain variables (for the stability of the defining expressions)
    modpos, addr = {}, set()
    for x in nodes:
        k = x.get("k")
        if is_assign(x) or (k == "UnaryOperator" and x.get("op") == "&"):
            r = root_ref(cir.kids(x)[0])
            rid = ((r or {}).get("ref") or {}).get("id")
            if rid is None:
                continue
            t = cir.strip(cir.kids(x)[0])
            if k == "UnaryOperator" and x.get("op") == "&":
                # &v, &v.f, &arr[i]: the variable's own storage escapes; &p->f, &p[i] do not expose p
                y = t
                while y is not None and ((y.get("k") == "MemberExpr" and not y.get("arrow")) or
                                         (y.get("k") == "ArraySubscriptExpr" and
                                          "[" in ((cir.strip(cir.kids(y)[0]) or {}).get("t") or ""))):
                    y = cir.strip(cir.kids(y)[0])
                if y is not None and y.get("k") == "DeclRefExpr":
                    addr.add(rid)
            elif t is not None and t.get("k") == "DeclRefExpr":
                modpos.setdefault(rid, []).append(order[id(x)])
            elif "*" not in ((r or {}).get("t") or ""):
                # a store into an element / member of a non-pointer local (array, struct)
                modpos.setdefault(rid, []).append(order[id(x)])

    def up(x):
        """parent of x above parentheses and implicit casts"""
        p = parent.get(id(x))
        while p is not None and p.get("k") in ("ParenExpr", "ImplicitCastExpr"):
            x, p = p, parent.get(id(p))
        return x, p
    for x in nodes:
        if x.get("k") != "DeclRefExpr" or (x.get("ref") or {}).get("id") not in cand:
            continue
        c = cand[x["ref"]["id"]]
        top, p = up(x)
        member = None
        if p is not None and p.get("k") == "MemberExpr" and not p.get("arrow") and cir.kids(p)[0] is top:
            member = p
        elif p is not None and p.get("k") == "UnaryOperator" and p.get("op") == "&":
            t2, p2 = up(p)
            if p2 is not None and p2.get("k") == "MemberExpr" and p2.get("arrow") and cir.kids(p2)[0] is t2:
                member = p2
            else:
                if not c["const"]:
                    c["ok"] = False    # &v escapes
                continue
        elif p is not None and is_assign(p) and cir.kids(p)[0] is top:
            c["ok"] = False            # v = ..., v as a whole is overwritten
            continue
        if member is None:
            continue                   # v read as a whole
        # what happens to v.f: follow element / sub-member accesses up to the consuming operator
        mt, mp = up(member)
        chain = False
        while mp is not None and ((mp.get("k") == "MemberExpr" and not mp.get("arrow")) or
                                  (mp.get("k") == "ArraySubscriptExpr" and cir.kids(mp)[0] is mt)):
            if mp.get("k") == "ArraySubscriptExpr" and "[" not in ((cir.strip(mt) or {}).get("t") or ""):
                break                  # v.f[i] with a pointer field: the store goes to what f points to, f is unchanged
            chain = True
            mt, mp = up(mp)
        if mp is not None and is_assign(mp) and cir.kids(mp)[0] is mt:
            blk = parent.get(id(mp))
            dstmt = parent.get(id(c["decl"]))
            if not chain and mp.get("k") == "BinaryOperator" and blk is not None and blk.get("k") == "CompoundStmt" and \
                    dstmt is not None and parent.get(id(dstmt)) is blk:
                c["assign"].setdefault(member.get("n"), []).append(mp)
            else:
                c["ok"] = False        # conditional / compound / partial store into the field
            continue
        if mp is not None and mp.get("k") == "UnaryOperator" and mp.get("op") == "&" and not c["const"]:
            c["ok"] = False            # &v.f escapes
            continue
        c["reads"].append(member)

    def usable(e, lo, hi):
        if e is None or not _stable_value(e):
            return False
        for y in cir.walk(e):
            if y.get("k") == "DeclRefExpr" and (y.get("ref") or {}).get("k") in ("VarDecl", "ParmVarDecl"):
                rid = y["ref"].get("id")
                if rid in addr or rid in cand or any(lo < q <= hi for q in modpos.get(rid, ())):
                    return False
        return True
    repl = {}
    for vid, c in cand.items():
        if not c["ok"] or not c["reads"]:
            continue
        d = c["decl"]
        init = var_init(d)
        il = cir.strip(init) if init is not None else None
        inits = {}
        if il is not None and il.get("k") == "InitListExpr":
            ks = list(cir.kids(il))
            if len(ks) == len(c["fields"]):
                inits = {f: e for f, e in zip(c["fields"], ks)
                         if e is not None and e.get("k") not in ("ImplicitValueInitExpr", "InitListExpr")}
            elif ks:
                continue
        elif init is not None:
            continue                   # copy-initialised from another struct / a call: not followed
        for m in c["reads"]:
            f = m.get("n")
            pos = order[id(m)]
            asg = c["assign"].get(f, [])
            if len(asg) > 1:
                continue
            if asg and pos > last[id(asg[0])]:
                e, lo = cir.kids(asg[0])[1], last[id(asg[0])]
            elif asg and pos >= order[id(asg[0])]:
                continue               # inside the assignment itself
            elif f in inits and pos > last[id(d)]:
                e, lo = inits[f], order[id(d)]
            else:
                continue
            if usable(e, lo, pos):
                repl[id(m)] = (e, f"{d.get('n')}.{f}")
    if not repl:
        return 0
    import copy

    def rec(n):
        ks = n.get("i")
        if not ks:
            return
        for i, ch in enumerate(ks):
            if not ch:
                continue
            r = repl.get(id(ch))
            if r is not None:
                ks[i] = {"k": "ParenExpr", "t": ch.get("t"), "line": ch.get("line"), "i": [copy.deepcopy(r[0])],
                         "prop": r[1]}
                done.append(r[1])
            else:
                rec(ch)
    rec(body)
    return len(repl)


# ----------------------------------------------------------------------------------------------------------------
# MJMODEL_REFERENCES


def references(repo=REPO):
    """{address array: (domain dim, codomain dim, count array or None)} from the MJMODEL_REFERENCES table."""
    p = os.path.join(repo, "src/engine/engine_io.c")
    try:
        text = open(p).read()
    except OSError:
        raise AnalysisError("src/engine/engine_io.c vanished")
    m = re.search(r"#define\s+MJMODEL_REFERENCES\b((?:.*\\\n)*.*\n)", text)
    if not m:
        raise AnalysisError("MJMODEL_REFERENCES not found in engine_io.c")
    out = {}
    for r in re.finditer(r"X\(\s*(\w+)\s*,\s*(\w+)\s*,\s*(\w+)\s*,\s*([^)]*?)\s*\)", m.group(1)):
        cnt = re.sub(r"^m->", "", r.group(4).strip())
        out[r.group(1)] = (r.group(2), r.group(3), cnt if re.fullmatch(r"[A-Za-z_]\w*", cnt) else None)
    return out


# ----------------------------------------------------------------------------------------------------------------
# index provenance (C)


class Prov:
    """Index-space provenance of integer expressions of one C function.

    Tags: a dimension name ('nu', 'nout', 'na', 'nactuator', 'nv', ...) when the value is an element of that index
    space (taken from an address array with that codomain, or a loop variable / bound over m-><dim>);
    'val:<text>' for anything else that is not a constant or a count (block-internal offset)."""

    def __init__(self, fn, adr_dim, count_arrays, sizes, defs=None, offset_structs=()):
        self.fn = fn
        self.offset_structs = set(offset_structs)   # struct types whose members are block-internal offsets
        self.adr_dim = adr_dim
        self.count_arrays = count_arrays
        self.sizes = set(sizes)
        self.defs = defs if defs is not None else local_defs(fn)
        self.bounds = {}
        for n in cir.walk(fn):
            if n.get("k") == "ForStmt":
                c = list(cir.kids(n)) + [None] * 5
                cond = cir.strip(c[2]) if c[2] is not None else None
                if cond is not None and cond.get("k") == "BinaryOperator" and cond.get("op") in ("<", "<="):
                    v = cir.strip(cir.kids(cond)[0])
                    if v is not None and v.get("k") == "DeclRefExpr":
                        self.bounds.setdefault((v.get("ref") or {}).get("id"), []).append(cir.kids(cond)[1])

    def prov(self, e, seen=frozenset(), as_bound=False):
        s = cir.strip(e)
        if s is None:
            return set()
        k = s.get("k")
        if k in ("IntegerLiteral", "CharacterLiteral", "UnaryExprOrTypeTraitExpr"):
            return set()
        if k == "BinaryOperator" and s.get("op") in ("+", "-", "*"):
            a, b = cir.kids(s)
            return self.prov(a, seen, as_bound) | self.prov(b, seen, as_bound)
        if k == "UnaryOperator" and s.get("op") in ("++", "--", "+", "-"):
            return self.prov(cir.kids(s)[0], seen, as_bound)
        if k == "ConditionalOperator":
            c = cir.kids(s)
            return self.prov(c[1], seen, as_bound) | self.prov(c[2], seen, as_bound)
        if k == "ArraySubscriptExpr":
            rf = modref.root_field(s)
            if rf and rf[0] in ("mjModel", "mjData"):
                if rf[1] in self.adr_dim:
                    return {self.adr_dim[rf[1]]}
                if rf[1] in self.count_arrays:
                    return set()
                return {"val:" + rf[1]}
            return {"val:" + cir.text(cir.kids(s)[0])}
        if k == "MemberExpr":
            if s.get("arrow") and s.get("n") in self.sizes:
                # a size is a dimension tag only when it bounds a loop variable; as a plain term it is an offset
                return {s.get("n")} if as_bound else set()
            if not s.get("arrow") and cir.kids(s):
                bt = (cir.strip(cir.kids(s)[0]) or {}).get("t") or ""
                if bt.replace("const ", "").replace("struct ", "").strip() in self.offset_structs:
                    return set()
            return {"val:" + cir.text(s)}
        if k == "DeclRefExpr":
            r = s.get("ref") or {}
            if r.get("k") == "EnumConstantDecl":
                return set()
            did = r.get("id")
            if did in seen:
                return set()
            seen = seen | {did}
            out = set()
            for b in self.bounds.get(did, ()):
                out |= self.prov(b, seen, True)
            ds = self.defs.of(s) or []
            for kind, d in ds:
                if kind == "param":
                    out.add("param:" + str(r.get("n")))
                elif kind in ("init", "assign"):
                    sd = cir.strip(d)
                    if sd is not None and sd.get("k") == "IntegerLiteral":
                        continue
                    out |= self.prov(d, seen, as_bound)
                elif kind == "update":
                    if d.get("k") == "CompoundAssignOperator":
                        out |= self.prov(cir.kids(d)[1], seen, False)
            if not ds and did not in self.bounds:
                out.add("val:" + str(r.get("n")))
            return out
        return {"val:" + cir.text(s)[:40]}


# ----------------------------------------------------------------------------------------------------------------
# clamp helper shape


def clamp_shape(fn):
    """For a helper `f(vec, range, limited, ...)`: the (vec, range, limited) parameter names if the body stores
    mju_clip(vec[..], range[..], range[..]) into vec[..] under a test of limited[..]; None otherwise."""
    ps = [p.get("n") for p in cir.params(fn)]
    for st in cir.walk(fn):
        if st.get("k") != "IfStmt":
            continue
        cond, then, els = if_parts(st)
        lim = cir.base_var(cond)
        if lim not in ps:
            continue
        for a in cir.walk(then):
            if a.get("k") == "BinaryOperator" and a.get("op") == "=":
                lhs, rhs = cir.kids(a)
                r = cir.strip(rhs)
                if cir.is_call(r) and cir.callee(r) == "mju_clip":
                    ar = cir.args(r)
                    vec = cir.base_var(lhs)
                    if len(ar) == 3 and vec in ps and cir.base_var(ar[0]) == vec:
                        rng = cir.base_var(ar[1])
                        if rng in ps and cir.base_var(ar[2]) == rng and rng != vec and \
                                cir.text(ar[1]) != cir.text(ar[2]):
                            return vec, rng, lim
    return None


# ----------------------------------------------------------------------------------------------------------------
# self-test driver


def _one_mutant(args):
    pid, m, parts = args
    from . import scratch
    try:
        with scratch.scratch(list(parts)) as root:
            for e in m["edits"]:
                try:
                    scratch.edit(root, e[0], e[1], e[2], e[3] if len(e) > 3 else 1)
                except RuntimeError:
                    return m["id"], "stale", "", set()
            rc, out = scratch.run_check(pid, root)
    except Exception as ex:  # pragma: no cover
        return m["id"], "error", str(ex), set()
    got = set()
    for line in out.splitlines():
        mm = re.search(r"rule=(\S+) construct=(\S+)", line)
        if mm and not line.startswith("KNOWN-FINDING"):
            got.add((mm.group(1), mm.group(2).rstrip(":")))
    return m["id"], rc, out[-400:], got


def run_mutants(pid, res, mutants, parts=("include", "src", "cmake", "CMakeLists.txt", "plugin"), jobs=6):
    """mutants: dicts {id, edits: [(file, old, new[, count])], expect: (rule, construct substring) | None,
    fixes: [(rule, construct substring)] for controls that repair a reported finding}.
    Must-fire mutants have to add a report (rule, construct) the unmutated tree does not have; controls (expect None)
    have to reproduce the unmutated set of reports exactly.  A must-fire mutant the analyser refuses (exit 2) is
    fail-closed and accepted."""
    base = {(v["rule"], v["construct"]) for v in res.violations}
    known = set()
    try:
        from .report import load_known
        known = {(k.get("rule"), k.get("construct")) for k in load_known() if k.get("property") == pid}
    except Exception:
        pass
    base_new = base - known
    res.rule("SELFTEST", "scratch-copy mutants are reported naming the construct; controls reproduce the unmutated "
             "result exactly", floor=0)
    with cf.ThreadPoolExecutor(max_workers=jobs) as ex:
        results = list(ex.map(_one_mutant, [(pid, m, parts) for m in mutants]))
    by = {m["id"]: m for m in mutants}
    summary, bad = {}, []
    for mid, rc, tail, got in results:
        m = by[mid]
        if rc == "stale":
            if m.get("fixes"):
                # the repair this control applies has since been committed to the tree ("fix:" commit): nothing to apply
                summary[mid] = "fix-in-tree"
                res.ok("SELFTEST", mid, {"status": "fix already in tree"})
                continue
            summary[mid] = "stale"
            bad.append((mid, "stale anchor", ""))
            continue
        if rc == "error":
            bad.append((mid, "error", tail))
            continue
        if m["expect"] is None:
            if rc == 2:
                summary[mid] = "control-refused"
                bad.append((mid, "control refused", tail))
            else:
                # a control may be a *fix*: the listed (rule, construct substring) reports must disappear, nothing else
                fixes = m.get("fixes", ())
                want = {b for b in base_new if not any(b[0] == f[0] and f[1] in b[1] for f in fixes)}
                if fixes and want == base_new:
                    # the finding is listed as known or already fixed in the tree: nothing to remove
                    want = base_new
                if got == want:
                    summary[mid] = "silent" if not fixes else "fixed"
                    res.ok("SELFTEST", mid, {"status": summary[mid]})
                else:
                    summary[mid] = "control-fired"
                    bad.append((mid, "control changed the result",
                                f"extra={sorted(got - want)[:4]} missing={sorted(want - got)[:4]}"))
            continue
        if rc == 2:
            summary[mid] = "refused"
            res.ok("SELFTEST", mid, {"status": "refused (analysis error, fail-closed)"})
            continue
        hit = [x for x in got - base_new if x[0] == m["expect"][0] and m["expect"][1] in x[1]]
        if hit:
            summary[mid] = "fired"
            res.ok("SELFTEST", mid, {"status": "fired", "report": list(hit[0])})
        else:
            summary[mid] = "missed"
            bad.append((mid, "missed", f"new reports: {sorted(got - base_new)[:6]}"))
    res.extra["selftest"] = summary
    if bad:
        raise AnalysisError("checker self-test failed: " + "; ".join(f"{m}: {s} [{d[:300]}]" for m, s, d in bad))
    return summary


# ----------------------------------------------------------------------------------------------------------------
# raw allocator references (C21), run per TU through engine.map_tus

RAW_ALLOCATORS = ("malloc", "calloc", "realloc", "aligned_alloc", "posix_memalign", "strdup", "strndup", "valloc",
                  "memalign", "reallocarray", "_aligned_malloc", "_aligned_realloc", "_strdup", "wcsdup", "asprintf",
                  "vasprintf")
_FUNC_KINDS = ("FunctionDecl", "CXXMethodDecl", "CXXConstructorDecl", "CXXDestructorDecl", "CXXConversionDecl")


def raw_alloc_refs(unit, names=RAW_ALLOCATORS):
    """[{file, func, line, name, how}] for every reference (call or address-taken) to a raw allocator in the
    declarations of this TU that come from repository files."""
    names = set(names)
    out = []

    def scan(n, file, func):
        stack = [(n, file, func)]
        while stack:
            x, f, fn = stack.pop()
            if not x:
                continue
            f = x.get("file") or f
            k = x.get("k")
            if k in _FUNC_KINDS and x.get("n"):
                fn = x.get("n")
            elif k == "VarDecl" and fn is None:
                fn = f"<file-scope:{x.get('n')}>"
            hit = None
            if k == "DeclRefExpr":
                r = x.get("ref") or {}
                if r.get("k") in ("FunctionDecl", "UsingShadowDecl") and r.get("n") in names:
                    hit = (r.get("n"), "ref")
            elif k in ("UnresolvedLookupExpr", "DependentScopeDeclRefExpr", "CXXDependentScopeMemberExpr"):
                nm = x.get("n") or (x.get("ref") or {}).get("n")
                if nm in names:
                    hit = (nm, "dependent")
            if hit:
                out.append({"file": f, "func": fn or "<file-scope>", "line": x.get("line"), "name": hit[0], "how": hit[1]})
            c = x.get("i")
            if c:
                for y in c:
                    stack.append((y, f, fn))
    for d in unit.ir["decls"]:
        scan(d, d.get("file") or d.get("nfile"), None)
    # de-duplicate (a call has the DeclRefExpr once; templates may be visited through several instantiations)
    seen, res = set(), []
    for r in out:
        k = (r["file"], r["func"], r["line"], r["name"])
        if k not in seen:
            seen.add(k)
            res.append(r)
    return res
