"""IR normalisation so that rules see through behaviour-preserving restructurings.

  Inliner.expand(fn)   replaces calls to same-TU helper functions (by default: `static`, defined in the TU's own file, not
                       recursive) by their bodies with parameters substituted.  Handled call positions: expression
                       statement, `return h(..)`, `lhs = h(..)`, `T x = h(..)`, `if (h(..))`/`if (!h(..))` and, for helpers
                       whose body is a single `return <pure expr>`, any expression position.  Early returns of the helper
                       become nested if/else (continuation pushed into the branches); a helper that returns from inside a
                       loop or switch is left as a call (except in the `return h(..)` position where its returns are the
                       caller's returns).
  propagate_locals(fn) substitutes single-assignment locals with pure initialisers (hoisted loop invariants, named
                       sub-expressions) into their uses.

Both return fresh trees; the cached IR is never mutated.  Inlined nodes keep their own line numbers and carry
"inl": <helper name> on the block so that reports can say where a construct came from.
"""
from __future__ import annotations

import sys

from . import cir

sys.setrecursionlimit(max(sys.getrecursionlimit(), 50000))

_LOOPS = ("ForStmt", "WhileStmt", "DoStmt", "CXXForRangeStmt")
_CASTS = ("ImplicitCastExpr", "ParenExpr", "CStyleCastExpr")


class CannotInline(Exception):
    pass


def clone(n):
    if isinstance(n, dict):
        return {k: (clone(v) if k == "i" else v) for k, v in n.items()}
    if isinstance(n, list):
        return [clone(x) for x in n]
    return n


def _is_assign_to(n, ids):
    """n assigns / increments / takes the address of a variable whose decl id is in ids."""
    k = n.get("k")
    tgt = None
    if (k == "BinaryOperator" and n.get("op") == "=") or k == "CompoundAssignOperator":
        tgt = cir.strip(cir.kids(n)[0])
    elif k == "UnaryOperator" and n.get("op") in ("++", "--", "&"):
        tgt = cir.strip(cir.kids(n)[0])
    if tgt is not None and tgt.get("k") == "DeclRefExpr" and (tgt.get("ref") or {}).get("id") in ids:
        return (tgt.get("ref") or {}).get("id")
    return None


def modified_vars(n):
    """decl ids of variables assigned, ++/--'d or address-taken anywhere under n."""
    out = set()
    for x in cir.walk(n):
        k = x.get("k")
        if (k == "BinaryOperator" and x.get("op") == "=") or k == "CompoundAssignOperator" or \
                (k == "UnaryOperator" and x.get("op") in ("++", "--", "&")):
            t = cir.strip(cir.kids(x)[0])
            if t is not None and t.get("k") == "DeclRefExpr":
                out.add((t.get("ref") or {}).get("id"))
    return out


def written_fields(n):
    """names of struct members / arrays written under n (directly); None if n calls anything (unknown)."""
    out = set()
    for x in cir.walk(n):
        k = x.get("k")
        if cir.is_call(x) or k == "AtomicExpr":
            return None
        tgt = None
        if (k == "BinaryOperator" and x.get("op") == "=") or k == "CompoundAssignOperator":
            tgt = cir.kids(x)[0]
        elif k == "UnaryOperator" and x.get("op") in ("++", "--"):
            tgt = cir.kids(x)[0]
        if tgt is not None:
            for y in cir.walk(tgt):
                if y.get("k") == "MemberExpr":
                    out.add(y.get("n"))
                    break
            else:
                out.add("*")
    return out


def _const_rooted(n):
    """every memory read under n goes through a pointer-to-const (or reads no memory at all)."""
    for x in cir.walk(n):
        k = x.get("k")
        if k == "MemberExpr" and x.get("arrow"):
            b = cir.strip(cir.kids(x)[0])
            t = (b or {}).get("t") or ""
            if not t.startswith("const "):
                return False
        elif k == "ArraySubscriptExpr" or (k == "UnaryOperator" and x.get("op") == "*"):
            b = cir.strip(cir.kids(x)[0])
            t = (b or {}).get("t") or ""
            if "const " not in t:
                return False
    return True


def read_fields(n):
    out = set()
    for x in cir.walk(n):
        if x.get("k") == "MemberExpr":
            out.add(x.get("n"))
        elif x.get("k") in ("ArraySubscriptExpr",) or (x.get("k") == "UnaryOperator" and x.get("op") == "*"):
            out.add("*")
    return out


def substitute(n, mapping):
    """Replace DeclRefExpr nodes whose ref id is in mapping by clones of mapping[id]; returns a new tree.
    `(&X)->f` becomes `X.f`, `*&X` becomes X."""
    if not isinstance(n, dict):
        return n
    if n.get("k") == "DeclRefExpr":
        rid = (n.get("ref") or {}).get("id")
        if rid in mapping:
            return clone(mapping[rid])
        return dict(n)
    out = {k: v for k, v in n.items() if k != "i"}
    if "i" in n:
        out["i"] = [substitute(c, mapping) if c is not None else None for c in n["i"]]
    k = out.get("k")
    if k == "MemberExpr" and out.get("arrow") and out.get("i"):
        b = cir.strip(out["i"][0], casts=False)
        if b is not None and b.get("k") == "UnaryOperator" and b.get("op") == "&":
            out["i"] = [cir.kids(b)[0]]
            out["arrow"] = False
    elif k == "UnaryOperator" and out.get("op") == "*" and out.get("i"):
        b = cir.strip(out["i"][0], casts=False)
        if b is not None and b.get("k") == "UnaryOperator" and b.get("op") == "&":
            return cir.kids(b)[0]
    return out


def _stmts(n):
    """statement list of a body (CompoundStmt -> its kids, single statement -> [stmt], None -> [])."""
    if n is None:
        return []
    if n.get("k") == "CompoundStmt":
        return [c for c in cir.kids(n) if c is not None]
    return [n]


def _block(stmts, like=None, **extra):
    b = {"k": "CompoundStmt", "line": (like or (stmts[0] if stmts else {})).get("line"), "i": list(stmts)}
    b.update(extra)
    return b


def contains(n, kinds):
    for x in cir.walk(n):
        if x.get("k") in kinds:
            return True
    return False


def _if_parts(n):
    c = list(cir.kids(n))
    idx = (1 if n.get("hasInit") else 0) + (1 if n.get("hasVar") else 0)
    cond = c[idx]
    then = c[idx + 1] if len(c) > idx + 1 else None
    els = c[idx + 2] if len(c) > idx + 2 else None
    return c[:idx], cond, then, els


def _mk_if(like, pre, cond, then_stmts, else_stmts):
    n = {k: v for k, v in like.items() if k != "i"}
    kids = list(pre) + [cond, _block(then_stmts, like)]
    if else_stmts:
        kids.append(_block(else_stmts, like))
        n["hasElse"] = True
    else:
        n.pop("hasElse", None)
    n["i"] = kids
    return n


def eliminate_returns(stmts, conv, cont=(), term=None, lenient=False, keep=None):
    """Statement list equivalent to `stmts; cont` in which every ReturnStmt r is replaced by conv(r) (a list of statements)
    and ends the sequence; statements for which term(s) holds (calls that do not return) end the sequence as well.
    Raises CannotInline if a return sits inside a loop or switch."""
    def ends(n):
        if contains(n, ("ReturnStmt",)):
            return True
        if term is not None:
            for x in cir.walk(n):
                if cir.is_call(x) and term(x):
                    return True
        return False
    out = []
    stmts = list(stmts)
    for idx, s in enumerate(stmts):
        k = s.get("k")
        if k == "ReturnStmt":
            if keep is not None and keep(s):
                return out + [s]
            return out + list(conv(s))
        if term is not None and not k.endswith("Stmt") and cir.is_call(cir.strip(s)) and term(cir.strip(s)):
            return out + [s]
        if not ends(s):
            out.append(s)
            continue
        if keep is not None and k in _LOOPS + ("SwitchStmt",) and \
                all(keep(r) for r in cir.walk(s) if r.get("k") == "ReturnStmt"):
            out.append(s)
            continue
        if k == "IfStmt":
            pre, cond, then, els = _if_parts(s)
            rest = eliminate_returns(stmts[idx + 1:], conv, cont, term, lenient, keep)
            t_stop = _always_ends(_stmts(then), term)
            e_stop = _always_ends(_stmts(els), term)
            t2 = eliminate_returns(_stmts(then), conv, () if t_stop else rest, term, lenient, keep)
            e2 = eliminate_returns(_stmts(els), conv, () if e_stop else (clone(rest) if not t_stop else rest), term, lenient, keep)
            return out + [_mk_if(s, pre, cond, t2, e2)]
        if k == "CompoundStmt" and not s.get("inl"):
            return out + eliminate_returns(_stmts(s) + stmts[idx + 1:], conv, cont, term, lenient, keep)
        if k == "CompoundStmt":
            # an inlined block keeps its identity (reports name the helper): nest inside it with the rest as continuation
            rest = eliminate_returns(stmts[idx + 1:], conv, cont, term, lenient, keep)
            b = dict(s)
            b["i"] = eliminate_returns(_stmts(s), conv, rest, term, lenient, keep)
            return out + [b]
        if contains(s, ("ReturnStmt",)) and not lenient:
            raise CannotInline(f"return inside {k}")
        # lenient: a loop / switch with an inner return is kept as an opaque statement (its exits add no guard)
        out.append(s)
    return out + list(cont)


def _always_ends(stmts, term=None):
    """the statement list cannot complete normally (ends in return / non-returning call on every path)"""
    for s in stmts:
        k = s.get("k")
        if k == "ReturnStmt":
            return True
        if term is not None and not k.endswith("Stmt") and cir.is_call(cir.strip(s)) and term(cir.strip(s)):
            return True
        if k == "IfStmt":
            _pre, _c, then, els = _if_parts(s)
            if els is not None and _always_ends(_stmts(then), term) and _always_ends(_stmts(els), term):
                return True
        if k == "CompoundStmt" and _always_ends(_stmts(s), term):
            return True
    return False


class Inliner:
    def __init__(self, unit, depth=4, pred=None, exclude=()):
        self.u = unit
        self.depth = depth
        self.exclude = set(exclude)
        self.pred = pred or self._default_pred
        self.inlined = []      # (caller, helper, line)
        self._tmp = 0

    def _default_pred(self, h):
        return h.get("storageClass") == "static" and (h.get("file") in (None, self.u.tu))

    def helper(self, call, stack):
        name = cir.callee(call)
        if not name or name in self.exclude or name in stack:
            return None
        f = cir.callee_expr(call)
        if f is None or f.get("k") != "DeclRefExpr":
            return None
        h = self.u.funcs.get(name)
        if h is None or not self.pred(h) or h.get("variadic"):
            return None
        ps = cir.params(h)
        if len(ps) != len(cir.args(call)):
            return None
        return h

    # ------------------------------------------------------------------ entry
    def expand(self, fn):
        self.names = {p.get("n") for p in cir.params(fn)} | {x.get("n") for x in cir.walk(fn) if x.get("k") == "VarDecl"}
        out = {k: v for k, v in fn.items() if k != "i"}
        out["i"] = [self._body(c, (fn.get("n"),), self.depth) if (c is not None and c.get("k") == "CompoundStmt") else c
                    for c in cir.kids(fn)]
        return out

    def _body(self, n, stack, depth):
        b = {k: v for k, v in n.items() if k != "i"} if n.get("k") == "CompoundStmt" else {"k": "CompoundStmt", "line": n.get("line")}
        b["i"] = self._list(_stmts(n), stack, depth)
        return b

    # ------------------------------------------------------------------ statements
    def _list(self, stmts, stack, depth):
        out = []
        i = 0
        while i < len(stmts):
            s = stmts[i]
            nxt = stmts[i + 1] if i + 1 < len(stmts) else None
            fw = self._forward(s, nxt, stack, depth) if depth > 0 and nxt is not None else None
            if fw is not None:
                out.extend(fw)
                i += 2
                continue
            out.extend(self._stmt(s, stack, depth))
            i += 1
        return out

    def _forward(self, s, nxt, stack, depth):
        """`v = h(..); if (v) return v;` (error propagation): the helper's non-null returns become returns of the caller,
        its null returns continue after the pair."""
        k = s.get("k")
        var_id = var_text = call = decl_stmt = None
        if k == "DeclStmt":
            ds = [d for d in cir.kids(s) if d is not None]
            if len(ds) == 1 and ds[0].get("k") == "VarDecl" and ds[0].get("init"):
                init = [c for c in cir.kids(ds[0]) if c is not None and not c.get("k", "").endswith("Attr")]
                y = cir.strip(init[-1]) if init else None
                if y is not None and cir.is_call(y):
                    call, var_text = y, ds[0].get("n")
                    decl = {kk: v for kk, v in ds[0].items() if kk not in ("i", "init")}
                    decl["i"] = []
                    decl["split"] = True
                    decl_stmt = {kk: v for kk, v in s.items() if kk != "i"}
                    decl_stmt["i"] = [decl]
        elif not k.endswith("Stmt"):
            x = cir.strip(s)
            if x is not None and x.get("k") == "BinaryOperator" and x.get("op") == "=":
                lhs, rhs = cir.kids(x)
                y = cir.strip(rhs)
                if cir.is_call(y) and cir.strip(lhs).get("k") == "DeclRefExpr":
                    call, var_text = y, cir.text(lhs)
        if call is None or nxt.get("k") != "IfStmt":
            return None
        h = self.helper(call, stack)
        if h is None or self._exprlike(h):
            return None
        pre, cond, then, els = _if_parts(nxt)
        if pre or els is not None:
            return None
        from . import paths
        nc = paths.norm_cond(cond)
        if nc is None or nc[0] != var_text or nc[1] is not True:
            return None
        ts = _stmts(then)
        if len(ts) != 1 or ts[0].get("k") != "ReturnStmt" or not cir.kids(ts[0]) or cir.text(cir.kids(ts[0])[0]) != var_text:
            return None

        def is_null(r):
            c = [y for y in cir.kids(r) if y is not None]
            e = cir.strip(c[0]) if c else None
            return e is not None and (e.get("k") in ("GNUNullExpr", "CXXNullPtrLiteralExpr") or
                                      (e.get("k") == "IntegerLiteral" and str(e.get("v")) == "0"))

        def nonnull_literal(r):
            c = [y for y in cir.kids(r) if y is not None]
            e = cir.strip(c[0]) if c else None
            return e is not None and e.get("k") == "StringLiteral"
        rets = [r for r in cir.walk(cir.body(h)) if r.get("k") == "ReturnStmt"]
        if not rets or not all(is_null(r) or nonnull_literal(r) for r in rets):
            return None
        try:
            mapping, pro = self._bind(h, call)
            body = substitute(cir.body(h), mapping)
            new = eliminate_returns(_stmts(body), lambda r: [], (), None, False, nonnull_literal)
        except CannotInline:
            return None
        self.inlined.append((stack[0], h.get("n"), call.get("line")))
        new = self._list(new, stack + (h.get("n"),), depth - 1)
        blk = _block(pro + new, call, inl=h.get("n"), inl_line=call.get("line"), file=h.get("file"), forwarded=var_text)
        return ([decl_stmt] if decl_stmt is not None else []) + [blk]

    def _sub(self, n, stack, depth):
        """process a sub-statement position; returns one statement"""
        if n is None:
            return None
        r = self._stmt(n, stack, depth)
        if len(r) == 1:
            return r[0]
        return _block(r, n)

    def _stmt(self, s, stack, depth):
        k = s.get("k")
        if k == "CompoundStmt":
            return [self._body(s, stack, depth)]
        if k == "IfStmt":
            pre, cond, then, els = _if_parts(s)
            hoist = []
            if depth > 0:
                cond, hoist = self._hoist_cond(cond, stack, depth)
            cond = self._expr(cond, stack, depth)
            n = {kk: v for kk, v in s.items() if kk != "i"}
            n["i"] = [self._sub(p, stack, depth) for p in pre] + [cond, self._sub(then, stack, depth)] + \
                     ([self._sub(els, stack, depth)] if els is not None else [])
            return hoist + [n]
        if k in _LOOPS or k in ("SwitchStmt", "CaseStmt", "DefaultStmt", "LabelStmt", "AttributedStmt"):
            n = {kk: v for kk, v in s.items() if kk != "i"}
            kids = []
            for c in cir.kids(s):
                if c is None:
                    kids.append(None)
                elif c.get("k", "").endswith("Stmt") or self._is_stmt_pos(s, c):
                    kids.append(self._sub(c, stack, depth))
                else:
                    kids.append(self._expr(c, stack, depth))
            n["i"] = kids
            return [n]
        if depth > 0:
            r = self._site(s, stack, depth)
            if r is not None:
                return r
        if k == "DeclStmt" or k == "ReturnStmt":
            n = {kk: v for kk, v in s.items() if kk != "i"}
            n["i"] = [self._expr(c, stack, depth) if c is not None else None for c in cir.kids(s)]
            return [n]
        if k.endswith("Stmt"):
            return [s]
        return [self._expr(s, stack, depth)]

    @staticmethod
    def _is_stmt_pos(parent, child):
        """body positions that hold an expression statement (no ExprStmt wrapper in the IR)"""
        k = parent.get("k")
        c = cir.kids(parent)
        if k in ("ForStmt",):
            return child is c[-1]
        if k in ("WhileStmt", "CXXForRangeStmt"):
            return child is c[-1]
        if k == "DoStmt":
            return child is c[0]
        if k in ("CaseStmt", "DefaultStmt", "LabelStmt", "AttributedStmt"):
            return child is c[-1]
        if k == "SwitchStmt":
            return child is c[-1]
        return False

    # ------------------------------------------------------------------ inline sites
    def _site(self, s, stack, depth):
        k = s.get("k")
        x = cir.strip(s) if not k.endswith("Stmt") else None
        try:
            # 1. expression statement
            if x is not None and cir.is_call(x):
                h = self.helper(x, stack)
                if h is not None:
                    return self._inline(h, x, "stmt", None, stack, depth)
            # 2. return h(..)
            if k == "ReturnStmt":
                c = [y for y in cir.kids(s) if y is not None]
                if c:
                    y = cir.strip(c[0])
                    if cir.is_call(y):
                        h = self.helper(y, stack)
                        if h is not None and not self._exprlike(h):
                            return self._inline(h, y, "return", None, stack, depth)
            # 3. lhs = h(..)
            if x is not None and x.get("k") == "BinaryOperator" and x.get("op") == "=":
                lhs, rhs = cir.kids(x)
                y = cir.strip(rhs)
                if cir.is_call(y) and cir.is_pure(lhs):
                    h = self.helper(y, stack)
                    if h is not None and not self._exprlike(h):
                        return self._inline(h, y, "assign", (x, lhs), stack, depth)
            # 3b. lhs op= h(..): evaluate the helper into a temporary first
            if x is not None and x.get("k") == "CompoundAssignOperator":
                lhs, rhs = cir.kids(x)
                y = cir.strip(rhs)
                if cir.is_call(y) and cir.is_pure(lhs):
                    h = self.helper(y, stack)
                    if h is not None and not self._exprlike(h):
                        self._tmp += 1
                        tid = f"inl{self._tmp}:{h.get('n')}"
                        t = y.get("t")
                        decl = {"k": "VarDecl", "line": x.get("line"), "id": tid, "n": f"_{h.get('n')}_result", "t": t, "i": [], "split": True}
                        ref = {"k": "DeclRefExpr", "line": x.get("line"), "t": t, "ref": {"id": tid, "k": "VarDecl", "n": decl["n"], "t": t}}
                        asg = {"k": "BinaryOperator", "op": "=", "line": x.get("line"), "t": t, "i": [ref, rhs], "decl_init": tid}
                        body = self._inline(h, y, "assign", (asg, ref), stack, depth)
                        upd = {kk: v for kk, v in x.items() if kk != "i"}
                        upd["i"] = [lhs, clone(ref)]
                        return [{"k": "DeclStmt", "line": x.get("line"), "i": [decl]}] + body + [upd]
            # 4. T v = h(..)
            if k == "DeclStmt":
                ds = [d for d in cir.kids(s) if d is not None]
                if len(ds) == 1 and ds[0].get("k") == "VarDecl" and ds[0].get("init"):
                    d = ds[0]
                    init = [c for c in cir.kids(d) if c is not None and not c.get("k", "").endswith("Attr")]
                    y = cir.strip(init[-1]) if init else None
                    if y is not None and cir.is_call(y):
                        h = self.helper(y, stack)
                        if h is not None and not self._exprlike(h):
                            decl = {kk: v for kk, v in d.items() if kk not in ("i", "init")}
                            decl["i"] = []
                            decl["split"] = True
                            ref = {"k": "DeclRefExpr", "line": d.get("line"), "t": d.get("t"),
                                   "ref": {"id": d.get("id"), "k": "VarDecl", "n": d.get("n"), "t": d.get("t")}}
                            asg = {"k": "BinaryOperator", "op": "=", "line": d.get("line"), "t": d.get("t"), "i": [ref, init[-1]],
                                   "decl_init": d.get("id")}
                            body = self._inline(h, y, "assign", (asg, ref), stack, depth)
                            ds2 = {kk: v for kk, v in s.items() if kk != "i"}
                            ds2["i"] = [decl]
                            return [ds2] + body
        except CannotInline:
            return None
        return None

    def _hoist_cond(self, cond, stack, depth):
        """if (h(..)) / if (!h(..)) / if (h(..) != 0) with a multi-statement helper: evaluate into a temporary first."""
        x = cir.strip(cond)
        inner = x
        while inner is not None and inner.get("k") == "UnaryOperator" and inner.get("op") == "!":
            inner = cir.strip(cir.kids(inner)[0])
        if inner is not None and inner.get("k") == "BinaryOperator" and inner.get("op") in ("==", "!=", "<", ">", "<=", ">="):
            a, b = (cir.strip(y) for y in cir.kids(inner))
            if cir.is_call(a) and b is not None and b.get("k") in ("IntegerLiteral", "GNUNullExpr"):
                inner = a
        if inner is None or not cir.is_call(inner):
            return cond, []
        h = self.helper(inner, stack)
        if h is None or self._exprlike(h):
            return cond, []
        self._tmp += 1
        tid = f"inl{self._tmp}:{h.get('n')}"
        t = inner.get("t")
        decl = {"k": "VarDecl", "line": cond.get("line"), "id": tid, "n": f"_{h.get('n')}_result", "t": t, "i": [], "split": True}
        ref = {"k": "DeclRefExpr", "line": cond.get("line"), "t": t, "ref": {"id": tid, "k": "VarDecl", "n": decl["n"], "t": t}}
        asg = {"k": "BinaryOperator", "op": "=", "line": cond.get("line"), "t": t, "i": [ref, inner], "decl_init": tid}
        try:
            body = self._inline(h, inner, "assign", (asg, ref), stack, depth)
        except CannotInline:
            return cond, []
        new_cond = _replace_node(cond, inner, ref)
        return new_cond, [{"k": "DeclStmt", "line": cond.get("line"), "i": [decl]}] + body

    def _exprlike(self, h):
        b = _stmts(cir.body(h))
        if len(b) != 1 or b[0].get("k") != "ReturnStmt":
            return False
        c = [y for y in cir.kids(b[0]) if y is not None]
        return bool(c)

    def _bind(self, h, call):
        """(mapping param id -> arg expr, prologue decl statements)"""
        body = cir.body(h)
        mod = modified_vars(body)
        wf = written_fields(body)
        mapping, pro = {}, []
        for p, a in zip(cir.params(h), cir.args(call)):
            uses = sum(1 for x in cir.walk(body) if x.get("k") == "DeclRefExpr" and (x.get("ref") or {}).get("id") == p.get("id"))
            ok = p.get("id") not in mod and cir.is_pure(a)
            if ok:
                rf = read_fields(a)
                if rf and not _const_rooted(a):
                    if wf is None or "*" in wf or "*" in rf or (rf & wf):
                        ok = uses <= 1 and self._first_use_before_effects(body, p.get("id"))
            if ok:
                mapping[p.get("id")] = a
            else:
                d = {"k": "VarDecl", "line": call.get("line"), "id": p.get("id"), "n": p.get("n"), "t": p.get("t"), "init": "c",
                     "i": [a], "param_of": h.get("n")}
                pro.append({"k": "DeclStmt", "line": call.get("line"), "i": [d]})
        return mapping, pro

    @staticmethod
    def _first_use_before_effects(body, pid):
        """the single use of the parameter precedes every call / write in the helper body (preorder)"""
        for x in cir.walk(body):
            if x.get("k") == "DeclRefExpr" and (x.get("ref") or {}).get("id") == pid:
                return True
            if cir.is_call(x) or x.get("k") in ("CompoundAssignOperator", "AtomicExpr") or \
                    (x.get("k") == "BinaryOperator" and x.get("op") == "=") or \
                    (x.get("k") == "UnaryOperator" and x.get("op") in ("++", "--")):
                return False
        return True

    @staticmethod
    def _switch_returns(sw, conv):
        """returns of a trailing switch become `<conv(r)>; break;` (valid because nothing follows the switch)"""
        def rec(n, in_loop):
            if not isinstance(n, dict):
                return n
            k = n.get("k")
            if k == "ReturnStmt":
                if in_loop:
                    raise CannotInline("return inside a loop inside a switch")
                return _block(list(conv(n)) + [{"k": "BreakStmt", "line": n.get("line")}], n)
            out = {kk: v for kk, v in n.items() if kk != "i"}
            if "i" in n:
                out["i"] = [rec(c, in_loop or k in _LOOPS or (k == "SwitchStmt" and n is not sw)) if c is not None else None
                            for c in n["i"]]
            return out
        return rec(sw, False)

    def _inline(self, h, call, mode, target, stack, depth):
        mapping, pro = self._bind(h, call)
        body = substitute(cir.body(h), mapping)
        # helper locals whose names collide with names of the caller are renamed (rules that match on text stay unambiguous)
        ren = {}
        for x in cir.walk(body):
            if x.get("k") == "VarDecl" and x.get("n") in getattr(self, "names", ()):
                ren[x.get("id")] = f"{x.get('n')}${h.get('n')}"
        if ren:
            body = _rename(body, ren)
        self.names = getattr(self, "names", set()) | {x.get("n") for x in cir.walk(body) if x.get("k") == "VarDecl"}
        stmts = _stmts(body)
        if mode == "return":
            new = stmts
        else:
            if mode == "stmt":
                def conv(r):
                    c = [y for y in cir.kids(r) if y is not None]
                    return [c[0]] if c and not cir.is_pure(c[0]) else []
            else:
                asg, lhs = target

                def conv(r):
                    c = [y for y in cir.kids(r) if y is not None]
                    if not c:
                        raise CannotInline("void return in value position")
                    a = {kk: v for kk, v in asg.items() if kk != "i"}
                    a["i"] = [clone(lhs), c[0]]
                    a["line"] = r.get("line")
                    return [a]
            if stmts and stmts[-1].get("k") == "SwitchStmt" and contains(stmts[-1], ("ReturnStmt",)):
                stmts = stmts[:-1] + [self._switch_returns(stmts[-1], conv)]
            new = eliminate_returns(stmts, conv)
        self.inlined.append((stack[0], h.get("n"), call.get("line")))
        new = self._list(new, stack + (h.get("n"),), depth - 1)
        return [_block(pro + new, call, inl=h.get("n"), inl_line=call.get("line"), file=h.get("file"))]

    # ------------------------------------------------------------------ expressions
    def _expr(self, n, stack, depth):
        """expression-like helpers (single `return e`) are substituted in any expression position"""
        if n is None or depth <= 0 or not isinstance(n, dict):
            return n
        if not any(cir.is_call(x) for x in cir.walk(n)):
            return n
        return self._expr_rec(n, stack, depth)

    def _expr_rec(self, n, stack, depth):
        if n is None:
            return None
        out = {k: v for k, v in n.items() if k != "i"}
        if "i" in n:
            out["i"] = [self._expr_rec(c, stack, depth) if isinstance(c, dict) else c for c in n["i"]]
        if cir.is_call(out) and depth > 0:
            h = self.helper(out, stack)
            if h is not None and self._exprlike(h):
                ret = _stmts(cir.body(h))[0]
                e = [y for y in cir.kids(ret) if y is not None][0]
                body = cir.body(h)
                mod = modified_vars(body)
                mapping = {}
                for p, a in zip(cir.params(h), cir.args(out)):
                    uses = sum(1 for x in cir.walk(e) if x.get("k") == "DeclRefExpr" and (x.get("ref") or {}).get("id") == p.get("id"))
                    if p.get("id") in mod or (not cir.is_pure(a) and uses != 1):
                        return out
                    mapping[p.get("id")] = a
                self.inlined.append((stack[0], h.get("n"), out.get("line")))
                sub = substitute(e, mapping)
                sub = self._expr_rec(sub, stack + (h.get("n"),), depth - 1)
                return {"k": "ParenExpr", "line": out.get("line"), "t": out.get("t"), "i": [sub], "inl": h.get("n")}
        return out


def _rename(n, ren):
    if not isinstance(n, dict):
        return n
    out = {k: v for k, v in n.items() if k != "i"}
    if out.get("k") == "VarDecl" and out.get("id") in ren:
        out["n"] = ren[out["id"]]
    elif out.get("k") == "DeclRefExpr" and (out.get("ref") or {}).get("id") in ren:
        out["ref"] = dict(out["ref"], n=ren[out["ref"]["id"]])
    if "i" in n:
        out["i"] = [_rename(c, ren) if c is not None else None for c in n["i"]]
    return out


def _replace_node(root, old, new):
    if root is old:
        return new
    if not isinstance(root, dict):
        return root
    out = {k: v for k, v in root.items() if k != "i"}
    if "i" in root:
        out["i"] = [_replace_node(c, old, new) if c is not None else None for c in root["i"]]
    return out


def inline(unit, fn, depth=4, pred=None, exclude=()):
    return Inliner(unit, depth, pred, exclude).expand(fn)


# ---------------------------------------------------------------------- local propagation
def _preorder(n):
    out = []
    for x in cir.walk(n):
        out.append(x)
    return out


def pure_functions(unit):
    """names of functions of the unit that have no effect besides their return value: no store through a pointer or to a
    global, no atomic, calls only to other such functions (least fixpoint from below is not needed: greatest, by removal)."""
    cand = {}
    for name, fn in unit.funcs.items():
        body = cir.body(fn)
        local_ids = {x.get("id") for x in cir.walk(fn) if x.get("k") in ("VarDecl",)}
        ok = True
        callees = set()
        for n in cir.walk(body):
            k = n.get("k")
            if k == "AtomicExpr":
                ok = False
                break
            if cir.is_call(n):
                c = cir.callee(n)
                if c is None:
                    ok = False
                    break
                callees.add(c)
            if (k == "BinaryOperator" and n.get("op") == "=") or k == "CompoundAssignOperator" or \
                    (k == "UnaryOperator" and n.get("op") in ("++", "--")):
                t = cir.strip(cir.kids(n)[0])
                while t is not None and t.get("k") in ("MemberExpr", "ArraySubscriptExpr"):
                    if (t.get("k") == "MemberExpr" and t.get("arrow")):
                        t = None
                        break
                    b = cir.strip(cir.kids(t)[0])
                    if t.get("k") == "ArraySubscriptExpr" and "[" not in ((b or {}).get("t") or ""):
                        t = None
                        break
                    t = b
                if t is None or t.get("k") != "DeclRefExpr" or (t.get("ref") or {}).get("id") not in local_ids:
                    ok = False
                    break
        if ok:
            cand[name] = callees
    known_pure = {"mj_version", "mju_abs", "mju_max", "mju_min", "mju_sqrt", "sqrt", "fabs", "abs", "strlen", "strcmp", "strncmp"}
    changed = True
    while changed:
        changed = False
        for name in list(cand):
            if any(c not in cand and c not in known_pure for c in cand[name]):
                del cand[name]
                changed = True
    return set(cand) | known_pure


def _pure_with(n, pure_calls):
    for x in cir.walk(n):
        k = x.get("k")
        if cir.is_call(x):
            if cir.callee(x) not in pure_calls:
                return False
        elif k in ("CompoundAssignOperator", "StmtExpr", "AtomicExpr"):
            return False
        elif k == "BinaryOperator" and x.get("op") == "=":
            return False
        elif k == "UnaryOperator" and x.get("op") in ("++", "--"):
            return False
    return True


def _stable_scalar_reads(fn):
    """(base variable id, field) pairs safe to read at any point of fn although the base pointer is not const: the field is
    a scalar that fn never stores to or takes the address of, and the base pointer is never handed to a callee that could
    write through it."""
    from . import modref
    unsafe_base = set()
    written = set()
    for n in cir.walk(fn):
        k = n.get("k")
        if cir.is_call(n):
            ce = cir.callee_expr(n)
            ptypes = modref._param_types((ce.get("ref") or {}).get("t") if ce is not None and ce.get("k") == "DeclRefExpr" else None)
            for i, a in enumerate(cir.args(n)):
                x = cir.strip(a)
                if x is not None and x.get("k") == "DeclRefExpr" and "*" in (x.get("t") or ""):
                    pt = ptypes[i] if i < len(ptypes) else None
                    if not (pt and modref._const_pointee(pt)):
                        unsafe_base.add((x.get("ref") or {}).get("id"))
        tgt = None
        if (k == "BinaryOperator" and n.get("op") == "=") or k == "CompoundAssignOperator" or \
                (k == "UnaryOperator" and n.get("op") in ("++", "--", "&")):
            tgt = cir.strip(cir.kids(n)[0])
        if tgt is not None and tgt.get("k") == "MemberExpr":
            written.add(tgt.get("n"))
    return unsafe_base, written


def propagate_locals(fn, allow=None, pure_calls=()):
    """Substitute locals that are initialised once with a pure expression and never modified, when every variable the
    initialiser reads is unmodified between the declaration and the local's last use and every memory read goes through a
    pointer-to-const.  allow(decl, init) may veto.  Returns a new function node (declarations are kept)."""
    body = cir.body(fn)
    if body is None:
        return fn
    order = {id(x): i for i, x in enumerate(_preorder(body))}
    nodes = _preorder(body)
    mod = modified_vars(body)
    # positions of modifications per variable id
    modpos = {}
    for x in nodes:
        k = x.get("k")
        if (k == "BinaryOperator" and x.get("op") == "=") or k == "CompoundAssignOperator" or \
                (k == "UnaryOperator" and x.get("op") in ("++", "--", "&")):
            t = cir.strip(cir.kids(x)[0])
            if t is not None and t.get("k") == "DeclRefExpr":
                modpos.setdefault((t.get("ref") or {}).get("id"), []).append(order[id(x)])
    uses = {}
    for x in nodes:
        if x.get("k") == "DeclRefExpr":
            uses.setdefault((x.get("ref") or {}).get("id"), []).append(order[id(x)])
    mapping = {}
    stable = None
    for x in nodes:
        if x.get("k") != "VarDecl" or not x.get("init") or x.get("id") in mod:
            continue
        if x.get("storageClass") == "static":
            continue
        init = [c for c in cir.kids(x) if c is not None and not c.get("k", "").endswith("Attr")]
        if not init:
            continue
        e = init[-1]
        if not _pure_with(e, pure_calls) or contains(e, ("InitListExpr", "StringLiteral", "CompoundLiteralExpr")):
            continue
        if not _const_rooted(e):
            if stable is None:
                stable = _stable_scalar_reads(fn)
            okr = True
            for y in cir.walk(e):
                if y.get("k") == "ArraySubscriptExpr" or (y.get("k") == "UnaryOperator" and y.get("op") == "*"):
                    b_ = cir.strip(cir.kids(y)[0])
                    if "const " not in ((b_ or {}).get("t") or ""):
                        okr = False
                elif y.get("k") == "MemberExpr" and y.get("arrow"):
                    b_ = cir.strip(cir.kids(y)[0])
                    if not ((b_ or {}).get("t") or "").startswith("const "):
                        if b_ is None or b_.get("k") != "DeclRefExpr" or (b_.get("ref") or {}).get("id") in stable[0] or \
                                y.get("n") in stable[1] or "*" in (y.get("t") or "") or "[" in (y.get("t") or ""):
                            okr = False
            if not okr:
                continue
        if "[" in (x.get("t") or ""):
            continue
        if allow is not None and not allow(x, e):
            continue
        us = uses.get(x.get("id"), [])
        if not us:
            continue
        lo, hi = order[id(x)], max(us)
        ok = True
        for y in cir.walk(e):
            if y.get("k") == "DeclRefExpr":
                rid = (y.get("ref") or {}).get("id")
                if any(lo < p <= hi for p in modpos.get(rid, ())):
                    ok = False
                    break
        if ok:
            mapping[x.get("id")] = e
    if not mapping:
        return fn
    # resolve chains (a = m->x; b = a * 2)
    for _ in range(4):
        changed = False
        for k2, e in list(mapping.items()):
            if any(y.get("k") == "DeclRefExpr" and (y.get("ref") or {}).get("id") in mapping for y in cir.walk(e)):
                mapping[k2] = substitute(e, {i: v for i, v in mapping.items() if i != k2})
                changed = True
        if not changed:
            break

    def rec(n):
        if not isinstance(n, dict):
            return n
        if n.get("k") == "DeclRefExpr" and (n.get("ref") or {}).get("id") in mapping:
            return {"k": "ParenExpr", "line": n.get("line"), "t": n.get("t"), "i": [clone(mapping[n["ref"]["id"]])],
                    "prop": n["ref"].get("n")}
        out = {k: v for k, v in n.items() if k != "i"}
        if "i" in n:
            out["i"] = [rec(c) if c is not None else None for c in n["i"]]
        return out
    out = {k: v for k, v in fn.items() if k != "i"}
    out["i"] = [rec(c) if (c is not None and c.get("k") == "CompoundStmt") else c for c in cir.kids(fn)]
    return out


# ---------------------------------------------------------------------- debugging aid
def render(n, ind=0):
    """C-like rendering of a statement tree (for diagnostics and the self-tests of this module)."""
    pad = "  " * ind
    if n is None:
        return pad + ";\n"
    k = n.get("k")
    if k in ("FunctionDecl", "CXXMethodDecl"):
        return f"{n.get('n')}({', '.join(p.get('n') or '' for p in cir.params(n))})\n" + render(cir.body(n), ind)
    if k == "CompoundStmt":
        tag = f"  // inlined {n['inl']}" if n.get("inl") else ""
        return pad + "{" + tag + "\n" + "".join(render(c, ind + 1) for c in cir.kids(n)) + pad + "}\n"
    if k == "IfStmt":
        pre, cond, then, els = _if_parts(n)
        s = pad + f"if ({cir.text(cond)})\n" + render(then if then is not None else None, ind + (0 if (then or {}).get("k") == "CompoundStmt" else 1))
        if els is not None:
            s += pad + "else\n" + render(els, ind + (0 if els.get("k") == "CompoundStmt" else 1))
        return s
    if k == "ForStmt":
        c = list(cir.kids(n)) + [None] * 5
        ini = render(c[0], 0).strip() if c[0] is not None else ";"
        return pad + f"for ({ini} {cir.text(c[2])}; {cir.text(c[3])})\n" + render(c[4], ind)
    if k == "WhileStmt":
        c = list(cir.kids(n))
        return pad + f"while ({cir.text(c[0])})\n" + render(c[-1], ind)
    if k == "DoStmt":
        c = list(cir.kids(n))
        return pad + "do\n" + render(c[0], ind) + pad + f"while ({cir.text(c[1])});\n"
    if k == "SwitchStmt":
        c = list(cir.kids(n))
        return pad + f"switch ({cir.text(c[-2])})\n" + render(c[-1], ind)
    if k == "CaseStmt":
        c = list(cir.kids(n))
        return pad + f"case {cir.text(c[0])}:\n" + render(c[-1], ind + 1)
    if k == "DefaultStmt":
        return pad + "default:\n" + render(cir.kids(n)[-1], ind + 1)
    if k == "ReturnStmt":
        c = [y for y in cir.kids(n) if y is not None]
        return pad + "return" + (" " + cir.text(c[0]) if c else "") + ";\n"
    if k in ("BreakStmt", "ContinueStmt", "NullStmt"):
        return pad + {"BreakStmt": "break", "ContinueStmt": "continue", "NullStmt": ""}[k] + ";\n"
    if k == "DeclStmt":
        s = ""
        for d in cir.kids(n):
            if d is None:
                continue
            init = [c for c in cir.kids(d) if c is not None and not c.get("k", "").endswith("Attr")]
            s += pad + f"{d.get('t')} {d.get('n')}" + (f" = {cir.text(init[-1])}" if init and d.get("init") else "") + ";\n"
        return s
    if k.endswith("Stmt"):
        return pad + f"<{k}>\n" + "".join(render(c, ind + 1) for c in cir.kids(n) if c is not None)
    return pad + cir.text(n) + ";\n"


# ---------------------------------------------------------------------- structured guards
def nest(fn, fatal=True):
    """Early exits become nested if/else: in the result, the chain of enclosing `if`s of a statement is its complete guard.
    Function level: `return` and calls that do not return end a statement list; inside loop bodies `continue` and `break`
    do as well.  A loop or switch containing a return is kept as an opaque statement at the level above (its exits add no
    guard to what follows)."""
    from . import paths
    out = {k: v for k, v in fn.items() if k != "i"}
    errvars = paths.error_msg_vars(fn)

    def term(call):
        return fatal and paths.is_noreturn_call(call, errvars)

    def is_jump(s, in_loop):
        k = s.get("k")
        if k == "ReturnStmt" or (in_loop and k in ("ContinueStmt", "BreakStmt")):
            return True
        return not k.endswith("Stmt") and cir.is_call(cir.strip(s)) and term(cir.strip(s))

    def has_jump(n, in_loop):
        """n contains a jump that leaves the current statement list"""
        stack = [(n, in_loop, in_loop)]   # node, continue counts, break counts
        while stack:
            x, cc, bc = stack.pop()
            if x is None:
                continue
            k = x.get("k")
            if k == "ReturnStmt" or (k == "ContinueStmt" and cc) or (k == "BreakStmt" and bc):
                return True
            if cir.is_call(x) and term(x):
                return True
            if k in _LOOPS:
                cc = bc = False
            elif k == "SwitchStmt":
                bc = False
            for c in cir.kids(x):
                if c is not None:
                    stack.append((c, cc, bc))
        return False

    def always(stmts, in_loop):
        for s in stmts:
            if is_jump(s, in_loop):
                return True
            k = s.get("k")
            if k == "IfStmt":
                _pre, _c, then, els = _if_parts(s)
                if els is not None and always(_stmts(then), in_loop) and always(_stmts(els), in_loop):
                    return True
            if k == "CompoundStmt" and always(_stmts(s), in_loop):
                return True
        return False

    def inner(s):
        """nest inside loops / branches of a statement that itself does not jump out"""
        k = s.get("k")
        if k in _LOOPS:
            n = {kk: v for kk, v in s.items() if kk != "i"}
            kids = list(cir.kids(s))
            bi = 0 if k == "DoStmt" else len(kids) - 1
            body = kids[bi]
            if body is not None:
                kids[bi] = _block(lst(_stmts(body), (), True), body)
            n["i"] = kids
            return n
        if k == "IfStmt":
            pre, cond, then, els = _if_parts(s)
            return _mk_if(s, pre, cond, lst(_stmts(then), (), None), lst(_stmts(els), (), None) if els is not None else [])
        if k == "CompoundStmt":
            b_ = dict(s)
            b_["i"] = lst(_stmts(s), (), None)
            return b_
        if k == "SwitchStmt":
            n = {kk: v for kk, v in s.items() if kk != "i"}
            kids = list(cir.kids(s))
            if kids and kids[-1] is not None and kids[-1].get("k") == "CompoundStmt":
                b_ = dict(kids[-1])
                b_["i"] = [case(c) for c in cir.kids(kids[-1])]
                kids[-1] = b_
            n["i"] = kids
            return n
        return s

    def case(c):
        if c is None:
            return None
        if c.get("k") in ("CaseStmt", "DefaultStmt"):
            n = dict(c)
            kk = list(cir.kids(c))
            kk[-1] = case(kk[-1])
            n["i"] = kk
            return n
        return inner(c)

    cur_loop = [False]

    def lst(stmts, cont, in_loop):
        if in_loop is None:
            in_loop = cur_loop[0]
        saved = cur_loop[0]
        cur_loop[0] = in_loop
        try:
            return lst2(list(stmts), cont, in_loop)
        finally:
            cur_loop[0] = saved

    def lst2(stmts, cont, in_loop):
        res_ = []
        for idx, s in enumerate(stmts):
            k = s.get("k")
            if is_jump(s, in_loop):
                return res_ + [s]
            if k in _LOOPS or k == "SwitchStmt" or not has_jump(s, in_loop):
                # loops / switches are opaque at this level even when they contain a return
                res_.append(inner(s))
                continue
            if k == "IfStmt":
                pre, cond, then, els = _if_parts(s)
                rest = lst2(stmts[idx + 1:], cont, in_loop)
                t_stop = always(_stmts(then), in_loop)
                e_stop = always(_stmts(els), in_loop)
                t2 = lst2(_stmts(then), () if t_stop else rest, in_loop)
                e2 = lst2(_stmts(els), () if e_stop else (clone(rest) if not t_stop else rest), in_loop)
                return res_ + [_mk_if(s, pre, cond, t2, e2)]
            if k == "CompoundStmt" and not s.get("inl"):
                return res_ + lst2(_stmts(s) + stmts[idx + 1:], cont, in_loop)
            if k == "CompoundStmt":
                rest = lst2(stmts[idx + 1:], cont, in_loop)
                b_ = dict(s)
                b_["i"] = lst2(_stmts(s), rest, in_loop)
                return res_ + [b_]
            res_.append(inner(s))
        return res_ + list(cont)

    out["i"] = [(_block(lst(_stmts(c), (), False), c) if (c is not None and c.get("k") == "CompoundStmt") else c) for c in cir.kids(fn)]
    return out


def split_cond(cond, pol=True):
    """conjuncts [(node, polarity)] implied by `cond` having truth value `pol` (!, &&, || with De Morgan, __builtin_expect,
    comparisons with 0)."""
    n = cir.strip(cond)
    if n is None:
        return []
    k = n.get("k")
    if k == "UnaryOperator" and n.get("op") == "!":
        return split_cond(cir.kids(n)[0], not pol)
    if k == "CallExpr" and cir.callee(n) == "__builtin_expect":
        return split_cond(cir.args(n)[0], pol)
    if k == "BinaryOperator" and ((n.get("op") == "&&" and pol) or (n.get("op") == "||" and not pol)):
        a, b = cir.kids(n)
        return split_cond(a, pol) + split_cond(b, pol)
    if k == "BinaryOperator" and n.get("op") in ("==", "!="):
        a, b = (cir.strip(x) for x in cir.kids(n))
        for x, y in ((a, b), (b, a)):
            if y is not None and ((y.get("k") == "IntegerLiteral" and str(y.get("v")) == "0") or y.get("k") == "GNUNullExpr"):
                return split_cond(x, pol if n.get("op") == "!=" else not pol)
        if n.get("op") == "!=":
            eq = dict(n)
            eq["op"] = "=="
            return [(eq, not pol)]
    return [(n, pol)]


def guards(root, target, stmts=False):
    """[(cond node, polarity)] that hold whenever `target` (a node inside root) executes, from enclosing if statements,
    loop conditions and switch labels; None if target is not inside root.  stmts=True: triples with the guarding
    statement (IfStmt, loop, switch; None for && / || / ?: inside expressions)."""
    cache = _GUARD_CACHE.get(id(root))
    if cache is None or cache[0] is not root:
        cache = (root, _all_guards(root))
        if len(_GUARD_CACHE) > 64:
            _GUARD_CACHE.clear()
        _GUARD_CACHE[id(root)] = cache
    g = cache[1].get(id(target))
    if g is None:
        return None
    return list(g) if stmts else [(c, p) for c, p, _s in g]


_GUARD_CACHE = {}


def _all_guards(root):
    """id(node) -> guard triples for every node under root (one traversal)"""
    out = {}

    def split3(cond, pol, st):
        return [(c, p, st) for c, p in split_cond(cond, pol)]

    def rec(n, acc):
        if not isinstance(n, dict):
            return
        out[id(n)] = acc
        k = n.get("k")
        if k == "IfStmt":
            pre, cond, then, els = _if_parts(n)
            for p in pre + [cond]:
                rec(p, acc)
            if then is not None:
                rec(then, acc + split3(cond, True, n))
            if els is not None:
                rec(els, acc + split3(cond, False, n))
            return
        if k == "WhileStmt":
            c = list(cir.kids(n))
            rec(c[0], acc)
            rec(c[-1], acc + split3(c[0], True, n))
            return
        if k == "ForStmt":
            c = list(cir.kids(n)) + [None] * 5
            for x in (c[0], c[1], c[2], c[3]):
                if x is not None:
                    rec(x, acc)
            rec(c[4], acc + (split3(c[2], True, n) if c[2] is not None else []))
            return
        if k == "SwitchStmt":
            c = [x for x in cir.kids(n) if x is not None]
            subj, body = c[-2], c[-1]
            for x in c[:-1]:
                rec(x, acc)
            out[id(body)] = acc
            labels = []
            every = []
            for s in _stmts(body):
                x = s
                while x is not None and x.get("k") in ("CaseStmt", "DefaultStmt"):
                    if x.get("k") == "CaseStmt":
                        every.append(cir.kids(x)[0])
                    x = cir.kids(x)[-1]
            for s in _stmts(body):
                x = s
                fresh = False
                while x is not None and x.get("k") in ("CaseStmt", "DefaultStmt"):
                    out[id(x)] = acc
                    labels.append(cir.kids(x)[0] if x.get("k") == "CaseStmt" else None)
                    x = cir.kids(x)[-1]
                    fresh = True
                if x is None:
                    continue
                extra = []
                if len(labels) == 1 and labels[0] is not None:
                    extra = [({"k": "BinaryOperator", "op": "==", "line": s.get("line"), "i": [subj, labels[0]]}, True, n)]
                elif labels:
                    extra = [({"k": "SwitchLabels", "line": s.get("line"), "i": [subj] + [l for l in labels if l is not None],
                               "default": any(l is None for l in labels), "all": [cir.text(l) for l in every]}, True, n)]
                rec(x, acc + extra)
                last = x
                if last.get("k") == "CompoundStmt" and cir.kids(last):
                    last = [y for y in cir.kids(last) if y is not None][-1] if [y for y in cir.kids(last) if y is not None] else last
                if last.get("k") in ("BreakStmt", "ReturnStmt", "ContinueStmt"):
                    labels = []
            return
        if k == "ConditionalOperator":
            c = cir.kids(n)
            rec(c[0], acc)
            rec(c[1], acc + split3(c[0], True, None))
            rec(c[2], acc + split3(c[0], False, None))
            return
        if k == "BinaryOperator" and n.get("op") in ("&&", "||"):
            a, b = cir.kids(n)
            rec(a, acc)
            rec(b, acc + split3(a, n.get("op") == "&&", None))
            return
        for c in cir.kids(n):
            if c is not None:
                rec(c, acc)
    rec(root, [])
    return out


def _guards_slow(root, target):
    def rec(n, acc):
        if n is target:
            return acc
        if not isinstance(n, dict):
            return None
        k = n.get("k")
        if k == "IfStmt":
            pre, cond, then, els = _if_parts(n)
            for p in pre + [cond]:
                r = rec(p, acc)
                if r is not None:
                    return r
            r = rec(then, acc + split_cond(cond, True)) if then is not None else None
            if r is not None:
                return r
            return rec(els, acc + split_cond(cond, False)) if els is not None else None
        if k in ("WhileStmt",):
            c = list(cir.kids(n))
            r = rec(c[0], acc)
            if r is not None:
                return r
            return rec(c[-1], acc + split_cond(c[0], True))
        if k == "ForStmt":
            c = list(cir.kids(n)) + [None] * 5
            for x in (c[0], c[2], c[3]):
                if x is not None:
                    r = rec(x, acc)
                    if r is not None:
                        return r
            return rec(c[4], acc + (split_cond(c[2], True) if c[2] is not None else []))
        if k == "SwitchStmt":
            c = [x for x in cir.kids(n) if x is not None]
            subj, body = c[-2], c[-1]
            labels = []
            for s in _stmts(body):
                x = s
                while x is not None and x.get("k") in ("CaseStmt", "DefaultStmt"):
                    labels.append(cir.kids(x)[0] if x.get("k") == "CaseStmt" else None)
                    x = cir.kids(x)[-1]
                if x is not None:
                    extra = []
                    if len(labels) == 1 and labels[0] is not None:
                        extra = [({"k": "BinaryOperator", "op": "==", "line": s.get("line"), "i": [subj, labels[0]]}, True)]
                    r = rec(x, acc + extra)
                    if r is not None:
                        return r
                    if x.get("k") == "BreakStmt" or (x.get("k") == "CompoundStmt" and any((y or {}).get("k") == "BreakStmt" for y in cir.kids(x))):
                        labels = []
                    elif x.get("k") in ("ReturnStmt",):
                        labels = []
            return None
        if k == "ConditionalOperator":
            c = cir.kids(n)
            r = rec(c[0], acc)
            if r is not None:
                return r
            r = rec(c[1], acc + split_cond(c[0], True))
            if r is not None:
                return r
            return rec(c[2], acc + split_cond(c[0], False))
        if k == "BinaryOperator" and n.get("op") in ("&&", "||"):
            a, b = cir.kids(n)
            r = rec(a, acc)
            if r is not None:
                return r
            return rec(b, acc + split_cond(a, n.get("op") == "&&"))
        for c in cir.kids(n):
            if c is not None:
                r = rec(c, acc)
                if r is not None:
                    return r
        return None
    return rec(root, [])


def canon(unit, name_or_fn, inline_helpers=True, propagate=False, nested=True, depth=4, exclude=()):
    """Canonical view of a function: static helpers inlined, early returns nested, optionally locals propagated."""
    fn = unit.funcs.get(name_or_fn) if isinstance(name_or_fn, str) else name_or_fn
    if fn is None:
        return None
    cache = unit.__dict__.setdefault("_canon", {})
    key = (fn.get("n"), inline_helpers, propagate, nested, depth, tuple(sorted(exclude)))
    if key in cache:
        return cache[key]
    f2 = fn
    inl = []
    if inline_helpers:
        I = Inliner(unit, depth=depth, exclude=exclude)
        f2 = I.expand(f2)
        inl = sorted({h for _c, h, _l in I.inlined})
    if nested:
        f2 = nest(f2)
    if propagate:
        if "_pure" not in unit.__dict__:
            unit.__dict__["_pure"] = pure_functions(unit)
        f2 = propagate_locals(f2, pure_calls=unit.__dict__["_pure"])
    f2 = dict(f2)
    f2["inlined"] = inl
    cache[key] = f2
    return f2


def enum_cases(gs, enumerators, subject=None):
    """The enumerators (names) consistent with the guard atoms gs = [(cond, pol), ...]: `x == E` / `x != E` atoms and switch
    label sets.  subject: optional predicate on the text of the compared expression.  Returns (set, constrained?)."""
    live = set(enumerators)
    constrained = False
    for g in gs or ():
        c, pol = g[0], g[1]
        k = c.get("k")
        if k == "BinaryOperator" and c.get("op") == "==":
            a, b = (cir.text(x) for x in cir.kids(c))
            for lab, other in ((a, b), (b, a)):
                if lab in enumerators and (subject is None or subject(other)):
                    constrained = True
                    if pol:
                        live &= {lab}
                    else:
                        live.discard(lab)
                    break
        elif k == "SwitchLabels":
            kk = cir.kids(c)
            if subject is not None and not subject(cir.text(kk[0])):
                continue
            labs = {cir.text(x) for x in kk[1:]}
            if not (labs | set(c.get("all") or ())) & set(enumerators):
                continue
            constrained = True
            allowed = set(labs)
            if c.get("default"):
                allowed |= set(enumerators) - set(c.get("all") or ())
            if pol:
                live &= allowed
            else:
                live -= allowed
    return live, constrained


# ---------------------------------------------------------------------- normalised unit view
class ViewUnit:
    """A Unit look-alike whose functions are canonical views: static helpers that only one function calls (and whose address
    is never taken) are analysed inside that caller; shared helpers, public functions and `keep` stay functions of their own.
    Rules written against "the function that does X" then see the same thing whether X's parts live in private helpers or
    not."""

    def __init__(self, unit, keep=(), nested=False, propagate=False, procedures_only=True, max_callers=1):
        self._u = unit
        self.tu = unit.tu
        self.ir = unit.ir
        callers = {}
        addr_taken = set()
        for name, fn in unit.funcs.items():
            for x in cir.walk(fn):
                if cir.is_call(x):
                    c = cir.callee(x)
                    if c in unit.funcs and c != name:
                        callers.setdefault(c, set()).add(name)
                    for a in cir.args(x):
                        s = cir.strip(a)
                        if s is not None and s.get("k") == "DeclRefExpr" and (s.get("ref") or {}).get("k") == "FunctionDecl":
                            addr_taken.add(s["ref"].get("n"))
                elif x.get("k") == "DeclRefExpr" and (x.get("ref") or {}).get("k") == "FunctionDecl":
                    pass
        for v in unit.vars.values():
            for x in cir.walk(v):
                if x.get("k") == "DeclRefExpr" and (x.get("ref") or {}).get("k") == "FunctionDecl":
                    addr_taken.add(x["ref"].get("n"))
        self.private = {n for n, fn in unit.funcs.items()
                        if fn.get("storageClass") == "static" and fn.get("file") in (None, unit.tu) and n not in keep
                        and n not in addr_taken and callers.get(n) and (max_callers is None or len(callers[n]) <= max_callers)
                        and (not procedures_only or (fn.get("t") or "").startswith("void ("))
                        and (cir.body(fn) or {}).get("sfile") in (None, unit.tu)}
        self.exclude = tuple(sorted(n for n in unit.funcs if n not in self.private))
        self._cache = {}
        self.nested = nested
        self.propagate = propagate
        self.funcs = _ViewFuncs(self)
        for attr in ("protos", "vars", "records", "enums", "typedefs"):
            setattr(self, attr, getattr(unit, attr))

    def view(self, name):
        if name not in self._cache:
            fn = self._u.funcs[name]
            I = Inliner(self._u, depth=4, pred=lambda h: h.get("n") in self.private)
            f2 = I.expand(fn)
            if self.nested:
                f2 = nest(f2)
            if self.propagate:
                f2 = propagate_locals(f2)
            f2 = dict(f2)
            f2["inlined"] = sorted({h for _c, h, _l in I.inlined})
            self._cache[name] = f2
        return self._cache[name]


class _ViewFuncs:
    """dict-like: the functions of the unit that remain functions of their own, as canonical views.  A private helper that
    could not be analysed inside its caller (it returns from inside a loop, or is called in an unsupported position) stays
    visible."""

    def __init__(self, vu):
        self.vu = vu
        self._left = None

    def _names(self):
        if self._left is None:
            u = self.vu._u
            pub = [n for n in u.funcs if n not in self.vu.private]
            still = set()
            for n in pub:
                v = self.vu.view(n)
                for c in cir.calls(v):
                    if cir.callee(c) in self.vu.private:
                        still.add(cir.callee(c))
            # helpers of helpers that stayed
            work = list(still)
            while work:
                h = work.pop()
                for c in cir.calls(self.vu.view(h)):
                    if cir.callee(c) in self.vu.private and cir.callee(c) not in still:
                        still.add(cir.callee(c))
                        work.append(cir.callee(c))
            self._left = [n for n in u.funcs if n not in self.vu.private or n in still]
        return self._left

    def __contains__(self, k):
        return k in self._names()

    def __getitem__(self, k):
        if k not in self._names():
            raise KeyError(k)
        return self.vu.view(k)

    def get(self, k, default=None):
        return self[k] if k in self else default

    def __iter__(self):
        return iter(self._names())

    def keys(self):
        return list(self._names())

    def items(self):
        return [(k, self[k]) for k in self._names()]

    def values(self):
        return [self[k] for k in self._names()]

    def __len__(self):
        return len(self._names())


def fold_break_guards(fn):
    """`for (..; c; ..) { if (g) break; S }`  ==>  `for (..; c && !g; ..) { S }` (same for while), applied on the nested view:
    a leading break guard is part of the loop condition."""
    def rec(n):
        if not isinstance(n, dict):
            return n
        out = {k: v for k, v in n.items() if k != "i"}
        if "i" in n:
            out["i"] = [rec(c) if c is not None else None for c in n["i"]]
        k = out.get("k")
        if k in ("ForStmt", "WhileStmt"):
            kids = list(out["i"])
            ci = 2 if k == "ForStmt" else 0
            bi = len(kids) - 1
            body = kids[bi]
            changed = True
            while changed and body is not None:
                changed = False
                st = _stmts(body)
                # skip leading declarations without side effects? no: only a literal leading guard
                if st and st[0].get("k") == "IfStmt":
                    pre, g, then, els = _if_parts(st[0])
                    ts = _stmts(then)
                    if not pre and len(ts) == 1 and ts[0].get("k") == "BreakStmt" and cir.is_pure(g):
                        rest = (_stmts(els) if els is not None else []) + st[1:]
                        notg = {"k": "UnaryOperator", "op": "!", "line": g.get("line"), "t": "int", "i": [g]}
                        cond = kids[ci]
                        kids[ci] = notg if cond is None else {"k": "BinaryOperator", "op": "&&", "line": cond.get("line"), "t": "int",
                                                               "i": [cond, notg]}
                        body = _block(rest, body)
                        kids[bi] = body
                        changed = True
            out["i"] = kids
        return out
    return rec(fn)
