"""Facts about the public C API (include/mujoco/*.h) as the C compiler sees them.

A probe translation unit (`#include <mujoco/mujoco.h>`, the same entry point the repository's own
introspect code generator feeds to clang) is written under /verif/.cache and dumped with
`clang -fsyntax-only -Xclang -ast-dump=json` using the build's language level.  The JSON goes to a file
(never through a pipe), is loaded once and reduced to plain data:

  Headers.files        header files (relative to the repo) that contributed a declaration
  Headers.typedefs     name -> {t, dt, file, line}
  Headers.records      "struct mjModel_" -> {tag, name, complete, fields:[Field], file, line}
                       Field = {name|None, t, dt, anon: record|None, bitfield, line}
  Headers.enums        "enum mjtJoint" -> {name, values:[(enumerator, int)], file, line}
  Headers.functions    name -> {ret, params:[{name, t, dt, src}], variadic, api, body, storage, file, line}
                       `src` is the parameter's declaration text with the name removed (keeps `[9]`)
  Headers.vars         name -> {t, file, line}
  Headers.macros       object-like mj* macros with integer bodies (clang -E -dM): name -> int
  Headers.macro_names  names of all object-like mj* macros

Enumerator values are computed here from the initialiser expressions / implicit increments and
cross-checked against the value clang's constant evaluator attached (ConstantExpr.value).

Also a small C *type* parser (`parse_type`) producing the tree the introspect metadata uses:
  ("val", name, const, volatile) | ("ptr", inner, const, volatile, restrict) | ("arr", inner, extents)
  | ("fn", ret, (params...), variadic)
"""
from __future__ import annotations

import hashlib
import json
import os
import pickle
import re
import subprocess

from .cfront import CACHE, REPO, AnalysisError, build_flags

VERSION = "4"
PUBLIC_DIR = "include/mujoco"
PROBE_INCLUDES = ("mujoco/mujoco.h",)


# --------------------------------------------------------------------------------------
# C type strings -> trees

_TOK = re.compile(r"\s*([A-Za-z_][A-Za-z0-9_]*|\d+|\.\.\.|[*()\[\],])")
_QUALS = ("const", "volatile", "restrict", "__restrict", "__restrict__")


def _tokens(s):
    out = []
    pos = 0
    s = s.strip()
    while pos < len(s):
        m = _TOK.match(s, pos)
        if not m:
            raise AnalysisError(f"cannot tokenise C type {s!r} at {s[pos:pos + 20]!r}")
        out.append(m.group(1))
        pos = m.end()
    return out


class _TP:
    def __init__(self, s, consts=None):
        self.s = s
        self.t = _tokens(s)
        self.p = 0
        self.consts = consts or {}

    def peek(self):
        return self.t[self.p] if self.p < len(self.t) else None

    def take(self, want=None):
        tok = self.peek()
        if tok is None or (want is not None and tok != want):
            raise AnalysisError(f"cannot parse C type {self.s!r}: expected {want!r}, got {tok!r}")
        self.p += 1
        return tok

    def full(self):
        base = self.spec()
        t = self.decl(base)
        if self.peek() is not None:
            raise AnalysisError(f"cannot parse C type {self.s!r}: trailing {self.peek()!r}")
        return t

    def spec(self):
        words = []
        c = v = False
        while True:
            tok = self.peek()
            if tok is None or not (tok[0].isalpha() or tok[0] == "_"):
                break
            if tok == "const":
                c = True
            elif tok == "volatile":
                v = True
            elif tok in _QUALS:
                raise AnalysisError(f"cannot parse C type {self.s!r}: restrict on a non-pointer")
            else:
                words.append(tok)
            self.p += 1
        if not words:
            raise AnalysisError(f"cannot parse C type {self.s!r}: no type specifier")
        return ("val", " ".join(words), c, v)

    def decl(self, base):
        """abstract-declarator applied to `base` (inside-out, as in C)."""
        # pointer operators bind to the base first
        while self.peek() == "*":
            self.take()
            c = v = r = False
            while self.peek() in _QUALS:
                q = self.take()
                if q == "const":
                    c = True
                elif q == "volatile":
                    v = True
                else:
                    r = True
            base = ("ptr", base, c, v, r)
        # direct declarator: optional parenthesised inner declarator, then suffixes
        inner_span = None
        if self.peek() == "(" and self._is_grouping():
            self.take("(")
            start = self.p
            depth = 1
            while depth:
                tok = self.take()
                if tok == "(":
                    depth += 1
                elif tok == ")":
                    depth -= 1
            inner_span = (start, self.p - 1)
        # suffixes apply to base before the inner declarator does
        sufs = []
        while self.peek() in ("[", "("):
            if self.peek() == "[":
                self.take("[")
                tok = self.take()
                if tok.isdigit():
                    n = int(tok)
                elif tok in self.consts:
                    n = self.consts[tok]
                else:
                    raise AnalysisError(f"cannot parse C type {self.s!r}: array extent {tok!r} is not a known constant")
                self.take("]")
                sufs.append(("arr", n))
            else:
                self.take("(")
                params = []
                variadic = False
                if self.peek() == ")":
                    self.take(")")
                else:
                    while True:
                        if self.peek() == "...":
                            self.take()
                            variadic = True
                        else:
                            pb = self.spec()
                            params.append(self.decl(pb))
                        if self.peek() == ",":
                            self.take(",")
                            continue
                        self.take(")")
                        break
                if len(params) == 1 and params[0] == ("val", "void", False, False):
                    params = []
                sufs.append(("fn", tuple(params), variadic))
        # consecutive array suffixes form one multi-dimensional array, as the metadata writes them
        i = len(sufs) - 1
        pending = []
        t = base

        def flush(t):
            if pending:
                t = ("arr", t, tuple(reversed(pending)))
                del pending[:]
            return t
        while i >= 0:
            sfx = sufs[i]
            if sfx[0] == "arr":
                pending.append(sfx[1])
            else:
                t = flush(t)
                t = ("fn", t, sfx[1], sfx[2])
            i -= 1
        t = flush(t)
        if inner_span is not None:
            sub = _TP(self.s, self.consts)
            sub.t = self.t[inner_span[0]:inner_span[1]]
            sub.p = 0
            t = sub.decl(t)
            if sub.peek() is not None:
                raise AnalysisError(f"cannot parse C type {self.s!r}: trailing {sub.peek()!r} in declarator")
        return t

    def _is_grouping(self):
        """'(' opens a nested declarator (next token is '*', '(' or '[') rather than a parameter list."""
        nxt = self.t[self.p + 1] if self.p + 1 < len(self.t) else None
        return nxt in ("*", "(", "[")


def parse_type(s: str, consts=None):
    """Parse a C type name (abstract declarator), e.g. 'const mjtNum *', 'mjtNum (*)[3]', 'int (*)(void *)'."""
    return _TP(s, consts).full()


def decay(t):
    """Array-to-pointer adjustment of a parameter type."""
    if t[0] == "arr":
        inner, ext = t[1], t[2]
        if len(ext) > 1:
            return ("ptr", ("arr", inner, ext[1:]), False, False, False)
        return ("ptr", inner, False, False, False)
    if t[0] == "fn":
        return ("ptr", t, False, False, False)
    return t


def show(t) -> str:
    """Readable rendering of a type tree (for messages)."""
    def go(t, d):
        k = t[0]
        if k == "val":
            q = ("const " if t[2] else "") + ("volatile " if t[3] else "")
            return (q + t[1] + (" " + d if d else "")).strip()
        if k == "ptr":
            q = "".join(" " + w for w, f in zip(("const", "volatile", "restrict"), t[2:5]) if f)
            d2 = "*" + q.lstrip() + ((" " if q else "") + d if d else "")
            if t[1][0] in ("arr", "fn"):
                d2 = f"({d2})"
            return go(t[1], d2)
        if k == "arr":
            return go(t[1], d + "".join(f"[{n}]" for n in t[2]))
        if k == "fn":
            ps = ", ".join(go(p, "") for p in t[2]) or "void"
            if t[3]:
                ps += ", ..."
            return go(t[1], f"{d}({ps})")
        return repr(t)
    return go(t, "")


# --------------------------------------------------------------------------------------
# clang dump -> facts


class _Loc:
    """Tracks clang's delta-encoded file names in print order."""

    def __init__(self):
        self.file = None
        self.line = None

    def bare(self, loc):
        if not loc:
            return None
        if "file" in loc:
            self.file = loc["file"]
        if "line" in loc:
            self.line = loc["line"]
        if "offset" not in loc:
            return None
        return (self.file, self.line, loc.get("col"), loc["offset"], loc.get("tokLen", 0))

    def loc(self, loc):
        if not loc:
            return None
        if "spellingLoc" in loc or "expansionLoc" in loc:
            self.bare(loc.get("spellingLoc"))
            return self.bare(loc.get("expansionLoc"))
        return self.bare(loc)

    def node(self, n):
        """Process a node's own locations; return (loc, begin, end)."""
        lo = self.loc(n.get("loc")) if "loc" in n else None
        r = n.get("range") or {}
        b = self.loc(r.get("begin"))
        e = self.loc(r.get("end"))
        return lo, b, e

    def skip(self, n):
        """Consume the locations of a whole subtree (keeps file/line state exact)."""
        stack = [n]
        while stack:
            x = stack.pop()
            self.node(x)
            inner = x.get("inner")
            if inner:
                stack.extend(reversed(inner))


def _enum_value(expr, known, where):
    """Evaluate an enumerator initialiser from the AST (independent of clang's folded value)."""
    k = expr.get("kind")
    inner = expr.get("inner") or []
    if k in ("ConstantExpr", "ParenExpr", "ImplicitCastExpr", "CStyleCastExpr"):
        return _enum_value(inner[0], known, where)
    if k == "IntegerLiteral":
        return int(expr["value"])
    if k == "CharacterLiteral":
        return int(expr["value"])
    if k == "DeclRefExpr":
        name = (expr.get("referencedDecl") or {}).get("name")
        if name in known:
            return known[name]
        raise AnalysisError(f"{where}: enumerator initialiser refers to unknown constant {name!r}")
    if k == "UnaryOperator":
        v = _enum_value(inner[0], known, where)
        op = expr.get("opcode")
        if op == "-":
            return -v
        if op == "+":
            return v
        if op == "~":
            return ~v
        if op == "!":
            return int(not v)
    if k == "BinaryOperator":
        a = _enum_value(inner[0], known, where)
        b = _enum_value(inner[1], known, where)
        op = expr.get("opcode")
        f = {"+": lambda: a + b, "-": lambda: a - b, "*": lambda: a * b, "<<": lambda: a << b,
             ">>": lambda: a >> b, "|": lambda: a | b, "&": lambda: a & b, "^": lambda: a ^ b,
             "/": lambda: int(a / b) if b else None, "%": lambda: a - b * int(a / b) if b else None}.get(op)
        if f is not None:
            v = f()
            if v is not None:
                return v
    raise AnalysisError(f"{where}: cannot evaluate enumerator initialiser ({k} {expr.get('opcode', '')})")


class _Extract:
    def __init__(self, repo):
        self.repo = repo
        self.L = _Loc()
        self.typedefs = {}
        self.records = {}
        self.enums = {}
        self.functions = {}
        self.vars = {}
        self.files = set()
        self.consts = {}          # every enumerator seen so far (C scope: all are file-scope constants)
        self.src = {}

    def text(self, file, a, b):
        data = self.src.get(file)
        if data is None:
            path = file if file.startswith("/") else os.path.join(self.repo, file)
            with open(path, "rb") as f:
                data = f.read()
            self.src[file] = data
        return data[a:b].decode("utf-8", "replace")

    def top(self, n):
        lo, b, e = self.L.node(n)
        pos = lo or b
        file = pos[0] if pos else None
        public = bool(file) and file.startswith(PUBLIC_DIR + "/")
        k = n.get("kind")
        if not public:
            # enumerators of system headers are irrelevant; just keep the location state exact
            for c in n.get("inner") or ():
                self.L.skip(c)
            return
        self.files.add(file)
        line = pos[1]
        if k == "TypedefDecl":
            ty = n.get("type") or {}
            self.typedefs[n["name"]] = {"t": ty.get("qualType"), "dt": ty.get("desugaredQualType"),
                                        "file": file, "line": line}
            for c in n.get("inner") or ():
                self.L.skip(c)
        elif k == "RecordDecl":
            rec = self.record(n, file, line, inner_done=False)
            if rec["name"]:
                key = f"{rec['tag']} {rec['name']}"
                old = self.records.get(key)
                if old is None or (rec["complete"] and not old["complete"]):
                    self.records[key] = rec
        elif k == "EnumDecl":
            en = self.enum(n, file, line)
            if en["name"]:
                self.enums["enum " + en["name"]] = en
            else:
                self.enums[f"enum <anonymous {file}:{line}>"] = en
        elif k == "FunctionDecl":
            self.function(n, file, line, lo)
        elif k == "VarDecl":
            self.vars[n.get("name")] = {"t": (n.get("type") or {}).get("qualType"), "file": file, "line": line}
            for c in n.get("inner") or ():
                self.L.skip(c)
        else:
            for c in n.get("inner") or ():
                self.L.skip(c)

    def record(self, n, file, line, inner_done=False, pos=None):
        rec = {"tag": n.get("tagUsed"), "name": n.get("name"), "complete": bool(n.get("completeDefinition")),
               "fields": [], "file": file, "line": line}
        nested = []      # (line, col, record) of nested tag declarations, in order
        for c in n.get("inner") or ():
            ck = c.get("kind")
            if ck == "RecordDecl":
                lo, b, e = self.L.node(c)
                p = lo or b
                sub = self.record(c, p[0], p[1])
                nested.append({"line": p[1], "col": p[2], "rec": sub, "used": False})
                if sub["name"]:
                    # a tagged struct declared inside another one is a file-scope type in C
                    key = f"{sub['tag']} {sub['name']}"
                    if key not in self.records or sub["complete"]:
                        self.records[key] = sub
            elif ck == "EnumDecl":
                lo, b, e = self.L.node(c)
                p = lo or b
                en = self.enum(c, p[0], p[1], located=True)
                if en["name"]:
                    self.enums["enum " + en["name"]] = en
            elif ck == "FieldDecl":
                lo, b, e = self.L.node(c)
                p = lo or b
                ty = c.get("type") or {}
                t = ty.get("qualType") or ""
                f = {"name": c.get("name"), "t": t, "dt": ty.get("desugaredQualType"), "anon": None,
                     "bitfield": bool(c.get("isBitfield")), "line": p[1] if p else line}
                # clang spellings: `struct (unnamed struct at f.h:132:3)`, `union T_::(anonymous at f.h:256:3)`
                m = re.search(r"\((?:unnamed|anonymous)(?: struct| union)? at [^)]*?:(\d+):(\d+)\)", t)
                if m:
                    want = (int(m.group(1)), int(m.group(2)))
                    hit = [x for x in nested if (x["line"], x["col"]) == want]
                    if len(hit) != 1:
                        raise AnalysisError(f"{file}:{f['line']}: cannot link field {f['name']!r} to its unnamed "
                                            f"{t!r} (nested records at {[(x['line'], x['col']) for x in nested]})")
                    hit[0]["used"] = True
                    f["anon"] = hit[0]["rec"]
                elif f["name"] is None:
                    raise AnalysisError(f"{file}:{f['line']}: nameless field of type {t!r}")
                rec["fields"].append(f)
                for cc in c.get("inner") or ():
                    self.L.skip(cc)
            else:
                # IndirectFieldDecl, attributes, comments: no facts, keep the location state exact
                self.L.skip(c)
        for x in nested:
            if not x["rec"]["name"] and not x["used"]:
                raise AnalysisError(f"{file}:{x['line']}: unnamed nested {x['rec']['tag']} is not the type of any field")
        return rec

    def enum(self, n, file, line, located=False):
        en = {"name": n.get("name"), "values": [], "file": file, "line": line}
        nxt = 0
        for c in n.get("inner") or ():
            if c.get("kind") != "EnumConstantDecl":
                self.L.skip(c)
                continue
            lo, b, e = self.L.node(c)
            p = lo or b
            where = f"{file}:{p[1] if p else line}"
            inner = [x for x in (c.get("inner") or ()) if x.get("kind", "").endswith(("Expr", "Literal", "Operator"))]
            if inner:
                v = _enum_value(inner[0], self.consts, where)
                folded = inner[0].get("value") if inner[0].get("kind") == "ConstantExpr" else None
                if folded is not None and int(folded) != v:
                    raise AnalysisError(f"{where}: enumerator {c.get('name')}: evaluated {v}, clang folded {folded}")
            else:
                v = nxt
            for cc in c.get("inner") or ():
                self.L.skip(cc)
            en["values"].append((c["name"], v))
            self.consts[c["name"]] = v
            nxt = v + 1
        return en

    def function(self, n, file, line, lo):
        ty = (n.get("type") or {}).get("qualType") or ""
        fn = {"name": n["name"], "type": ty, "params": [], "variadic": bool(n.get("variadic")), "api": False,
              "body": False, "storage": n.get("storageClass"), "inline": bool(n.get("inline")),
              "file": file, "line": line}
        for c in n.get("inner") or ():
            ck = c.get("kind")
            if ck == "ParmVarDecl":
                plo, pb, pe = self.L.node(c)
                pty = c.get("type") or {}
                src = None
                if pb and pe and pb[0] == pe[0] and pb[0] and not pb[0].startswith("<"):
                    a, b = pb[3], pe[3] + pe[4]
                    src = self.text(pb[0], a, b)
                    if plo and plo[0] == pb[0] and c.get("name"):
                        na, nb = plo[3] - a, plo[3] - a + plo[4]
                        if src[na:nb] == c["name"]:
                            src = src[:na] + " " + src[nb:]
                        else:
                            src = None
                fn["params"].append({"name": c.get("name"), "t": pty.get("qualType"),
                                     "dt": pty.get("desugaredQualType"), "src": src, "line": pb[1] if pb else line})
                for cc in c.get("inner") or ():
                    self.L.skip(cc)
            elif ck == "VisibilityAttr":
                self.L.skip(c)
                if c.get("visibility", "default") == "default":
                    fn["api"] = True
            elif ck == "CompoundStmt":
                fn["body"] = True
                self.L.skip(c)
            else:
                self.L.skip(c)
        old = self.functions.get(fn["name"])
        if old is not None:
            # redeclaration: keep the first, remember the visibility of any
            old["api"] = old["api"] or fn["api"]
            old["body"] = old["body"] or fn["body"]
            old.setdefault("redecl", []).append(fn)
        else:
            self.functions[fn["name"]] = fn


class Headers:
    def __init__(self, d):
        self.__dict__.update(d)

    # -- convenience for other checkers ------------------------------------------------
    def struct(self, name):
        """Record of the public struct typedef `name` (e.g. 'mjModel'), or None."""
        td = self.typedefs.get(name)
        if td is None:
            return None
        return self.records.get(td["t"])

    def public_fields(self, name, flatten=True):
        """Field names of struct typedef `name`, in declaration order (anonymous members flattened)."""
        rec = self.struct(name)
        if rec is None:
            raise AnalysisError(f"struct {name} is not declared in {PUBLIC_DIR}")
        out = []

        def go(r):
            for f in r["fields"]:
                if f["name"] is None and f["anon"] is not None and flatten:
                    go(f["anon"])
                elif f["name"] is not None:
                    out.append(f["name"])
        go(rec)
        return out

    def field(self, struct, name):
        rec = self.struct(struct)
        if rec is None:
            return None
        for f in rec["fields"]:
            if f["name"] == name:
                return f
        return None

    def enum(self, name):
        """Enum facts for typedef or tag `name` ('mjtJoint'), or None."""
        td = self.typedefs.get(name)
        if td is not None and td["t"] in self.enums:
            return self.enums[td["t"]]
        return self.enums.get("enum " + name)

    def enumerators(self, name):
        e = self.enum(name)
        return dict(e["values"]) if e else None


def _digest(repo, flags):
    h = hashlib.sha256()
    h.update(VERSION.encode())
    h.update(" ".join(flags).encode())
    h.update(repr(PROBE_INCLUDES).encode())
    d = os.path.join(repo, PUBLIC_DIR)
    try:
        names = sorted(os.listdir(d))
    except OSError:
        raise AnalysisError(f"anchor vanished: {d} does not exist")
    for f in names:
        p = os.path.join(d, f)
        if os.path.isfile(p):
            h.update(f.encode())
            with open(p, "rb") as fh:
                h.update(fh.read())
    return h.hexdigest()[:24]


_MEMO = {}


def load(repo: str = REPO, use_cache: bool = True) -> Headers:
    repo = os.path.abspath(repo)
    if repo in _MEMO:
        return _MEMO[repo]
    std = [f for f in build_flags(repo)["c"] if f.startswith("-std=")]
    flags = std + ["-D_GNU_SOURCE", "-Iinclude"]
    dg = _digest(repo, flags)
    os.makedirs(CACHE, exist_ok=True)
    cpath = os.path.join(CACHE, f"cheaders.{dg}.pkl")
    if use_cache and os.path.exists(cpath):
        try:
            with open(cpath, "rb") as f:
                h = Headers(pickle.load(f))
            h.repo = repo           # the cache is keyed by header content, not by location
            _MEMO[repo] = h
            return h
        except Exception:
            pass
    probe = os.path.join(CACHE, f"probe_headers.{dg}.c")
    with open(probe, "w") as f:
        for inc in PROBE_INCLUDES:
            if not os.path.isfile(os.path.join(repo, "include", inc)):
                raise AnalysisError(f"anchor vanished: include/{inc}")
            f.write(f"#include <{inc}>\n")
    tmpjson = os.path.join(CACHE, f"tmp.cheaders.{os.getpid()}.json")
    try:
        with open(tmpjson, "wb") as out:
            p = subprocess.run(["clang", "-fsyntax-only", "-w"] + flags + ["-Xclang", "-ast-dump=json", probe],
                               cwd=repo, stdout=out, stderr=subprocess.PIPE)
        if p.returncode != 0 or os.path.getsize(tmpjson) == 0:
            raise AnalysisError(f"clang could not parse the public headers:\n{p.stderr.decode()[:3000]}")
        with open(tmpjson, "rb") as f:
            root = json.load(f)
        pm = subprocess.run(["clang", "-E", "-dM", "-w"] + flags + [probe], cwd=repo, stdout=subprocess.PIPE,
                            stderr=subprocess.PIPE)
        if pm.returncode != 0:
            raise AnalysisError(f"clang -E -dM failed on the public headers: {pm.stderr.decode()[:1000]}")
    finally:
        for p_ in (tmpjson, probe):
            try:
                os.remove(p_)
            except OSError:
                pass
    ex = _Extract(repo)
    for n in root.get("inner") or ():
        ex.top(n)
    macros = {}
    macro_names = set()
    for ln in pm.stdout.decode("utf-8", "replace").splitlines():
        m = re.match(r"#define (mj[A-Za-z0-9_]*)(\(|\s|$)", ln)
        if m and m.group(2) != "(":
            macro_names.add(m.group(1))
        m = re.match(r"#define (mj[A-Za-z0-9_]*) \(?(-?\d+)\)?$", ln)
        if m:
            macros[m.group(1)] = int(m.group(2))
    if not ex.functions or not ex.records or not ex.enums:
        raise AnalysisError("the probe TU yielded no public declarations (include path or location tracking broken)")
    d = {"repo": repo, "files": sorted(ex.files), "typedefs": ex.typedefs, "records": ex.records,
         "enums": ex.enums, "functions": ex.functions, "vars": ex.vars, "macros": macros,
         "macro_names": sorted(macro_names), "consts": ex.consts}
    if use_cache:
        tmp = cpath + f".{os.getpid()}.tmp"
        with open(tmp, "wb") as f:
            pickle.dump(d, f, protocol=pickle.HIGHEST_PROTOCOL)
        os.replace(tmp, cpath)
    h = Headers(d)
    _MEMO[repo] = h
    return h


def function_return(fn, consts=None):
    """Return type tree of a function fact (parsed from clang's function type)."""
    t = parse_type(fn["type"], consts)
    if t[0] != "fn":
        raise AnalysisError(f"{fn['file']}:{fn['line']}: {fn['name']} has non-function type {fn['type']!r}")
    return t[1]


def param_type(p, consts=None, where=""):
    """(type tree as declared, tree as adjusted by the compiler).

    clang reports the *adjusted* type of an array parameter (`mjtNum *` for `mjtNum res[9]`).  The declared
    extents are re-read from the parameter's own source range (name removed) and accepted only if the array
    type so obtained decays to exactly the compiler's type; otherwise the compiler's type is used as is.
    """
    adjusted = parse_type(p["t"], consts)
    src = p.get("src")
    if src and "[" in src:
        try:
            declared = parse_type(src, consts)
        except AnalysisError as e:
            raise AnalysisError(f"{where}: parameter {p['name']}: cannot re-read array declarator {src!r}: {e}")
        if decay(declared) != adjusted:
            raise AnalysisError(f"{where}: parameter {p['name']}: source text {src!r} does not decay to the "
                                f"compiler's type {p['t']!r}")
        return declared, adjusted
    return adjusted, adjusted


# --------------------------------------------------------------------------------------
# a C function that lives in a C++ source file clang cannot parse here (third-party includes)


def extract_function_text(path, name):
    """Source text of the definition of free function `name` in a C/C++ file, found by a tiny lexer
    (comments, string and character literals are skipped; braces are matched).  Returns (text, line)."""
    try:
        with open(path, encoding="utf-8", errors="replace") as f:
            src = f.read()
    except OSError as e:
        raise AnalysisError(f"cannot read {path}: {e}")
    n = len(src)
    i = 0
    depth = 0
    stmt_start = 0          # start of the current file-scope declaration
    toks = []               # identifier / punctuation tokens of the current file-scope declaration: (text, pos)
    hits = []
    while i < n:
        c = src[i]
        if src.startswith("//", i):
            j = src.find("\n", i)
            i = n if j < 0 else j
            continue
        if src.startswith("/*", i):
            j = src.find("*/", i + 2)
            i = n if j < 0 else j + 2
            continue
        if c == "#" and (i == 0 or src[:i].rstrip(" \t").endswith("\n") or not src[:i].strip()):
            # preprocessor line (with continuations)
            j = i
            while True:
                k = src.find("\n", j)
                if k < 0:
                    j = n
                    break
                if src[k - 1] == "\\":
                    j = k + 1
                    continue
                j = k
                break
            i = j
            if depth == 0:
                stmt_start = i
                toks = []
            continue
        if c == '"' or c == "'":
            j = i + 1
            while j < n and src[j] != c:
                j += 2 if src[j] == "\\" else 1
            i = j + 1
            continue
        if c == "{":
            if depth == 0:
                # function definition `... name ( ... ) {` at file scope?
                words = [t for t, _ in toks]
                if name in words:
                    k = words.index(name)
                    if k + 1 < len(words) and words[k + 1] == "(" and words and words[-1] == ")" \
                            and "=" not in words and (k == 0 or words[k - 1] not in ("::", ".", "->")):
                        hits.append((stmt_start, i))
            depth += 1
            i += 1
            continue
        if c == "}":
            depth -= 1
            i += 1
            if depth == 0:
                if hits and hits[-1][1] is not None and len(hits[-1]) == 2 and hits[-1][0] == stmt_start:
                    hits[-1] = (hits[-1][0], hits[-1][1], i)
                stmt_start = i
                toks = []
            continue
        if depth == 0:
            if c == ";":
                stmt_start = i + 1
                toks = []
                i += 1
                continue
            m = re.compile(r"[A-Za-z_][A-Za-z0-9_]*|::|->|\S").match(src, i)
            if m and not c.isspace():
                toks.append((m.group(0), i))
                i = m.end()
                continue
        i += 1
    done = [h for h in hits if len(h) == 3]
    if len(done) != 1:
        raise AnalysisError(f"{path}: expected exactly one definition of {name}(), found {len(done)}")
    a, _, b = done[0]
    text = src[a:b].lstrip()
    a = b - len(src[a:b].lstrip())
    return text, src.count("\n", 0, a) + 1


def parse_c_function(repo, code, name):
    """Type-check `code` (a C function definition) after `#include <mujoco/mujoco.h>` and return clang's raw
    JSON node of function `name` (-ast-dump-filter keeps the dump small)."""
    repo = os.path.abspath(repo)
    std = [f for f in build_flags(repo)["c"] if f.startswith("-std=")]
    flags = std + ["-D_GNU_SOURCE", "-Iinclude"]
    os.makedirs(CACHE, exist_ok=True)
    tag = hashlib.sha256(code.encode()).hexdigest()[:12]
    probe = os.path.join(CACHE, f"probe_fn.{os.getpid()}.{tag}.c")
    out = probe + ".json"
    try:
        with open(probe, "w") as f:
            f.write("#include <mujoco/mujoco.h>\n" + code + "\n")
        with open(out, "wb") as fo:
            p = subprocess.run(["clang", "-fsyntax-only", "-x", "c"] + flags +
                               ["-Xclang", "-ast-dump=json", "-Xclang", f"-ast-dump-filter={name}", probe],
                               cwd=repo, stdout=fo, stderr=subprocess.PIPE)
        if p.returncode != 0:
            raise AnalysisError(f"clang could not type-check the extracted function {name}:\n{p.stderr.decode()[:2000]}")
        with open(out, encoding="utf-8", errors="replace") as f:
            text = f.read()
    finally:
        for q in (probe, out):
            try:
                os.remove(q)
            except OSError:
                pass
    dec = json.JSONDecoder()
    pos = 0
    found = None
    while pos < len(text):
        if text[pos] != "{":
            nl = text.find("\n", pos)
            pos = len(text) if nl < 0 else nl + 1
            continue
        obj, pos = dec.raw_decode(text, pos)
        if obj.get("kind") == "FunctionDecl" and obj.get("name") == name and \
                any(c.get("kind") == "CompoundStmt" for c in obj.get("inner") or ()):
            found = obj
    if found is None:
        raise AnalysisError(f"clang dumped no definition of {name}")
    return found


def switch_table(fn_node):
    """{case enumerator name or 'default': returned enumerator name / integer} for a function whose body is one
    `switch (param) { case A: case B: return X; ... }` (plus optional trailing return = 'default')."""
    def strip(e):
        while e is not None and e.get("kind") in ("ConstantExpr", "ImplicitCastExpr", "ParenExpr", "CStyleCastExpr"):
            e = (e.get("inner") or [None])[0]
        return e

    def value(e):
        e = strip(e)
        if e is None:
            raise AnalysisError("switch table: empty expression")
        if e.get("kind") == "DeclRefExpr":
            return (e.get("referencedDecl") or {}).get("name")
        if e.get("kind") == "IntegerLiteral":
            return int(e["value"])
        raise AnalysisError(f"switch table: unsupported expression {e.get('kind')}")
    body = next((c for c in fn_node.get("inner") or () if c.get("kind") == "CompoundStmt"), None)
    if body is None:
        raise AnalysisError("switch table: function has no body")
    table = {}
    stmts = body.get("inner") or []
    sw = [s for s in stmts if s.get("kind") == "SwitchStmt"]
    if len(sw) != 1:
        raise AnalysisError(f"switch table: expected one switch, found {len(sw)}")
    comp = [c for c in sw[0].get("inner") or () if c.get("kind") == "CompoundStmt"]
    if len(comp) != 1:
        raise AnalysisError("switch table: switch body is not a compound statement")
    pending = []

    def stmt(s):
        k = s.get("kind")
        if k == "CaseStmt":
            inner = s.get("inner") or []
            pending.append(value(inner[0]))
            stmt(inner[-1])
        elif k == "DefaultStmt":
            pending.append("default")
            stmt((s.get("inner") or [None])[-1])
        elif k == "ReturnStmt":
            if not pending:
                raise AnalysisError("switch table: return without a case label")
            v = value((s.get("inner") or [None])[0])
            for lab in pending:
                if lab in table:
                    raise AnalysisError(f"switch table: duplicate case {lab}")
                table[lab] = v
            del pending[:]
        elif k in ("NullStmt",):
            pass
        else:
            raise AnalysisError(f"switch table: unsupported statement {k} inside the switch")
    for s in comp[0].get("inner") or ():
        stmt(s)
    if pending:
        raise AnalysisError(f"switch table: labels {pending} fall off the end of the switch")
    for s in stmts:
        if s.get("kind") == "ReturnStmt" and "default" not in table:
            table["default"] = value((s.get("inner") or [None])[0])
    return table
