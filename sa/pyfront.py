"""Python front end for the doc/generate checkers (C41, C42). `ast` only; nothing from /repo is imported.

Parts: module loading + indexing (parents, owner function), literal evaluation of constants, call
resolution, guard facts ("what is known to hold at this node") with a small propositional/theory
propagation, termination of blocks, the schema model (classes, fields, tables, vocabularies) read
from mjcf_schema.py, class inference for variables, key provenance for table lookups.
"""
from __future__ import annotations

import ast
import os
import re

from . import cfront
from .cfront import AnalysisError

GEN = "doc/generate"
_mods = {}


# ----------------------------------------------------------------------------- loading / indexing
class Func:
    def __init__(self, qual, node, cls, parent, mod):
        self.qual, self.node, self.cls, self.parent, self.mod = qual, node, cls, parent, mod

    @property
    def params(self):
        a = self.node.args
        return [x.arg for x in a.posonlyargs + a.args + a.kwonlyargs]

    def param_ann(self, name):
        a = self.node.args
        for x in a.posonlyargs + a.args + a.kwonlyargs:
            if x.arg == name:
                return x.annotation
        return None

    def __repr__(self):
        return f"<Func {self.mod.name}:{self.qual}>"


class Mod:
    def __init__(self, rel):
        self.rel = rel
        self.name = os.path.splitext(os.path.basename(rel))[0]
        self.path = os.path.join(cfront.REPO, rel)
        try:
            with open(self.path, encoding="utf-8") as f:
                self.src = f.read()
            self.tree = ast.parse(self.src, filename=self.path)
        except (OSError, SyntaxError) as e:
            raise AnalysisError(f"cannot load {rel}: {e}")
        self.funcs = {}
        self.classes = {}
        self.imports = {}
        self.by_fn = {}
        self._consts = None
        self._visit(self.tree, None, None, None, None, None, False)

    def _visit(self, node, parent, field, idx, fn, cls, ann):
        node._parent, node._field, node._idx, node._fn, node._ann, node._mod = parent, field, idx, fn, ann, self
        self.by_fn.setdefault(fn, []).append(node)
        if isinstance(node, ast.Import):
            for a in node.names:
                self.imports[a.asname or a.name.split(".")[0]] = a.name
        elif isinstance(node, ast.ImportFrom):
            for a in node.names:
                self.imports[a.asname or a.name] = f"{node.module}.{a.name}"
        inner_fn, inner_cls = fn, cls
        if isinstance(node, (ast.FunctionDef, ast.AsyncFunctionDef)):
            if fn is not None:
                qual = fn.qual + "." + node.name
            elif cls:
                qual = cls + "." + node.name
            else:
                qual = node.name
            inner_fn = Func(qual, node, cls if fn is None else fn.cls, fn, self)
            self.funcs[qual] = inner_fn
        elif isinstance(node, ast.ClassDef) and fn is None:
            self.classes[node.name] = node
            inner_cls = node.name
        for name, value in ast.iter_fields(node):
            a = ann or name in ("annotation", "returns")
            f = fn
            if isinstance(node, (ast.FunctionDef, ast.AsyncFunctionDef)) and name == "body":
                f = inner_fn
            c = inner_cls if name == "body" else cls
            if isinstance(value, list):
                for i, item in enumerate(value):
                    if isinstance(item, ast.AST):
                        self._visit(item, node, name, i, f, c, a)
            elif isinstance(value, ast.AST):
                self._visit(value, node, name, None, f, c, a)

    def nodes(self, fn):
        """Nodes owned by function fn (None: module/class level), nested defs excluded."""
        return self.by_fn.get(fn, [])

    @property
    def consts(self):
        if self._consts is None:
            self._consts = {}
            for st in self.tree.body:
                self._const_stmt(st, None)
            for cname, c in self.classes.items():
                for st in c.body:
                    self._const_stmt(st, cname)
        return self._consts

    def _const_stmt(self, st, cname):
        if isinstance(st, ast.Assign) and len(st.targets) == 1 and isinstance(st.targets[0], ast.Name):
            try:
                v = lit(st.value, self, cname)
            except NotLit:
                return
            key = st.targets[0].id if cname is None else f"{cname}.{st.targets[0].id}"
            self._consts[key] = v
            self._consts.setdefault("@node:" + key, st)

    def func(self, qual):
        f = self.funcs.get(qual)
        if f is None:
            raise AnalysisError(f"anchor vanished: function {qual} not found in {self.rel}")
        return f


def load(basename):
    rel = f"{GEN}/{basename}" if "/" not in basename else basename
    key = (cfront.REPO, rel)
    if key not in _mods:
        _mods[key] = Mod(rel)
    return _mods[key]


_text_cache = {}


def text(n):
    t = _text_cache.get(id(n))
    if t is None:
        t = ast.unparse(n)
        _text_cache[id(n)] = t
        n._keep = True
    return t


def pos(n):
    return (n.lineno, n.col_offset)


def ancestors(n):
    p = getattr(n, "_parent", None)
    while p is not None:
        yield p
        p = p._parent


def stmt_of(n):
    while n is not None and not isinstance(n, ast.stmt):
        n = n._parent
    return n


def loops_of(n):
    return [a for a in ancestors(n) if isinstance(a, (ast.For, ast.While)) and a._fn is n._fn]


def inside(n, anc):
    return n is anc or any(a is anc for a in ancestors(n))


# ----------------------------------------------------------------------------- literals
class NotLit(Exception):
    pass


def lit(node, mod, cls=None, env=None):
    if isinstance(node, ast.Constant):
        return node.value
    if isinstance(node, ast.Tuple):
        return tuple(lit(e, mod, cls, env) for e in node.elts)
    if isinstance(node, ast.List):
        return [lit(e, mod, cls, env) for e in node.elts]
    if isinstance(node, ast.Set):
        return frozenset(lit(e, mod, cls, env) for e in node.elts)
    if isinstance(node, ast.Dict):
        if any(k is None for k in node.keys):
            raise NotLit
        return {lit(k, mod, cls, env): lit(v, mod, cls, env) for k, v in zip(node.keys, node.values)}
    if isinstance(node, ast.UnaryOp) and isinstance(node.op, ast.USub) and isinstance(node.operand, ast.Constant):
        return -node.operand.value
    if isinstance(node, ast.Name):
        if env and node.id in env:
            return env[node.id]
        if node.id in mod.consts:
            return mod.consts[node.id]
        raise NotLit
    if isinstance(node, ast.Attribute) and isinstance(node.value, ast.Name):
        base = node.value.id
        if base == "self" and cls and f"{cls}.{node.attr}" in mod.consts:
            return mod.consts[f"{cls}.{node.attr}"]
        if base in mod.classes and f"{base}.{node.attr}" in mod.consts:
            return mod.consts[f"{base}.{node.attr}"]
        target = mod.imports.get(base)
        if target and os.path.exists(os.path.join(cfront.REPO, GEN, target + ".py")):
            other = load(target + ".py")
            if node.attr in other.consts:
                return other.consts[node.attr]
        raise NotLit
    if isinstance(node, ast.Call) and isinstance(node.func, ast.Name) and not node.keywords:
        if node.func.id in ("frozenset", "set") and len(node.args) <= 1:
            return frozenset(lit(node.args[0], mod, cls, env)) if node.args else frozenset()
        if node.func.id == "tuple" and len(node.args) == 1:
            return tuple(lit(node.args[0], mod, cls, env))
    raise NotLit


# ----------------------------------------------------------------------------- call resolution
BUILTIN_FUNCS = {
    "isinstance", "len", "bool", "list", "tuple", "set", "frozenset", "str", "dict", "any", "all", "sum", "repr",
    "sorted", "int", "float", "open", "print", "max", "min", "abs", "enumerate", "zip", "range", "next", "iter",
    "super", "type", "getattr", "hasattr", "id", "hash", "reversed", "map", "filter",
}
BUILTIN_METHODS = {
    "get", "values", "items", "keys", "append", "extend", "add", "update", "strip", "join", "match", "group",
    "groups", "end", "start", "startswith", "endswith", "read", "write", "pop", "index", "remove", "setdefault",
    "replace", "split", "ljust", "rjust", "capitalize", "insert", "finditer", "sub", "seek", "rstrip", "lstrip",
    "encode", "discard", "clear", "copy", "format", "lower", "upper", "count", "sort", "search", "fullmatch",
}


def resolve(call, fn, extra_mods=()):
    """-> (kind, payload): 'func' [Func..] | 'class' name | 'builtin' name | 'method' name | 'extern' text | 'unknown' text."""
    mod = call._mod
    f = call.func
    if isinstance(f, ast.Name):
        scope = fn
        while scope is not None:
            q = scope.qual + "." + f.id
            if q in mod.funcs:
                return "func", [mod.funcs[q]]
            scope = scope.parent
        if f.id in mod.funcs:
            return "func", [mod.funcs[f.id]]
        if f.id in mod.classes:
            q = f.id + ".__init__"
            return ("func", [mod.funcs[q]]) if q in mod.funcs else ("class", f.id)
        if f.id in BUILTIN_FUNCS:
            return "builtin", f.id
        return "unknown", f.id
    if isinstance(f, ast.Attribute):
        v = f.value
        if isinstance(v, ast.Name) and v.id == "self" and fn is not None and fn.cls:
            q = f"{fn.cls}.{f.attr}"
            if q in mod.funcs:
                return "func", [mod.funcs[q]]
        if isinstance(v, ast.Call) and isinstance(v.func, ast.Name) and v.func.id == "super":
            return "builtin", "super." + f.attr
        if isinstance(v, ast.Name) and v.id in mod.imports and not _is_local(v, fn):
            target = mod.imports[v.id]
            if os.path.exists(os.path.join(cfront.REPO, GEN, target + ".py")):
                other = load(target + ".py")
                if f.attr in other.funcs:
                    return "func", [other.funcs[f.attr]]
                if f.attr in other.classes:
                    q = f.attr + ".__init__"
                    return ("func", [other.funcs[q]]) if q in other.funcs else ("class", f.attr)
            return "extern", text(f)
        if isinstance(v, ast.Attribute) and isinstance(v.value, ast.Name) and v.value.id in mod.imports:
            return "extern", text(f)
        cands = []
        for m in (mod,) + tuple(extra_mods):
            for q, F in m.funcs.items():
                if F.cls and F.parent is None and F.node.name == f.attr and F not in cands:
                    cands.append(F)
        if f.attr in BUILTIN_METHODS:
            return "method", f.attr
        if cands:
            return "func", cands
        return "unknown", text(f)
    return "unknown", text(f)


def _is_local(name_node, fn):
    if fn is None:
        return False
    return name_node.id in fn.params or any(
        isinstance(n, ast.Name) and n.id == name_node.id and isinstance(n.ctx, ast.Store) for n in fn.mod.nodes(fn))


def calls_in(fn):
    return [n for n in fn.mod.nodes(fn) if isinstance(n, ast.Call)]


def callees(fn, extra_mods=()):
    out = []
    for c in calls_in(fn):
        k, p = resolve(c, fn, extra_mods)
        if k == "func":
            out.extend(p)
    # nested defs are reachable when called; handled through resolve
    return out


def closure(roots, extra_mods=()):
    seen, work = [], list(roots)
    while work:
        f = work.pop()
        if f in seen:
            continue
        seen.append(f)
        work.extend(callees(f, extra_mods))
    return seen


def call_sites(target, funcs, extra_mods=()):
    """All (caller Func, Call) in `funcs` that resolve (possibly among others) to target."""
    out = []
    for f in funcs:
        for c in calls_in(f):
            k, p = resolve(c, f, extra_mods)
            if k == "func" and target in p:
                out.append((f, c))
    return out


def bind_args(call, target):
    """param name -> arg node for a call of `target` (self dropped for methods called through an object)."""
    params = list(target.params)
    if target.cls and target.parent is None and params and params[0] in ("self", "cls"):
        params = params[1:]
    out = {}
    for p, a in zip(params, call.args):
        out[p] = a
    for kw in call.keywords:
        if kw.arg:
            out[kw.arg] = kw.value
    return out


def sccs(funcs, extra_mods=()):
    """Recursive groups (Tarjan) among funcs: list of lists with a cycle."""
    index, low, on, stack, out, counter = {}, {}, set(), [], [], [0]
    edges = {f: [g for g in callees(f, extra_mods) if g in funcs] for f in funcs}

    def strong(v):
        index[v] = low[v] = counter[0]
        counter[0] += 1
        stack.append(v)
        on.add(v)
        for w in edges[v]:
            if w not in index:
                strong(w)
                low[v] = min(low[v], low[w])
            elif w in on:
                low[v] = min(low[v], index[w])
        if low[v] == index[v]:
            comp = []
            while True:
                w = stack.pop()
                on.discard(w)
                comp.append(w)
                if w is v:
                    break
            if len(comp) > 1 or v in edges[v]:
                out.append(comp)

    for f in funcs:
        if f not in index:
            strong(f)
    return out


# ----------------------------------------------------------------------------- termination
def noreturn_funcs(mod):
    """Functions (incl. nested helpers) whose body always raises."""
    out = set()
    for f in mod.funcs.values():
        body = [s for s in f.node.body if not (isinstance(s, ast.Expr) and isinstance(s.value, ast.Constant))]
        if body and _always(body, f, out, raise_only=True):
            out.add(f)
    return out


def _always(stmts, fn, noret, raise_only=False):
    for s in stmts:
        if isinstance(s, ast.Raise):
            return True
        if not raise_only and isinstance(s, (ast.Return, ast.Continue, ast.Break)):
            return True
        if isinstance(s, ast.Expr) and isinstance(s.value, ast.Call):
            k, p = resolve(s.value, fn)
            if k == "func" and p and all(g in noret for g in p):
                return True
            if k == "extern" and p == "sys.exit":
                return True
        if isinstance(s, ast.If) and s.orelse and _always(s.body, fn, noret, raise_only) and \
                _always(s.orelse, fn, noret, raise_only):
            return True
        if isinstance(s, ast.With) and _always(s.body, fn, noret, raise_only):
            return True
    return False


def terminates(stmts, fn):
    """The block never falls through to the statement after it (raise/return/continue/break/noreturn call)."""
    return _always(stmts, fn, _noret(fn.mod))


def _noret(mod):
    if not hasattr(mod, "_noret"):
        mod._noret = noreturn_funcs(mod)
    return mod._noret


def is_raise_site(stmt, fn):
    """A Raise statement, or an expression statement calling a helper that always raises."""
    if isinstance(stmt, ast.Raise):
        return True
    if isinstance(stmt, ast.Expr) and isinstance(stmt.value, ast.Call):
        k, p = resolve(stmt.value, fn)
        return k == "func" and bool(p) and all(g in _noret(fn.mod) for g in p)
    return False


# ----------------------------------------------------------------------------- formulas and facts
# formula: ('lit', key, pol) | ('and', [f]) | ('or', [f])
# key: ('eq', l, r) ('in', l, r) ('isnone', x) ('isinst', x, (classes)) ('truthy', x) ('cmp', op, l, r)
class Forms:
    """Builds formulas from test expressions; remembers the node of every operand text."""

    def __init__(self):
        self.nodes = {}

    def t(self, n):
        s = text(n)
        self.nodes.setdefault(s, n)
        return s

    def mk(self, n):
        if isinstance(n, ast.BoolOp):
            return ("and" if isinstance(n.op, ast.And) else "or", [self.mk(v) for v in n.values])
        if isinstance(n, ast.UnaryOp) and isinstance(n.op, ast.Not):
            return neg(self.mk(n.operand))
        if isinstance(n, ast.Compare):
            parts, left = [], n.left
            for op, right in zip(n.ops, n.comparators):
                parts.append(self._cmp(left, op, right))
                left = right
            return parts[0] if len(parts) == 1 else ("and", parts)
        if isinstance(n, ast.Call) and isinstance(n.func, ast.Name) and not n.keywords:
            if n.func.id == "isinstance" and len(n.args) == 2:
                c = n.args[1]
                elts = c.elts if isinstance(c, ast.Tuple) else [c]
                names = tuple(sorted(e.attr if isinstance(e, ast.Attribute) else text(e) for e in elts))
                return ("lit", ("isinst", self.t(n.args[0]), names), True)
            if n.func.id == "bool" and len(n.args) == 1:
                return self.mk(n.args[0])
        if isinstance(n, ast.Constant):
            return ("and", []) if n.value else ("or", [])
        return ("lit", ("truthy", self.t(n)), True)

    def _cmp(self, l, op, r):
        if isinstance(op, (ast.Eq, ast.NotEq)):
            if isinstance(l, ast.Constant) and not isinstance(r, ast.Constant):
                l, r = r, l
            return ("lit", ("eq", self.t(l), self.t(r)), isinstance(op, ast.Eq))
        if isinstance(op, (ast.In, ast.NotIn)):
            return ("lit", ("in", self.t(l), self.t(r)), isinstance(op, ast.In))
        if isinstance(op, (ast.Is, ast.IsNot)):
            if isinstance(r, ast.Constant) and r.value is None:
                return ("lit", ("isnone", self.t(l)), isinstance(op, ast.Is))
            return ("lit", ("is", self.t(l), self.t(r)), isinstance(op, ast.Is))
        return ("lit", ("cmp", type(op).__name__, self.t(l), self.t(r)), True)


def neg(f):
    if f[0] == "lit":
        return ("lit", f[1], not f[2])
    return ("or" if f[0] == "and" else "and", [neg(x) for x in f[1]])


class _Tagged(list):
    """append((formula, origin)) records the current tag as a third component."""
    tag = "enclosing"

    def append(self, item):
        list.append(self, (item[0], item[1], self.tag))


def raw_facts(node, fn, forms):
    """[(formula, origin test node, tag)] known to hold whenever `node` is evaluated (before invalidation).
    tag: 'enclosing' (a test the node is nested in), 'pred-raise' (an earlier `if c: raise`), 'pred' (an earlier
    `if c: return/continue/break`, or assert)."""
    out = _Tagged()
    child = node
    p = child._parent
    while p is not None and child is not fn.node:
        fld, idx = child._field, child._idx
        if isinstance(p, ast.If):
            if fld == "body":
                out.append((forms.mk(p.test), p.test))
            elif fld == "orelse":
                out.append((neg(forms.mk(p.test)), p.test))
        elif isinstance(p, ast.While) and fld == "body":
            out.append((forms.mk(p.test), p.test))
        elif isinstance(p, ast.IfExp):
            if fld == "body":
                out.append((forms.mk(p.test), p.test))
            elif fld == "orelse":
                out.append((neg(forms.mk(p.test)), p.test))
        elif isinstance(p, ast.BoolOp) and fld == "values":
            for v in p.values[:idx]:
                out.append((forms.mk(v) if isinstance(p.op, ast.And) else neg(forms.mk(v)), v))
        elif isinstance(p, (ast.ListComp, ast.SetComp, ast.GeneratorExp, ast.DictComp)) and fld in ("elt", "key", "value"):
            for g in p.generators:
                for c in g.ifs:
                    out.append((forms.mk(c), c))
        elif isinstance(p, ast.comprehension):
            comp = p._parent
            for g in comp.generators[:p._idx]:
                for c in g.ifs:
                    out.append((forms.mk(c), c))
            if fld == "ifs":
                for c in p.ifs[:idx]:
                    out.append((forms.mk(c), c))
        if isinstance(child, ast.stmt) and idx is not None:
            for s in getattr(p, fld)[:idx]:
                if isinstance(s, ast.If):
                    tb = terminates(s.body, fn)
                    te = terminates(s.orelse, fn) if s.orelse else False
                    nr = _noret(fn.mod)
                    if tb and not te:
                        out.tag = "pred-raise" if _always(s.body, fn, nr, raise_only=True) else "pred"
                        out.append((neg(forms.mk(s.test)), s.test))
                    elif te and not tb:
                        out.tag = "pred-raise" if _always(s.orelse, fn, nr, raise_only=True) else "pred"
                        out.append((forms.mk(s.test), s.test))
                elif isinstance(s, ast.Assert):
                    out.tag = "pred-raise"
                    out.append((forms.mk(s.test), s.test))
                elif isinstance(s, ast.For) and isinstance(s.target, ast.Name) and not s.orelse and \
                        isinstance(s.iter, (ast.Tuple, ast.List)) and \
                        all(isinstance(e, ast.Constant) for e in s.iter.elts):
                    # a checking loop over literal constants: unroll `if c(v): raise` for every v
                    for b in s.body:
                        if not (isinstance(b, ast.If) and not b.orelse and
                                _always(b.body, fn, _noret(fn.mod), raise_only=True)):
                            break
                        out.tag = "pred-raise"
                        for e in s.iter.elts:
                            out.append((_subst(neg(forms.mk(b.test)), s.target.id, repr(e.value), forms), b.test))
            out.tag = "enclosing"
        child, p = p, p._parent
    return out


def _subst(f, name, repl, forms):
    """Formula with every free occurrence of variable `name` in operand texts replaced by `repl`."""
    pat = re.compile(r"(?<![\w.'\"])" + re.escape(name) + r"(?![\w'\"])")

    def tx(t):
        if not isinstance(t, str):
            return t
        n = pat.sub(repl, t)
        if n != t and n not in forms.nodes:
            try:
                forms.nodes[n] = ast.parse(n, mode="eval").body
            except SyntaxError:
                pass
        return n

    if f[0] == "lit":
        return ("lit", tuple(tx(x) if i else x for i, x in enumerate(f[1])), f[2])
    return (f[0], [_subst(x, name, repl, forms) for x in f[1]])


def stores_of(fn):
    m = getattr(fn, "_stores", None)
    if m is None:
        m = {}
        for n in fn.mod.nodes(fn):
            if isinstance(n, ast.Name) and isinstance(n.ctx, (ast.Store, ast.Del)):
                m.setdefault(n.id, []).append(n)
        fn._stores = m
    return m


def _comp_bound(n):
    """Names bound by comprehensions enclosing-or-inside node n (their own scope)."""
    out = set()
    for a in [n] + list(ancestors(n)):
        if isinstance(a, (ast.ListComp, ast.SetComp, ast.GeneratorExp, ast.DictComp)):
            for g in a.generators:
                out |= {x.id for x in ast.walk(g.target) if isinstance(x, ast.Name)}
    return out


def still_valid(origin, use, fn):
    """No store to a name read by the guard `origin` can reach `use` without passing the guard again."""
    names = {x.id for x in ast.walk(origin) if isinstance(x, ast.Name)}
    for a in ast.walk(origin):
        if isinstance(a, (ast.ListComp, ast.SetComp, ast.GeneratorExp, ast.DictComp)):
            for g in a.generators:
                names -= {x.id for x in ast.walk(g.target) if isinstance(x, ast.Name)}
    st = stores_of(fn)
    lu, lg = loops_of(use), loops_of(origin)
    for nm in names:
        for s in st.get(nm, ()):
            if isinstance(s._parent, ast.comprehension) or any(isinstance(a, ast.comprehension) for a in ancestors(s)):
                continue
            ls = loops_of(s)
            if any(L in lu and not any(L is g for g in lg) for L in ls):
                return False
            if pos(origin) < pos(s) < pos(use):
                return False
    return True


class Know:
    """Literal truths at a program point, closed under unit propagation and a small theory of
    equality / membership in constant sets / None-ness."""

    def __init__(self, mod, fn, env=None):
        self.mod, self.fn, self.env = mod, fn, dict(env or {})
        self.forms = Forms()
        self.K = {}
        self.fs = []
        self.bad = False
        self.origins = []

    # -- constants
    def const(self, txt):
        if txt in self.env:
            return True, self.env[txt]
        n = self.forms.nodes.get(txt)
        if n is None:
            return False, None
        if isinstance(n, ast.Name) and self.fn is not None and (n.id in self.fn.params or n.id in stores_of(self.fn)):
            return False, None
        try:
            return True, lit(n, self.mod, self.fn.cls if self.fn else None)
        except (NotLit, TypeError):
            return False, None

    def cset(self, txt):
        ok, v = self.const(txt)
        if ok and isinstance(v, (tuple, list, frozenset, set, dict)):
            try:
                return frozenset(v)
            except TypeError:
                return None
        return None

    # -- building
    def add(self, f):
        if f[0] == "and":
            for x in f[1]:
                self.add(x)
        elif f[0] == "lit":
            self.assign(f[1], f[2])
        else:
            self.fs.append(f)

    def assign(self, key, val):
        cur = self.val(key)
        if cur is not None and cur != val:
            self.bad = True
        self.K[key] = val

    def assume_eq(self, subject, value):
        t = repr(value)
        self.forms.nodes.setdefault(t, ast.Constant(value))
        self.assign(("eq", subject, t), True)

    def propagate(self):
        changed = True
        while changed and not self.bad:
            changed = False
            for f in list(self.fs):
                r = self.simp(f)
                if r is True:
                    self.fs.remove(f)
                elif r is False:
                    self.bad = True
                elif r[0] == "lit":
                    self.fs.remove(f)
                    self.assign(r[1], r[2])
                    changed = True
                elif r[0] == "and":
                    self.fs.remove(f)
                    self.add(r)
                    changed = True
        return self

    # -- evaluation
    def simp(self, f):
        if f[0] == "lit":
            v = self.val(f[1])
            if v is None:
                return f
            return v == f[2]
        parts = []
        for x in f[1]:
            r = self.simp(x)
            if f[0] == "and":
                if r is False:
                    return False
                if r is True:
                    continue
            else:
                if r is True:
                    return True
                if r is False:
                    continue
            parts.append(r)
        if not parts:
            return f[0] == "and"
        if len(parts) == 1:
            return parts[0]
        return (f[0], parts)

    def holds(self, f):
        r = self.simp(f)
        return r if r in (True, False) else None

    def val(self, key):
        if key in self.K:
            return self.K[key]
        kind = key[0]
        if kind == "in":
            a, S = key[1], self.cset(key[2])
            oka, va = self.const(a)
            if S is not None and oka:
                try:
                    return va in S
                except TypeError:
                    return None
            if S is None:
                return None
            excluded = set()
            for k, v in self.K.items():
                if k[0] == "eq" and k[1] == a:
                    ok, c = self.const(k[2])
                    if ok and v:
                        return _hashable(c) and c in S
                    if ok and not v and _hashable(c):
                        excluded.add(c)
                elif k[0] == "in" and k[1] == a:
                    S2 = self.cset(k[2])
                    if S2 is not None and v:
                        if S2 <= S:
                            return True
                        if not (S2 & S):
                            return False
                    elif S2 is not None:
                        excluded |= S2
            if S and S <= excluded:
                return False
            return None
        if kind == "eq":
            a = key[1]
            ok, cv = self.const(key[2])
            oka, va = self.const(a)
            if ok and oka:
                return va == cv
            if not ok or not _hashable(cv):
                return None
            for k, v in self.K.items():
                if k[0] == "eq" and k[1] == a and v:
                    ok2, c2 = self.const(k[2])
                    if ok2:
                        return c2 == cv
                elif k[0] == "in" and k[1] == a:
                    S = self.cset(k[2])
                    if S is not None and ((v and cv not in S) or (not v and cv in S)):
                        return False
            return None
        if kind == "isnone":
            a = key[1]
            if self.K.get(("truthy", a)) is True:
                return False
            for k, v in self.K.items():
                if k[0] == "isinst" and k[1] == a and v:
                    return False
                if k[0] == "eq" and k[1] == a and v:
                    ok, c = self.const(k[2])
                    if ok:
                        return c is None
            return None
        if kind == "truthy":
            if self.K.get(("isnone", key[1])) is True:
                return False
            return None
        if kind == "isinst":
            for k, v in self.K.items():
                if k[0] == "isinst" and k[1] == key[1] and v and set(k[2]) <= set(key[2]):
                    return True
            if self.K.get(("isnone", key[1])) is True:
                return False
            return None
        return None

    def values(self, subject, vocab):
        """Subset of vocab that `subject` may equal without contradicting what is known."""
        out = set()
        for v in vocab:
            k = Know(self.mod, self.fn, self.env)
            k.forms = self.forms
            k.K = dict(self.K)
            k.fs = list(self.fs)
            k.assume_eq(subject, v)
            k.propagate()
            if not k.bad:
                out.add(v)
        return out


def _hashable(v):
    try:
        hash(v)
        return True
    except TypeError:
        return False


def know_at(node, fn, env=None, skip=()):
    k = Know(fn.mod, fn, env)
    for f, origin, tag in raw_facts(node, fn, k.forms):
        if tag in skip:
            continue
        if still_valid(origin, node, fn):
            k.add(f)
            k.origins.append(origin)
    return k.propagate()


# ----------------------------------------------------------------------------- schema model
def _ann_names(a):
    """Class / type names mentioned by an annotation, with None for NoneType; container element types."""
    if a is None:
        return set()
    if isinstance(a, ast.Constant):
        return {None} if a.value is None else ({a.value} if isinstance(a.value, str) else set())
    if isinstance(a, ast.Name):
        return {a.id}
    if isinstance(a, ast.Attribute):
        return {a.attr}
    if isinstance(a, ast.Subscript):
        head = _ann_names(a.value)
        inner = a.slice.elts if isinstance(a.slice, ast.Tuple) else [a.slice]
        if head & {"Optional"}:
            return _ann_names(inner[0]) | {None}
        if head & {"Union"}:
            out = set()
            for e in inner:
                out |= _ann_names(e)
            return out
        return head
    if isinstance(a, ast.BinOp) and isinstance(a.op, ast.BitOr):
        return _ann_names(a.left) | _ann_names(a.right)
    return set()


def _ann_elem(a):
    """Element annotation of list[X] / dict[K, X] (value type)."""
    if isinstance(a, ast.Subscript) and _ann_names(a.value) & {"list", "List", "dict", "Dict", "set", "tuple"}:
        inner = a.slice.elts if isinstance(a.slice, ast.Tuple) else [a.slice]
        head = _ann_names(a.value)
        if head & {"dict", "Dict"}:
            return inner[-1]
        return inner[0]
    return None


class SchemaModel:
    """What mjcf_schema.py itself declares: classes and their fields/methods, the three tables of
    Schema and their value classes, the vocabularies (attribute types, cardinalities, constraint verbs)."""

    def __init__(self):
        self.mod = m = load("mjcf_schema.py")
        self.fields = {}      # class -> {field: annotation node}
        self.methods = {}     # class -> {name: Func}
        for cname, c in m.classes.items():
            fl = {}
            for st in c.body:
                if isinstance(st, ast.AnnAssign) and isinstance(st.target, ast.Name):
                    fl[st.target.id] = st.annotation
            self.fields[cname] = fl
            self.methods[cname] = {q.split(".", 1)[1]: f for q, f in m.funcs.items()
                                   if f.cls == cname and f.parent is None}
        if "Schema" not in self.fields:
            raise AnalysisError("anchor vanished: class Schema")
        self.tables = {}
        for fld, ann in self.fields["Schema"].items():
            el = _ann_elem(ann)
            if el is not None and _ann_names(ann.value) & {"dict", "Dict"}:
                names = _ann_names(el) & set(m.classes)
                if len(names) == 1:
                    self.tables[fld] = next(iter(names))
        for t in ("enums", "groups", "elements"):
            if t not in self.tables:
                raise AnalysisError(f"anchor vanished: Schema.{t} table")
        self.member_union = set()
        for cname in ("Group", "Element"):
            ann = self.fields.get(cname, {}).get("members")
            if ann is None:
                raise AnalysisError(f"anchor vanished: {cname}.members")
            self.member_union |= _ann_names(_ann_elem(ann)) & set(m.classes)
        self._vocab()

    def _vocab(self):
        m = self.mod
        c = m.consts
        for k in ("SCALAR_TYPES", "CARDINALITIES", "_Parser.CONSTRAINT_VERBS"):
            if k not in c:
                raise AnalysisError(f"anchor vanished: constant {k}")
        self.cards = frozenset(c["CARDINALITIES"])
        self.verbs = frozenset(c["_Parser.CONSTRAINT_VERBS"])
        # attribute types: what parse_type can return as first tuple component
        f = m.func("_Parser.parse_type")
        types = set()
        for r in [n for n in m.nodes(f) if isinstance(n, ast.Return)]:
            if not (isinstance(r.value, ast.Tuple) and r.value.elts):
                raise AnalysisError("parse_type: return is not a tuple literal")
            subj = text(r.value.elts[0])
            k = know_at(r, f)
            sets = [k.cset(key[2]) for key, v in k.K.items() if key[0] == "in" and key[1] == subj and v]
            sets = [s for s in sets if s is not None]
            if not sets:
                raise AnalysisError("parse_type: type keyword of a return is not constrained to a constant set")
            s = sets[0]
            for x in sets[1:]:
                s &= x
            types |= s
        self.types = frozenset(types)
        if not frozenset(c["SCALAR_TYPES"]) <= self.types:
            raise AnalysisError("parse_type: scalar types not among the returned type keywords")

    def has_field(self, cls, name):
        return name in self.fields.get(cls, {}) or name in self.methods.get(cls, {})

    def optional_field(self, name):
        """Field `name` is declared Optional/Union-with-None in some class."""
        return any(None in _ann_names(fl[name]) for fl in self.fields.values() if name in fl)

    def field_types(self, name):
        out = set()
        for fl in self.fields.values():
            if name in fl:
                out |= _ann_names(fl[name])
        return out

    def vocab_of_field(self, cls_or_none, field):
        if field == "type":
            return self.types
        if field == "card":
            return self.cards
        if field == "kind" and cls_or_none in (None, "Constraint"):
            return self.verbs
        return None

    def method_elem(self, name):
        """Element classes of the list returned by the uniquely named method `name`."""
        out = set()
        for cname, ms in self.methods.items():
            if name in ms:
                el = _ann_elem(ms[name].node.returns)
                if el is not None:
                    out |= _ann_names(el) & set(self.mod.classes)
        return out


_model = {}


def model():
    if cfront.REPO not in _model:
        _model[cfront.REPO] = SchemaModel()
    return _model[cfront.REPO]


def table_of(node):
    """'enums' | 'groups' | 'elements' when node is an access `<schema>.T` / `self.T` (in class Schema)."""
    if isinstance(node, ast.Attribute) and node.attr in model().tables:
        return node.attr
    return None


# ----------------------------------------------------------------------------- class inference
def classes_of(expr, fn, at=None, depth=0):
    """Set of schema class names the value of `expr` may have (empty: unknown)."""
    sm = model()
    if depth > 8:
        return set()
    if isinstance(expr, ast.Name):
        if at is not None:
            k = know_at(at, fn)
            for key, v in k.K.items():
                if key[0] == "isinst" and key[1] == expr.id and v and set(key[2]) <= set(sm.mod.classes):
                    return set(key[2])
        return declared_classes(expr.id, fn, expr, depth)
    if isinstance(expr, ast.Subscript) and table_of(expr.value):
        return {sm.tables[table_of(expr.value)]}
    if isinstance(expr, ast.Call) and isinstance(expr.func, ast.Attribute):
        if expr.func.attr == "get" and table_of(expr.func.value):
            return {sm.tables[table_of(expr.func.value)]}
    if isinstance(expr, ast.Call):
        kind, p = resolve(expr, fn, (sm.mod,))
        if kind == "class" and p in sm.mod.classes:
            return {p}
        if kind == "func" and p:
            out = set()
            for g in p:
                if g.node.name == "__init__" and g.cls in sm.mod.classes:
                    out.add(g.cls)
                    continue
                names = _ann_names(g.node.returns)
                if None in names or not names or not names <= set(sm.mod.classes):
                    return set()
                out |= names
            return out
    if isinstance(expr, ast.Attribute):
        base = classes_of(expr.value, fn, at, depth + 1)
        out = set()
        for b in base:
            ann = sm.fields.get(b, {}).get(expr.attr)
            out |= _ann_names(ann) & set(sm.mod.classes)
        return out
    return set()


def declared_classes(name, fn, use, depth=0):
    """Classes of a variable from its binding(s): annotation, loop/comprehension source, assignment."""
    sm = model()
    scope = fn
    while scope is not None:
        if name in scope.params and name not in stores_of(scope):
            ann = _ann_names(scope.param_ann(name)) & set(sm.mod.classes)
            if ann or depth > 6:
                return ann
            out = set()
            for caller, call in _sites(scope):
                a = bind_args(call, scope).get(name)
                if a is None:
                    return set()
                c = classes_of(a, caller, a, depth + 2)
                if not c:
                    return set()
                out |= c
            return out
        if name in stores_of(scope) or name in scope.params:
            break
        scope = scope.parent
    if scope is None:
        return set()
    out = set()
    # comprehension binding enclosing the use wins
    for a in [use] + list(ancestors(use)):
        if isinstance(a, (ast.ListComp, ast.SetComp, ast.GeneratorExp, ast.DictComp)):
            for g in a.generators:
                if any(isinstance(x, ast.Name) and x.id == name for x in ast.walk(g.target)):
                    if isinstance(g.target, ast.Name):
                        return elem_classes(g.iter, scope, depth + 1)
                    return set()
    for a in ancestors(use):          # innermost enclosing for-loop binding the name is the reaching one
        if isinstance(a, ast.For) and isinstance(a.target, ast.Name) and a.target.id == name and \
                not inside(use, a.iter) and a._fn is scope:
            return elem_classes(a.iter, scope, depth + 1)
    for s in stores_of(scope)[name]:
        p = s._parent
        if any(isinstance(a, ast.comprehension) for a in ancestors(s)):
            continue
        if isinstance(p, ast.For) and s._field == "target":
            out |= elem_classes(p.iter, scope, depth + 1)
        elif isinstance(p, ast.Assign) and s._field == "targets":
            out |= classes_of(p.value, scope, None, depth + 1)
        else:
            return set()
    return out


def elem_classes(it, fn, depth=0):
    sm = model()
    if depth > 8:
        return set()
    if isinstance(it, ast.Call):
        f = it.func
        if isinstance(f, ast.Attribute):
            if f.attr == "values" and table_of(f.value):
                return {sm.tables[table_of(f.value)]}
            if f.attr not in BUILTIN_METHODS:
                return sm.method_elem(f.attr)
        if isinstance(f, ast.Name) and f.id in ("list", "sorted", "tuple", "reversed") and it.args:
            return elem_classes(it.args[0], fn, depth + 1)
        return set()
    if isinstance(it, ast.Attribute):
        if it.attr == "members":
            base = classes_of(it.value, fn, None, depth + 1)
            out = set()
            for b in base or {"Group", "Element"}:
                ann = sm.fields.get(b, {}).get("members")
                out |= _ann_names(_ann_elem(ann)) & set(sm.mod.classes) if ann is not None else set()
            return out
        return set()
    if isinstance(it, ast.BinOp) and isinstance(it.op, ast.Add):
        return elem_classes(it.left, fn, depth + 1) | elem_classes(it.right, fn, depth + 1)
    if isinstance(it, (ast.ListComp, ast.GeneratorExp)):
        g = it.generators[0]
        if len(it.generators) == 1 and isinstance(it.elt, ast.Name) and isinstance(g.target, ast.Name) \
                and it.elt.id == g.target.id:
            base = elem_classes(g.iter, fn, depth + 1)
            forms = Forms()
            for c in g.ifs:
                f = forms.mk(c)
                for x in (f[1] if f[0] == "and" else [f]):
                    if x[0] == "lit" and x[2] and x[1][0] == "isinst" and x[1][1] == it.elt.id:
                        base = set(x[1][2]) & set(sm.mod.classes)
            return base
        return set()
    if isinstance(it, ast.Name):
        out = set()
        scope = fn
        while scope is not None and it.id not in stores_of(scope) and it.id not in scope.params:
            scope = scope.parent
        if scope is None or it.id in scope.params:
            return set()
        for s in stores_of(scope)[it.id]:
            p = s._parent
            if isinstance(p, ast.Assign) and s._field == "targets":
                out |= elem_classes(p.value, scope, depth + 1)
            elif isinstance(p, ast.AugAssign):
                out |= elem_classes(p.value, scope, depth + 1)
        return out
    return set()


# ----------------------------------------------------------------------------- key provenance
GENERATORS = ("generate_xsd.py", "generate_mjcf_table.py", "generate_read_table.py", "generate_default_table.py",
              "generate_mjcf_map.py", "generate_dmcontrol.py", "generate_schema.py")


def universe():
    key = ("universe", cfront.REPO)
    if key not in _mods:
        fs = []
        for b in ("mjcf_schema.py",) + GENERATORS:
            fs.extend(load(b).funcs.values())
        _mods[key] = fs
    return _mods[key]


def _sites(target):
    cache = _mods.setdefault(("sites", cfront.REPO), {})
    if target not in cache:
        cache[target] = call_sites(target, universe(), (model().mod,))
    return cache[target]


def name_key_tables():
    """Tables T for which the parser stores every declaration under its own name: `schema.T[v.name] = v`."""
    key = ("namekeys", cfront.REPO)
    if key not in _mods:
        sm = model()
        out = set()
        for f in sm.mod.funcs.values():
            for n in sm.mod.nodes(f):
                if isinstance(n, ast.Assign) and len(n.targets) == 1 and isinstance(n.targets[0], ast.Subscript):
                    t = n.targets[0]
                    T = table_of(t.value)
                    if T and isinstance(t.slice, ast.Attribute) and t.slice.attr == "name" and \
                            text(t.slice.value) == text(n.value):
                        out.add(T)
        stores = set()
        for f in sm.mod.funcs.values():
            for n in sm.mod.nodes(f):
                if isinstance(n, ast.Subscript) and isinstance(n.ctx, ast.Store) and table_of(n.value):
                    stores.add(table_of(n.value))
        _mods[key] = out, stores
    return _mods[key][0]


def origins(expr, fn, at=None, seen=None, depth=0):
    sm = model()
    seen = seen if seen is not None else set()
    at = at if at is not None else expr
    if depth > 12 or (id(expr), None) in seen:
        return set()
    seen.add((id(expr), None))
    if isinstance(expr, ast.Constant):
        return {("literal", expr.value)}
    if isinstance(expr, ast.Attribute):
        cls = classes_of(expr.value, fn, at)
        if cls:
            out = set()
            for c in cls:
                T = [t for t, vc in sm.tables.items() if vc == c]
                if expr.attr == "name" and T and T[0] in name_key_tables():
                    out.add(("key", T[0]))
                else:
                    out.add(("field", c, expr.attr))
            return out
        return {("unknown", text(expr))}
    if isinstance(expr, ast.Name):
        return _name_origins(expr.id, fn, expr, None, seen, depth)
    if isinstance(expr, ast.Call) and isinstance(expr.func, ast.Attribute) and expr.func.attr == "pop":
        return elem_origins(expr.func.value, fn, None, seen, depth + 1)
    return {("unknown", text(expr))}


def _scope_of(name, fn):
    scope = fn
    while scope is not None:
        if name in scope.params or name in stores_of(scope):
            return scope
        scope = scope.parent
    return None


def _name_origins(name, fn, use, idx, seen, depth):
    """Origins of the value of variable `name` at `use` (component idx if it holds a tuple)."""
    # comprehension binding
    for a in [use] + list(ancestors(use)):
        if isinstance(a, (ast.ListComp, ast.SetComp, ast.GeneratorExp, ast.DictComp)):
            for g in a.generators:
                tpos = _target_pos(g.target, name)
                if tpos is not False:
                    return elem_origins(g.iter, fn, tpos if idx is None else idx, seen, depth + 1)
    scope = _scope_of(name, fn)
    if scope is None:
        m = fn.mod
        if name in m.consts:
            return {("literal", m.consts[name])} if idx is None else {("unknown", name)}
        return {("unknown", name)}
    if name in scope.params and name not in stores_of(scope):
        sites = _sites(scope)
        if not sites:
            return {("unknown", f"parameter {name} of uncalled {scope.qual}")}
        out = set()
        for caller, call in sites:
            a = bind_args(call, scope).get(name)
            if a is None:
                out.add(("unknown", f"parameter {name} not passed"))
            elif idx is None:
                out |= origins(a, caller, a, seen, depth + 1)
            else:
                out |= _pick(a, caller, idx, seen, depth + 1)
        return out
    for a in ancestors(use):
        if isinstance(a, ast.For) and a._fn is scope and not inside(use, a.iter):
            tpos = _target_pos(a.target, name)
            if tpos is not False:
                return elem_origins(a.iter, scope, tpos if idx is None else idx, seen, depth + 1)
    out = set()
    for s in stores_of(scope)[name]:
        if any(isinstance(a, ast.comprehension) for a in ancestors(s)):
            continue
        top = s
        while not isinstance(top._parent, ast.stmt):
            top = top._parent
        st = top._parent
        if isinstance(st, ast.For) and top._field == "target":
            tpos = _target_pos(st.target, name)
            out |= elem_origins(st.iter, scope, tpos if idx is None else idx, seen, depth + 1)
        elif isinstance(st, ast.Assign):
            tgt = st.targets[0]
            if isinstance(tgt, ast.Name):
                out |= origins(st.value, scope, st.value, seen, depth + 1) if idx is None else \
                    _pick(st.value, scope, idx, seen, depth + 1)
            elif isinstance(tgt, (ast.Tuple, ast.List)):
                tpos = _target_pos(tgt, name)
                if isinstance(st.value, ast.Tuple) and isinstance(tpos, int) and len(st.value.elts) == len(tgt.elts):
                    out |= origins(st.value.elts[tpos], scope, st.value, seen, depth + 1)
                elif isinstance(st.value, ast.Call) and isinstance(st.value.func, ast.Attribute) and \
                        st.value.func.attr == "pop" and isinstance(tpos, int):
                    out |= elem_origins(st.value.func.value, scope, tpos, seen, depth + 1)
                else:
                    out.add(("unknown", text(st.value)))
            else:
                out.add(("unknown", text(st)))
        else:
            out.add(("unknown", text(st) if st is not None else name))
    return out


def _target_pos(target, name):
    """None: target is exactly the name; int: position in a flat tuple target; False: not bound here."""
    if isinstance(target, ast.Name):
        return None if target.id == name else False
    if isinstance(target, (ast.Tuple, ast.List)):
        for i, e in enumerate(target.elts):
            if isinstance(e, ast.Name) and e.id == name:
                return i
    return False


def _pick(expr, fn, idx, seen, depth):
    if isinstance(expr, ast.Tuple) and idx < len(expr.elts):
        return origins(expr.elts[idx], fn, expr, seen, depth + 1)
    if isinstance(expr, ast.Name):
        return _name_origins(expr.id, fn, expr, idx, seen, depth + 1)
    if isinstance(expr, ast.Call) and isinstance(expr.func, ast.Attribute) and expr.func.attr == "pop":
        return elem_origins(expr.func.value, fn, idx, seen, depth + 1)
    return {("unknown", text(expr))}


def elem_origins(it, fn, idx=None, seen=None, depth=0):
    """Origins of the elements (component idx of tuple elements) produced by iterating / popping `it`."""
    sm = model()
    seen = seen if seen is not None else set()
    if depth > 12 or (id(it), idx) in seen:
        return set()
    seen.add((id(it), idx))

    def one(x, f):
        if idx is None:
            return origins(x, f, x, seen, depth + 1)
        return _pick(x, f, idx, seen, depth + 1)

    if isinstance(it, (ast.List, ast.Tuple, ast.Set)):
        out = set()
        for e in it.elts:
            out |= one(e, fn)
        return out
    if isinstance(it, (ast.ListComp, ast.GeneratorExp, ast.SetComp)):
        return one(it.elt, fn)
    if isinstance(it, ast.BinOp) and isinstance(it.op, (ast.Add, ast.BitOr)):
        return elem_origins(it.left, fn, idx, seen, depth + 1) | elem_origins(it.right, fn, idx, seen, depth + 1)
    if isinstance(it, ast.Attribute) and table_of(it):
        return {("key", table_of(it))} if idx is None else {("unknown", text(it))}
    if isinstance(it, ast.Call):
        f = it.func
        if isinstance(f, ast.Attribute) and f.attr in ("items", "keys", "values"):
            T = table_of(f.value)
            if T:
                if (f.attr == "keys" and idx is None) or (f.attr == "items" and idx == 0):
                    return {("key", T)}
                return {("inst", sm.tables[T])}
            try:
                d = lit(f.value, fn.mod, fn.cls)
            except NotLit:
                d = None
            if isinstance(d, dict) and ((f.attr == "keys" and idx is None) or (f.attr == "items" and idx == 0)):
                return {("literal", k) for k in d}
            return {("unknown", text(it))}
        if isinstance(f, ast.Name) and f.id in ("list", "sorted", "tuple", "reversed", "set", "frozenset") and it.args:
            return elem_origins(it.args[0], fn, idx, seen, depth + 1)
        k, p = resolve(it, fn, (sm.mod,))
        if k == "func":
            out = set()
            for g in p:
                el = _ann_elem(g.node.returns)
                if el is not None and _ann_names(el) & set(sm.mod.classes):
                    out |= {("inst", c) for c in _ann_names(el) & set(sm.mod.classes)}
                    continue
                rets = [n for n in g.mod.nodes(g) if isinstance(n, ast.Return) and n.value is not None]
                if not rets:
                    out.add(("unknown", text(it)))
                for r in rets:
                    out |= elem_origins(r.value, g, idx, seen, depth + 1)
            return out
        return {("unknown", text(it))}
    if isinstance(it, ast.Name):
        scope = _scope_of(it.id, fn)
        if scope is None:
            try:
                v = lit(it, fn.mod, fn.cls)
            except NotLit:
                return {("unknown", it.id)}
            vals = list(v)
            if idx is not None:
                vals = [x[idx] for x in vals if isinstance(x, tuple) and idx < len(x)]
            return {("literal", x) for x in vals}
        if it.id in scope.params and it.id not in stores_of(scope):
            out = set()
            for caller, call in _sites(scope):
                a = bind_args(call, scope).get(it.id)
                out |= elem_origins(a, caller, idx, seen, depth + 1) if a is not None else {("unknown", it.id)}
            return out or {("unknown", it.id)}
        out = set()
        for s in stores_of(scope)[it.id]:
            st = s._parent
            if isinstance(st, ast.Assign) and s._field == "targets":
                out |= elem_origins(st.value, scope, idx, seen, depth + 1)
            elif isinstance(st, ast.AugAssign):
                out |= elem_origins(st.value, scope, idx, seen, depth + 1)
            elif not any(isinstance(a, ast.comprehension) for a in ancestors(s)):
                out.add(("unknown", text(st)))
        for n in scope.mod.nodes(scope):
            out |= _grow(n, lambda v: isinstance(v, ast.Name) and v.id == it.id, scope, one, idx, seen, depth)
        return out
    if isinstance(it, ast.Attribute) and isinstance(it.value, ast.Name) and it.value.id == "self" and fn.cls:
        out = set()
        match = lambda v: isinstance(v, ast.Attribute) and isinstance(v.value, ast.Name) and \
            v.value.id == "self" and v.attr == it.attr
        for g in fn.mod.funcs.values():
            if g.cls != fn.cls:
                continue
            for n in g.mod.nodes(g):
                if isinstance(n, ast.Assign) and any(match(t) for t in n.targets):
                    out |= elem_origins(n.value, g, idx, seen, depth + 1)
                out |= _grow(n, match, g, None, idx, seen, depth)
        return out or {("unknown", text(it))}
    if isinstance(it, ast.Attribute):
        if it.attr == "members":
            return {("inst", c) for c in sm.member_union}
        return {("unknown", text(it))}
    return {("unknown", text(it))}


def _grow(n, match, fn, one, idx, seen, depth):
    """Contributions of `X.append(v)` / `X.extend(vs)` / `X.add(v)` / `X.insert(i, v)` statements to container X."""
    out = set()
    if isinstance(n, ast.Call) and isinstance(n.func, ast.Attribute) and match(n.func.value) and n.args:
        if n.func.attr in ("append", "add"):
            v = n.args[0]
            out |= origins(v, fn, v, seen, depth + 1) if idx is None else _pick(v, fn, idx, seen, depth + 1)
        elif n.func.attr == "insert" and len(n.args) == 2:
            v = n.args[1]
            out |= origins(v, fn, v, seen, depth + 1) if idx is None else _pick(v, fn, idx, seen, depth + 1)
        elif n.func.attr in ("extend", "update"):
            out |= elem_origins(n.args[0], fn, idx, seen, depth + 1)
    return out


# ----------------------------------------------------------------------------- validator guarantees
def raise_sites(fn):
    return [n for n in fn.mod.nodes(fn) if isinstance(n, ast.stmt) and is_raise_site(n, fn)]


def top_stmt(n, fn):
    """The statement of fn's own body that contains n."""
    while n._parent is not fn.node:
        n = n._parent
    return n


def _iter_tables(expr, fn, depth=0):
    """Tables whose values an iterable ranges over: schema.T.values(), list(..), a + b, single-assigned local."""
    if depth > 6:
        return None
    if isinstance(expr, ast.Call):
        f = expr.func
        if isinstance(f, ast.Attribute) and f.attr == "values" and table_of(f.value):
            return {table_of(f.value)}
        if isinstance(f, ast.Name) and f.id in ("list", "tuple", "sorted") and len(expr.args) == 1:
            return _iter_tables(expr.args[0], fn, depth + 1)
        return None
    if isinstance(expr, ast.BinOp) and isinstance(expr.op, ast.Add):
        a, b = _iter_tables(expr.left, fn, depth + 1), _iter_tables(expr.right, fn, depth + 1)
        return None if a is None or b is None else a | b
    if isinstance(expr, ast.Name):
        st = [s for s in stores_of(fn).get(expr.id, ())]
        if len(st) == 1 and isinstance(st[0]._parent, ast.Assign):
            return _iter_tables(st[0]._parent.value, fn, depth + 1)
    return None


def _coverage(var, at, fn):
    """(kind, tables) the variable `var` ranges over at `at`: ('members'|'children', {tables}) or None.
    Requires plain nested for-loops without break/return."""
    loop = None
    for a in ancestors(at):
        if isinstance(a, ast.For) and isinstance(a.target, ast.Name) and a.target.id == var and a._fn is fn:
            loop = a
            break
    if loop is None:
        return None
    it = loop.iter
    if isinstance(it, ast.Attribute) and it.attr == "members" and isinstance(it.value, ast.Name):
        kind, owner = "members", it.value.id
    elif isinstance(it, ast.Call) and isinstance(it.func, ast.Attribute) and it.func.attr == "children" \
            and isinstance(it.func.value, ast.Name) and not it.args:
        kind, owner = "children", it.func.value.id
    else:
        return None
    outer = None
    for a in ancestors(loop):
        if isinstance(a, ast.For) and isinstance(a.target, ast.Name) and a.target.id == owner and a._fn is fn:
            outer = a
            break
    if outer is None:
        return None
    for n in ast.walk(outer):
        if isinstance(n, (ast.Break, ast.Return)) and n._fn is fn:
            return None
    tabs = _iter_tables(outer.iter, fn)
    if tabs is None:
        return None
    # the outer loop itself must be unconditional in fn (not nested in an if / another loop)
    if outer._parent is not fn.node:
        return None
    return kind, tabs, outer


def validator_guarantees():
    """Membership guarantees established by _validate before it returns:
    [{cls, field, table, types, top, line, fn}] meaning: for every <cls> member/child of every declaration,
    (types is None or member.type in types) => member.<field> in schema.<table>."""
    key = ("guar", cfront.REPO)
    if key in _mods:
        return _mods[key]
    sm = model()
    m = sm.mod
    V = m.func("_validate")
    out = []

    def scan(fn, outer_site=None, outer_cov=None, param_map=None):
        for st in raise_sites(fn):
            if fn.parent is not None and fn in _noret(m):
                continue
            k = know_at(st, fn, skip=("pred-raise",))
            mem = [(key, v) for key, v in k.K.items() if key[0] == "in" and not v and
                   table_of(k.forms.nodes.get(key[2])) and isinstance(k.forms.nodes.get(key[1]), ast.Attribute)]
            for (key, _) in mem:
                kn = k.forms.nodes[key[1]]
                if not isinstance(kn.value, ast.Name):
                    continue
                var = kn.value.id
                cls = classes_of(kn.value, fn, st)
                if len(cls) != 1:
                    continue
                cls = next(iter(cls))
                types = None
                extra = []
                for k2, v2 in k.K.items():
                    if k2 == key:
                        continue
                    if k2[0] == "isinst" and k2[1] == var:
                        continue
                    if k2[0] in ("eq", "in") and k2[1] == f"{var}.type":
                        types = frozenset(k.values(f"{var}.type", sm.types))
                        continue
                    extra.append(k2)
                if extra or k.fs:
                    continue
                if outer_site is None:
                    cov = _coverage(var, st, fn)
                    top = top_stmt(st, fn) if cov else None
                else:
                    # per-item validator: the item is a parameter; coverage comes from the call site
                    if param_map.get(var) is None:
                        continue
                    cov, top = outer_cov, outer_site
                if not cov:
                    continue
                kind, tabs, outer = cov
                need = {"members": {"groups", "elements"}, "children": {"elements"}}[kind]
                if not need <= tabs:
                    continue
                out.append({"cls": cls, "field": kn.attr, "table": table_of(k.forms.nodes[key[2]]), "types": types,
                            "top": V.node.body.index(top), "line": st.lineno, "fn": fn.qual})

    scan(V)
    # per-item validators called from _validate for every member
    for c in calls_in(V):
        kind, p = resolve(c, V)
        if kind != "func" or len(p) != 1 or p[0].parent is not None or p[0] is V:
            continue
        g = p[0]
        binding = bind_args(c, g)
        pm = {}
        cov = None
        for pname, a in binding.items():
            if isinstance(a, ast.Name):
                cv = _coverage(a.id, c, V)
                if cv:
                    kc = know_at(c, V, skip=("pred-raise",))
                    others = [k2 for k2 in kc.K if not (k2[0] == "isinst" and k2[1] == a.id)]
                    if not others and not kc.fs:
                        pm[pname] = a.id
                        cov = cv
        if cov:
            scan(g, top_stmt(c, V), cov, pm)
    _mods[key] = out
    return out


def validate_postdominates():
    """[(construct, ok, line, msg)] : _validate runs on the parsed schema before parse_string / parse_file return it."""
    m = model().mod
    res = []
    ps = m.func("parse_string")
    rets = [n for n in m.nodes(ps) if isinstance(n, ast.Return)]
    ok, msg, line = True, "", ps.node.lineno
    body = ps.node.body
    for r in rets:
        line = r.lineno
        if not (isinstance(r.value, ast.Name) and r._parent is ps.node):
            ok, msg = False, "return is not a top-level `return <schema variable>`"
            break
        name = r.value.id
        st = stores_of(ps).get(name, [])
        if len(st) != 1 or not isinstance(st[0]._parent, ast.Assign) or st[0]._parent._parent is not ps.node:
            ok, msg = False, f"`{name}` is not assigned exactly once at top level"
            break
        a = st[0]._parent
        between = body[body.index(a) + 1: body.index(r)]
        val = [s for s in between if isinstance(s, ast.Expr) and isinstance(s.value, ast.Call)
               and resolve(s.value, ps)[0] == "func" and resolve(s.value, ps)[1] == [m.func("_validate")]
               and s.value.args and isinstance(s.value.args[0], ast.Name) and s.value.args[0].id == name]
        if not val:
            ok, msg = False, f"no top-level `_validate({name})` between the parse and the return"
            break
    if not rets:
        ok, msg = False, "parse_string has no return"
    res.append(("parse_string:_validate-before-return", ok, line, msg))
    pf = m.func("parse_file")
    rets = [n for n in m.nodes(pf) if isinstance(n, ast.Return)]
    ok, msg, line = bool(rets), "parse_file has no return", pf.node.lineno
    for r in rets:
        line = r.lineno
        if not (isinstance(r.value, ast.Call) and resolve(r.value, pf) == ("func", [ps])):
            ok, msg = False, "parse_file returns something other than parse_string(...)"
    res.append(("parse_file:returns-parse_string", ok, line, "" if ok else msg))
    return res


# ----------------------------------------------------------------------------- reaching stores
def reaching(name, use, fn):
    """Stores to local `name` that may reach `use` (structured approximation: the latest store that dominates the
    use kills earlier ones; later stores reach only around a loop that does not contain the dominating store)."""
    stores = [s for s in stores_of(fn).get(name, []) if not any(isinstance(a, ast.comprehension) for a in ancestors(s))]
    anc = {id(a) for a in ancestors(use)}
    dom = None
    for s in stores:
        st = stmt_of(s)
        if isinstance(st, (ast.For, ast.While, ast.If, ast.With, ast.Try)) and not (isinstance(st, ast.For) and inside(s, st.target)):
            continue
        if isinstance(st, ast.For):
            # loop variable: dominates uses inside the loop body
            if id(st) in anc and not inside(use, st.iter) and (dom is None or pos(s) > pos(dom)):
                dom = s
            continue
        if id(st._parent) in anc and pos(st) < pos(use) and not inside(use, st):
            # a direct statement of a block enclosing the use, before it
            blk_owner = st._parent
            # the use must be in the same field list (body vs orelse) or deeper in a later sibling
            sib = use
            while sib._parent is not blk_owner:
                sib = sib._parent
            if sib._field == st._field and (dom is None or pos(s) > pos(dom)):
                dom = s
    out = []
    lu = loops_of(use)
    for s in stores:
        if s is dom:
            out.append(s)
        elif dom is None:
            out.append(s)
        elif pos(dom) < pos(s) < pos(use):
            out.append(s)
        elif pos(s) > pos(use) and any(L in lu and not inside(dom, L) for L in loops_of(s)):
            out.append(s)
    return out
