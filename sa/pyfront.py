"""Python front end for the doc/generate checkers (C41, C42). `ast` only; nothing from /repo is imported.

Parts: module loading + indexing (parents, owner function), literal evaluation of constants, call
resolution, guard facts ("what is known to hold at this node") with a small propositional/theory
propagation, termination of blocks, the schema model (classes, fields, tables, vocabularies) read
from mjcf_schema.py, class inference for variables, key provenance for table lookups.

Layout independence (what the rules built on this module see is what the code does, not how it is arranged):
 * calls        `resolve` follows calls through dispatch tables (`D.get(k)` / `D[k]` on a dict literal that is only ever
                looked up, whose values are functions, bound methods or tuples of them), through tuple unpacking of such
                entries, through closures / functions passed as arguments, to every possible target (`leaves`,
                `callable_targets`, `_callidx`: a fixed point, since a variable call is itself a call site).
 * facts        `know_at` = tests enclosing / preceding the node in its function, plus
                  - a boolean local or a `return <expr>` predicate helper stands for its expression (`Forms._expand`),
                  - a call of a pure checking helper (`if c: raise`) is that check at the call site (`_post_call_tests`),
                  - `if c: <checks>` yields `c -> checks` afterwards (`_after_if`),
                  - what holds at every call site of a private helper holds on its entry (`entry_facts`, arguments bound
                    to parameters; entry points and functions used as values get none).
 * values       `origins` / `classes_of` / `elem_classes` follow helper returns (tuple literals, grown lists), `f(*t)`,
                `a, b = item`, fields of helper classes; `tables_of` follows aliases of schema tables.
 * guarantees   `validator_guarantees` follows the validator into helpers called per declaration / per member / once,
                carrying what their parameters range over; a check that exists but is not shown to cover every
                declaration is a *weak* guarantee: lookups that would need it are undecided (exit 2), not violations.
 * `Undecided`  obligations that could not be interpreted end the run as ANALYSIS-ERROR unless a definite violation exists.
"""
from __future__ import annotations

import ast
import os
import re

from . import cfront
from .cfront import AnalysisError

GEN = "doc/generate"
_mods = {}


# ----------------------------------------------------------------------------- loading / indexing
class Func:
    def __init__(self, qual, node, cls, parent, mod):
        self.qual, self.node, self.cls, self.parent, self.mod = qual, node, cls, parent, mod

    @property
    def params(self):
        a = self.node.args
        return [x.arg for x in a.posonlyargs + a.args + a.kwonlyargs]

    def param_ann(self, name):
        a = self.node.args
        for x in a.posonlyargs + a.args + a.kwonlyargs:
            if x.arg == name:
                return x.annotation
        return None

    def __repr__(self):
        return f"<Func {self.mod.name}:{self.qual}>"


class Mod:
    def __init__(self, rel):
        self.rel = rel
        self.name = os.path.splitext(os.path.basename(rel))[0]
        self.path = os.path.join(cfront.REPO, rel)
        try:
            with open(self.path, encoding="utf-8") as f:
                self.src = f.read()
            self.tree = ast.parse(self.src, filename=self.path)
        except (OSError, SyntaxError) as e:
            raise AnalysisError(f"cannot load {rel}: {e}")
        self.funcs = {}
        self.classes = {}
        self.imports = {}
        self.by_fn = {}
        self._consts = None
        self._visit(self.tree, None, None, None, None, None, False)

    def _visit(self, node, parent, field, idx, fn, cls, ann):
        node._parent, node._field, node._idx, node._fn, node._ann, node._mod = parent, field, idx, fn, ann, self
        self.by_fn.setdefault(fn, []).append(node)
        if isinstance(node, ast.Import):
            for a in node.names:
                self.imports[a.asname or a.name.split(".")[0]] = a.name
        elif isinstance(node, ast.ImportFrom):
            for a in node.names:
                self.imports[a.asname or a.name] = f"{node.module}.{a.name}"
        inner_fn, inner_cls = fn, cls
        if isinstance(node, (ast.FunctionDef, ast.AsyncFunctionDef)):
            if fn is not None:
                qual = fn.qual + "." + node.name
            elif cls:
                qual = cls + "." + node.name
            else:
                qual = node.name
            inner_fn = Func(qual, node, cls if fn is None else fn.cls, fn, self)
            self.funcs[qual] = inner_fn
        elif isinstance(node, ast.ClassDef) and fn is None:
            self.classes[node.name] = node
            inner_cls = node.name
        for name, value in ast.iter_fields(node):
            a = ann or name in ("annotation", "returns")
            f = fn
            if isinstance(node, (ast.FunctionDef, ast.AsyncFunctionDef)) and name == "body":
                f = inner_fn
            c = inner_cls if name == "body" else cls
            if isinstance(value, list):
                for i, item in enumerate(value):
                    if isinstance(item, ast.AST):
                        self._visit(item, node, name, i, f, c, a)
            elif isinstance(value, ast.AST):
                self._visit(value, node, name, None, f, c, a)

    def nodes(self, fn):
        """Nodes owned by function fn (None: module/class level), nested defs excluded."""
        return self.by_fn.get(fn, [])

    @property
    def consts(self):
        if self._consts is None:
            self._consts = {}
            for st in self.tree.body:
                self._const_stmt(st, None)
            for cname, c in self.classes.items():
                for st in c.body:
                    self._const_stmt(st, cname)
        return self._consts

    def _const_stmt(self, st, cname):
        if isinstance(st, ast.Assign) and len(st.targets) == 1 and isinstance(st.targets[0], ast.Name):
            try:
                v = lit(st.value, self, cname)
            except NotLit:
                return
            key = st.targets[0].id if cname is None else f"{cname}.{st.targets[0].id}"
            self._consts[key] = v
            self._consts.setdefault("@node:" + key, st)

    def func(self, qual):
        f = self.funcs.get(qual)
        if f is None:
            raise AnalysisError(f"anchor vanished: function {qual} not found in {self.rel}")
        return f


def load(basename):
    rel = f"{GEN}/{basename}" if "/" not in basename else basename
    key = (cfront.REPO, rel)
    if key not in _mods:
        _mods[key] = Mod(rel)
    return _mods[key]


_text_cache = {}


def text(n):
    if getattr(n, "_syn", False) or not hasattr(n, "_mod"):
        return ast.unparse(n)           # synthetic nodes die young: their id() may be reused, never cache them
    t = _text_cache.get(id(n))
    if t is None:
        t = ast.unparse(n)
        _text_cache[id(n)] = t
        n._keep = True
    return t


def clone(node, repl=None):
    """Structural copy of an expression (no analysis attributes); `repl(node)` may return a replacement subtree."""
    if repl is not None:
        r = repl(node)
        if r is not None:
            return r
    kw = {}
    for name, value in ast.iter_fields(node):
        if isinstance(value, list):
            kw[name] = [clone(v, repl) if isinstance(v, ast.AST) else v for v in value]
        elif isinstance(value, ast.AST):
            kw[name] = clone(value, repl)
        else:
            kw[name] = value
    new = type(node)(**kw)
    for a in ("lineno", "col_offset", "end_lineno", "end_col_offset"):
        if hasattr(node, a):
            setattr(new, a, getattr(node, a))
    return new


def graft(new, at):
    """Give the synthetic expression `new` the analysis attributes of a node standing where `at` stands."""
    def visit(n, parent, field, idx):
        n._parent, n._field, n._idx, n._fn, n._ann, n._mod, n._syn = parent, field, idx, at._fn, False, at._mod, True
        if not hasattr(n, "lineno") and isinstance(n, (ast.expr, ast.stmt)):
            n.lineno, n.col_offset = getattr(at, "lineno", 1), getattr(at, "col_offset", 0)
        for name, value in ast.iter_fields(n):
            if isinstance(value, list):
                for i, item in enumerate(value):
                    if isinstance(item, ast.AST):
                        visit(item, n, name, i)
            elif isinstance(value, ast.AST):
                visit(value, n, name, None)
    visit(new, at._parent, at._field, at._idx)
    new.lineno, new.col_offset = getattr(at, "lineno", 1), getattr(at, "col_offset", 0)
    return new


def pos(n):
    return (n.lineno, n.col_offset)


def ancestors(n):
    p = getattr(n, "_parent", None)
    while p is not None:
        yield p
        p = p._parent


def stmt_of(n):
    while n is not None and not isinstance(n, ast.stmt):
        n = n._parent
    return n


def loops_of(n):
    return [a for a in ancestors(n) if isinstance(a, (ast.For, ast.While)) and a._fn is n._fn]


def inside(n, anc):
    return n is anc or any(a is anc for a in ancestors(n))


# ----------------------------------------------------------------------------- literals
class NotLit(Exception):
    pass


def lit(node, mod, cls=None, env=None):
    if isinstance(node, ast.Constant):
        return node.value
    if isinstance(node, ast.Tuple):
        return tuple(lit(e, mod, cls, env) for e in node.elts)
    if isinstance(node, ast.List):
        return [lit(e, mod, cls, env) for e in node.elts]
    if isinstance(node, ast.Set):
        return frozenset(lit(e, mod, cls, env) for e in node.elts)
    if isinstance(node, ast.Dict):
        if any(k is None for k in node.keys):
            raise NotLit
        return {lit(k, mod, cls, env): lit(v, mod, cls, env) for k, v in zip(node.keys, node.values)}
    if isinstance(node, ast.UnaryOp) and isinstance(node.op, ast.USub) and isinstance(node.operand, ast.Constant):
        return -node.operand.value
    if isinstance(node, ast.Name):
        if env and node.id in env:
            return env[node.id]
        if node.id in mod.consts:
            return mod.consts[node.id]
        raise NotLit
    if isinstance(node, ast.Attribute) and isinstance(node.value, ast.Name):
        base = node.value.id
        if base == "self" and cls and f"{cls}.{node.attr}" in mod.consts:
            return mod.consts[f"{cls}.{node.attr}"]
        if base in mod.classes and f"{base}.{node.attr}" in mod.consts:
            return mod.consts[f"{base}.{node.attr}"]
        target = mod.imports.get(base)
        if target and os.path.exists(os.path.join(cfront.REPO, GEN, target + ".py")):
            other = load(target + ".py")
            if node.attr in other.consts:
                return other.consts[node.attr]
        raise NotLit
    if isinstance(node, ast.Call) and isinstance(node.func, ast.Name) and not node.keywords:
        if node.func.id in ("frozenset", "set") and len(node.args) <= 1:
            return frozenset(lit(node.args[0], mod, cls, env)) if node.args else frozenset()
        if node.func.id == "tuple" and len(node.args) == 1:
            return tuple(lit(node.args[0], mod, cls, env))
    raise NotLit


# ----------------------------------------------------------------------------- call resolution
BUILTIN_FUNCS = {
    "isinstance", "len", "bool", "list", "tuple", "set", "frozenset", "str", "dict", "any", "all", "sum", "repr",
    "sorted", "int", "float", "open", "print", "max", "min", "abs", "enumerate", "zip", "range", "next", "iter",
    "super", "type", "getattr", "hasattr", "id", "hash", "reversed", "map", "filter",
}
BUILTIN_METHODS = {
    "get", "values", "items", "keys", "append", "extend", "add", "update", "strip", "join", "match", "group",
    "groups", "end", "start", "startswith", "endswith", "read", "write", "pop", "index", "remove", "setdefault",
    "replace", "split", "ljust", "rjust", "capitalize", "insert", "finditer", "sub", "seek", "rstrip", "lstrip",
    "encode", "discard", "clear", "copy", "format", "lower", "upper", "count", "sort", "search", "fullmatch",
}


def resolve(call, fn, extra_mods=()):
    """-> (kind, payload): 'func' [Func..] | 'class' name | 'builtin' name | 'method' name | 'extern' text | 'unknown' text.
    A call through a local variable or parameter that can only hold functions of the analysed modules (dispatch table of
    bound methods / functions, tuple component of such a table, closure or function passed as an argument) resolves to
    all of them."""
    r = _resolve_basic(call, fn, extra_mods)
    if r[0] == "varcall":
        tg = _callidx()["var"].get(id(call))
        return ("func", list(tg)) if tg else ("unknown", r[1])
    return r


def _resolve_basic(call, fn, extra_mods=()):
    mod = call._mod
    f = call.func
    if isinstance(f, (ast.Call, ast.Subscript, ast.IfExp)) and fn is not None and (
            isinstance(f, ast.IfExp) or _lookup_source(f, fn)):
        return "varcall", text(f)          # D.get(k, default)(..) / D[k](..) on a dispatch table
    if isinstance(f, ast.Name) and fn is not None and _scope_of(f.id, fn) is not None and \
            not any((s.qual + "." + f.id) in mod.funcs for s in _scope_chain(fn)):
        return "varcall", f.id
    if isinstance(f, ast.Name):
        scope = fn
        while scope is not None:
            q = scope.qual + "." + f.id
            if q in mod.funcs:
                return "func", [mod.funcs[q]]
            scope = scope.parent
        if f.id in mod.funcs:
            return "func", [mod.funcs[f.id]]
        if f.id in mod.classes:
            q = f.id + ".__init__"
            return ("func", [mod.funcs[q]]) if q in mod.funcs else ("class", f.id)
        if f.id in BUILTIN_FUNCS:
            return "builtin", f.id
        return "unknown", f.id
    if isinstance(f, ast.Attribute):
        v = f.value
        if isinstance(v, ast.Name) and v.id == "self" and fn is not None and fn.cls:
            q = f"{fn.cls}.{f.attr}"
            if q in mod.funcs:
                return "func", [mod.funcs[q]]
        if isinstance(v, ast.Call) and isinstance(v.func, ast.Name) and v.func.id == "super":
            return "builtin", "super." + f.attr
        if isinstance(v, ast.Name) and v.id in mod.imports and not _is_local(v, fn):
            target = mod.imports[v.id]
            if os.path.exists(os.path.join(cfront.REPO, GEN, target + ".py")):
                other = load(target + ".py")
                if f.attr in other.funcs:
                    return "func", [other.funcs[f.attr]]
                if f.attr in other.classes:
                    q = f.attr + ".__init__"
                    return ("func", [other.funcs[q]]) if q in other.funcs else ("class", f.attr)
            return "extern", text(f)
        if isinstance(v, ast.Attribute) and isinstance(v.value, ast.Name) and v.value.id in mod.imports:
            return "extern", text(f)
        cands = []
        for m in (mod,) + tuple(extra_mods):
            for q, F in m.funcs.items():
                if F.cls and F.parent is None and F.node.name == f.attr and F not in cands:
                    cands.append(F)
        if f.attr in BUILTIN_METHODS:
            return "method", f.attr
        if cands:
            return "func", cands
        return "unknown", text(f)
    return "unknown", text(f)


def _is_local(name_node, fn):
    if fn is None:
        return False
    return name_node.id in fn.params or any(
        isinstance(n, ast.Name) and n.id == name_node.id and isinstance(n.ctx, ast.Store) for n in fn.mod.nodes(fn))


def _nested_in(g, root):
    p = g.parent
    while p is not None:
        if p is root:
            return True
        p = p.parent
    return False


def _scope_chain(fn):
    while fn is not None:
        yield fn
        fn = fn.parent


# ----------------------------------------------------------------------------- values a name can hold
_LOOKUP_ATTRS = {"get", "keys", "values", "items", "copy"}
_LOOKUP_CALLS = {"len", "sorted", "list", "set", "frozenset", "iter", "bool", "tuple", "dict"}


def _lookup_only(use):
    """The use of a dict-valued name/attribute can neither change the dict nor let it escape."""
    p = use._parent
    if isinstance(p, ast.Attribute) and use._field == "value" and p.attr in _LOOKUP_ATTRS and \
            isinstance(p._parent, ast.Call) and p._field == "func":
        return True
    if isinstance(p, ast.Subscript) and use._field == "value" and isinstance(p.ctx, ast.Load):
        return True
    if isinstance(p, ast.Compare) and use._field == "comparators" and isinstance(p.ops[use._idx], (ast.In, ast.NotIn)):
        return True
    if isinstance(p, (ast.For, ast.comprehension)) and use._field == "iter":
        return True
    if isinstance(p, ast.Call) and use._field == "args" and isinstance(p.func, ast.Name) and p.func.id in _LOOKUP_CALLS:
        return True
    return False


def dict_entries(expr, fn):
    """([(key node, value node)], owner Func | None) when `expr` denotes a dict literal that is only ever looked up: a
    local assigned exactly once, or a module- / class-level constant.  None otherwise."""
    mod = expr._mod
    d, owner = None, None
    if isinstance(expr, ast.Dict):
        d, owner = expr, fn
    elif isinstance(expr, ast.Name):
        scope = _scope_of(expr.id, fn) if fn is not None else None
        if scope is not None:
            st = stores_of(scope).get(expr.id, [])
            if expr.id in scope.params or len(st) != 1 or not (
                    isinstance(st[0]._parent, ast.Assign) and st[0]._field == "targets" and len(st[0]._parent.targets) == 1):
                return None
            d, owner = st[0]._parent.value, scope
            uses = [n for g in mod.funcs.values() for n in mod.nodes(g) if isinstance(n, ast.Name) and n.id == expr.id
                    and isinstance(n.ctx, ast.Load) and _scope_of(expr.id, g) is scope]
        else:
            tops = [s for s in mod.tree.body if isinstance(s, ast.Assign) and any(
                isinstance(t, ast.Name) and t.id == expr.id for t in s.targets)]
            if len(tops) != 1:
                return None
            d, owner = tops[0].value, None
            uses = [n for g in [None] + list(mod.funcs.values()) for n in mod.nodes(g) if isinstance(n, ast.Name)
                    and n.id == expr.id and isinstance(n.ctx, ast.Load) and (g is None or _scope_of(expr.id, g) is None)]
        if not all(_lookup_only(u) for u in uses):
            return None
    elif isinstance(expr, ast.Attribute) and isinstance(expr.value, ast.Name) and \
            (expr.value.id in mod.classes or (expr.value.id == "self" and fn is not None and fn.cls)):
        cname = expr.value.id if expr.value.id in mod.classes else fn.cls
        body = [s for s in mod.classes[cname].body if isinstance(s, ast.Assign) and any(
            isinstance(t, ast.Name) and t.id == expr.attr for t in s.targets)] if cname in mod.classes else []
        if len(body) != 1:
            return None
        d, owner = body[0].value, None
        uses = [n for g in [None] + list(mod.funcs.values()) for n in mod.nodes(g) if isinstance(n, ast.Attribute)
                and n.attr == expr.attr]
        if not all(isinstance(u.ctx, ast.Load) and _lookup_only(u) for u in uses):
            return None
    if not isinstance(d, ast.Dict) or any(k is None for k in d.keys):
        return None
    return list(zip(d.keys, d.values)), owner


def _lookup_source(expr, fn):
    """(entries, owner, may_be_none) when expr is `D[k]` / `D.get(k)` / `D.get(k, default)` on a lookup-only dict literal."""
    if isinstance(expr, ast.Subscript) and not isinstance(expr.slice, ast.Slice):
        de = dict_entries(expr.value, fn)
        if de:
            return [v for _, v in de[0]], de[1], None
    if isinstance(expr, ast.Call) and isinstance(expr.func, ast.Attribute) and expr.func.attr == "get" and \
            1 <= len(expr.args) <= 2 and not expr.keywords:
        de = dict_entries(expr.func.value, fn)
        if de:
            return [v for _, v in de[0]], de[1], (expr.args[1] if len(expr.args) == 2 else ast.Constant(None))
    return None


def leaves(expr, fn, idx=None, _seen=None, _depth=0):
    """[(node, Func, idx)]: the expressions whose value `expr` (component idx of it, if not None) can take, followed
    through plain local assignments, tuple unpacking, lookups in dispatch dict literals, conditional expressions and
    parameters (bound at every call site).  A triple that could not be followed further is returned as it is (opaque)."""
    seen = _seen if _seen is not None else set()
    key = (id(expr), idx)
    if key in seen:
        return []
    seen.add(key)
    if _depth > 12:
        return [(expr, fn, idx)]
    if idx is not None and isinstance(expr, ast.Tuple) and idx < len(expr.elts) and \
            not any(isinstance(e, ast.Starred) for e in expr.elts):
        return leaves(expr.elts[idx], fn, None, seen, _depth + 1)
    if isinstance(expr, ast.IfExp):
        return leaves(expr.body, fn, idx, seen, _depth + 1) + leaves(expr.orelse, fn, idx, seen, _depth + 1)
    src = _lookup_source(expr, fn) if fn is not None else None
    if src:
        vals, owner, dflt = src
        out = []
        for v in vals:
            out.extend(leaves(v, owner if owner is not None else fn, idx, seen, _depth + 1))
        if dflt is not None:
            if isinstance(dflt, ast.Constant) and dflt.value is None:
                if idx is None:         # a component of a miss does not exist: the unpacking itself would have raised
                    out.append((dflt, fn, None))
            else:
                out.extend(leaves(dflt, fn, idx, seen, _depth + 1))
        return out
    if isinstance(expr, ast.Name) and fn is not None:
        scope = _scope_of(expr.id, fn)
        if scope is None:
            return [(expr, fn, idx)]
        stores = [s for s in stores_of(scope).get(expr.id, []) if not any(isinstance(a, ast.comprehension) for a in ancestors(s))]
        out = []
        if expr.id in scope.params:
            sites = _sites(scope)
            if not sites:
                return [(expr, fn, idx)]
            for caller, call in sites:
                a = bind_args(call, scope).get(expr.id)
                if a is None:
                    a = _param_default(scope, expr.id)
                if a is None:
                    return [(expr, fn, idx)]
                out.extend(leaves(a, getattr(a, "_fn", caller), idx, seen, _depth + 1))
        for s in stores:
            top = s
            while not isinstance(top._parent, ast.stmt):
                top = top._parent
            st = top._parent
            if isinstance(st, ast.Assign) and top._field == "targets" and len(st.targets) == 1:
                if top is s:
                    out.extend(leaves(st.value, scope, idx, seen, _depth + 1))
                    continue
                tpos = _target_pos(top, expr.id)
                if isinstance(tpos, int) and idx is None and not any(isinstance(e, ast.Starred) for e in top.elts):
                    out.extend(leaves(st.value, scope, tpos, seen, _depth + 1))
                    continue
            return [(expr, fn, idx)]
        return out
    return [(expr, fn, idx)]


def _param_default(fn, pname):
    a = fn.node.args
    posl = a.posonlyargs + a.args
    for p, d in zip(posl[len(posl) - len(a.defaults):], a.defaults):
        if p.arg == pname:
            return d
    for p, d in zip(a.kwonlyargs, a.kw_defaults):
        if p.arg == pname:
            return d
    return None


def func_of_ref(node, fn):
    """The Func a value expression denotes (function name, nested function, bound method `self.m`, `module.f`), or None."""
    mod = getattr(node, "_mod", None) or (fn.mod if fn is not None else None)
    if mod is None:
        return None
    if isinstance(node, ast.Name):
        for s in _scope_chain(fn):
            q = s.qual + "." + node.id
            if q in mod.funcs:
                return mod.funcs[q]
        if fn is not None and _scope_of(node.id, fn) is not None:
            return None
        return mod.funcs.get(node.id)
    if isinstance(node, ast.Attribute) and isinstance(node.value, ast.Name):
        if node.value.id == "self" and fn is not None and fn.cls:
            return mod.funcs.get(f"{fn.cls}.{node.attr}")
        if node.value.id in mod.classes:
            return mod.funcs.get(f"{node.value.id}.{node.attr}")
        target = mod.imports.get(node.value.id)
        if target and not _is_local(node.value, fn) and os.path.exists(os.path.join(cfront.REPO, GEN, target + ".py")):
            return load(target + ".py").funcs.get(node.attr)
    return None


def callable_targets(expr, fn):
    """Functions a callable-valued expression can denote, or None when some possible value is not a function of the
    analysed modules (None values are left out: calling them is a matter for the not-None obligation)."""
    out = []
    for node, lf, idx in leaves(expr, fn):
        if idx is not None:
            return None
        if isinstance(node, ast.Constant) and node.value is None:
            continue
        g = func_of_ref(node, lf)
        if g is None:
            return None
        if g not in out:
            out.append(g)
    return out or None


def _callidx():
    """Call index of the analysed modules: sites of every function, and the targets of calls through variables,
    computed together to a fixed point (a variable call is a call site of its targets)."""
    key = ("callidx", cfront.REPO)
    idx = _mods.get(key)
    if idx is not None:
        return idx
    idx = {"var": {}, "sites": {}}
    _mods[key] = idx
    sm = model()
    basic, pending = {}, []
    for f in universe():
        for c in calls_in(f):
            k, p = _resolve_basic(c, f, (sm.mod,))
            if k == "func":
                for g in p:
                    basic.setdefault(g, []).append((f, c))
            elif k == "varcall":
                pending.append((f, c))
    idx["sites"] = {g: list(v) for g, v in basic.items()}
    for _ in range(8):
        var = {}
        for f, c in pending:
            tg = callable_targets(c.func, f)
            if tg:
                var[id(c)] = tg
        sites = {g: list(v) for g, v in basic.items()}
        for f, c in pending:
            for g in var.get(id(c), ()):
                sites.setdefault(g, []).append((f, c))
        stable = {k: [g.qual for g in v] for k, v in var.items()} == {k: [g.qual for g in v] for k, v in idx["var"].items()}
        idx["var"], idx["sites"] = var, sites
        if stable:
            break
    return idx


def calls_in(fn):
    return [n for n in fn.mod.nodes(fn) if isinstance(n, ast.Call)]


def callees(fn, extra_mods=()):
    out = []
    for c in calls_in(fn):
        k, p = resolve(c, fn, extra_mods)
        if k == "func":
            out.extend(p)
    # nested defs are reachable when called; handled through resolve
    return out


def closure(roots, extra_mods=()):
    seen, work = [], list(roots)
    while work:
        f = work.pop()
        if f in seen:
            continue
        seen.append(f)
        work.extend(callees(f, extra_mods))
    return seen


def call_sites(target, funcs, extra_mods=()):
    """All (caller Func, Call) in `funcs` that resolve (possibly among others) to target."""
    out = []
    for f in funcs:
        for c in calls_in(f):
            k, p = resolve(c, f, extra_mods)
            if k == "func" and target in p:
                out.append((f, c))
    return out


def bind_args(call, target):
    """param name -> arg node for a call of `target` (self dropped for methods called through an object)."""
    params = list(target.params)
    if target.cls and target.parent is None and params and params[0] in ("self", "cls"):
        params = params[1:]
    out = {}
    for i, (p, a) in enumerate(zip(params, call.args)):
        if isinstance(a, ast.Starred):
            # f(*t): the remaining positional parameters receive t[0], t[1], ... (synthetic subscripts of t)
            if i == len(call.args) - 1:
                for j, q in enumerate(params[i:]):
                    if q in {kw.arg for kw in call.keywords}:
                        break
                    out[q] = graft(ast.Subscript(value=clone(a.value), slice=ast.Constant(j), ctx=ast.Load()), a)
            break
        out[p] = a
    for kw in call.keywords:
        if kw.arg:
            out[kw.arg] = kw.value
    return out


def sccs(funcs, extra_mods=()):
    """Recursive groups (Tarjan) among funcs: list of lists with a cycle."""
    index, low, on, stack, out, counter = {}, {}, set(), [], [], [0]
    edges = {f: [g for g in callees(f, extra_mods) if g in funcs] for f in funcs}

    def strong(v):
        index[v] = low[v] = counter[0]
        counter[0] += 1
        stack.append(v)
        on.add(v)
        for w in edges[v]:
            if w not in index:
                strong(w)
                low[v] = min(low[v], low[w])
            elif w in on:
                low[v] = min(low[v], index[w])
        if low[v] == index[v]:
            comp = []
            while True:
                w = stack.pop()
                on.discard(w)
                comp.append(w)
                if w is v:
                    break
            if len(comp) > 1 or v in edges[v]:
                out.append(comp)

    for f in funcs:
        if f not in index:
            strong(f)
    return out


# ----------------------------------------------------------------------------- termination
def noreturn_funcs(mod):
    """Functions (incl. nested helpers) whose body always raises."""
    out = set()
    for f in mod.funcs.values():
        body = [s for s in f.node.body if not (isinstance(s, ast.Expr) and isinstance(s.value, ast.Constant))]
        if body and _always(body, f, out, raise_only=True):
            out.add(f)
    return out


def _always(stmts, fn, noret, raise_only=False):
    for s in stmts:
        if isinstance(s, ast.Raise):
            return True
        if not raise_only and isinstance(s, (ast.Return, ast.Continue, ast.Break)):
            return True
        if isinstance(s, ast.Expr) and isinstance(s.value, ast.Call):
            k, p = resolve(s.value, fn)
            if k == "func" and p and all(g in noret for g in p):
                return True
            if k == "extern" and p == "sys.exit":
                return True
        if isinstance(s, ast.If) and s.orelse and _always(s.body, fn, noret, raise_only) and \
                _always(s.orelse, fn, noret, raise_only):
            return True
        if isinstance(s, ast.With) and _always(s.body, fn, noret, raise_only):
            return True
    return False


def terminates(stmts, fn):
    """The block never falls through to the statement after it (raise/return/continue/break/noreturn call)."""
    return _always(stmts, fn, _noret(fn.mod))


def _noret(mod):
    if not hasattr(mod, "_noret"):
        mod._noret = noreturn_funcs(mod)
    return mod._noret


def is_raise_site(stmt, fn):
    """A Raise statement, or an expression statement calling a helper that always raises."""
    if isinstance(stmt, ast.Raise):
        return True
    if isinstance(stmt, ast.Expr) and isinstance(stmt.value, ast.Call):
        k, p = resolve(stmt.value, fn)
        return k == "func" and bool(p) and all(g in _noret(fn.mod) for g in p)
    return False


# ----------------------------------------------------------------------------- formulas and facts
def _docless(body):
    return [s for s in body if not (isinstance(s, ast.Expr) and isinstance(s.value, ast.Constant))]


def _boolish(v, fn):
    if isinstance(v, (ast.Compare, ast.BoolOp)) or (isinstance(v, ast.UnaryOp) and isinstance(v.op, ast.Not)):
        return True
    if isinstance(v, ast.Constant) and isinstance(v.value, bool):
        return True
    if isinstance(v, ast.Call) and isinstance(v.func, ast.Name) and v.func.id in ("isinstance", "bool"):
        return True
    return isinstance(v, ast.Call) and _predicate_of(v, fn) is not None


def _bool_local(n, fn):
    """The boolean expression a local flag stands for: assigned exactly once, before the use, by a plain assignment."""
    if not isinstance(n.ctx, ast.Load) or n.id in _comp_bound(n) or getattr(n, "_fn", fn) is not fn:
        return None
    if _scope_of(n.id, fn) is not fn or n.id in fn.params:
        return None
    st = [x for x in stores_of(fn).get(n.id, []) if not any(isinstance(a, ast.comprehension) for a in ancestors(x))]
    if len(st) != 1:
        return None
    x, v = st[0], None
    p = x._parent
    if isinstance(p, ast.Assign) and x._field == "targets" and len(p.targets) == 1:
        v = p.value
    elif isinstance(p, ast.Tuple) and isinstance(p._parent, ast.Assign) and isinstance(p._parent.value, ast.Tuple) and \
            len(p._parent.value.elts) == len(p.elts) and not any(isinstance(e, ast.Starred) for e in p.elts):
        v = p._parent.value.elts[x._idx]
    if v is None or pos(x) >= pos(n) or not _boolish(v, fn):
        return None
    return v


def _predicate_of(call, fn):
    """(g, {param: argument node}) when `call` calls exactly one helper of the module whose body is `return <expr>`."""
    if any(isinstance(a, ast.Starred) for a in call.args) or any(k.arg is None for k in call.keywords):
        return None
    k, p = _resolve_basic(call, fn, ())
    if k != "func" or len(p) != 1:
        return None
    g = p[0]
    body = _docless(g.node.body)
    if len(body) != 1 or not isinstance(body[0], ast.Return) or body[0].value is None or g.node.args.vararg or g.node.args.kwarg:
        return None
    val = body[0].value
    if any(isinstance(x, (ast.Lambda, ast.Yield, ast.YieldFrom, ast.Await, ast.NamedExpr)) for x in ast.walk(val)):
        return None
    amap = dict(bind_args(call, g))
    params = g.params
    if g.cls and g.parent is None and params and params[0] in ("self", "cls"):
        if not isinstance(call.func, ast.Attribute):
            return None
        amap[params[0]] = call.func.value
    for pn in params:
        if pn not in amap:
            d = _param_default(g, pn)
            if d is None:
                return None
            amap[pn] = d
    bound = {x.id for c in ast.walk(val) if isinstance(c, ast.comprehension) for x in ast.walk(c.target) if isinstance(x, ast.Name)}
    if bound & set(params):
        return None
    for x in ast.walk(val):
        if isinstance(x, ast.Name) and x.id not in amap and x.id not in bound:
            sc = _scope_of(x.id, g)
            if sc is not None and sc not in list(_scope_chain(fn)):
                return None
    return g, amap


def _instantiate(expr, amap, at):
    """`expr` of a helper with its parameters replaced by the argument expressions, placed where `at` stands."""
    def repl(x):
        if isinstance(x, ast.Name) and isinstance(x.ctx, ast.Load) and x.id in amap:
            return clone(amap[x.id])
        return None
    return graft(clone(expr, repl), at)


def _inline_predicate(call, fn):
    r = _predicate_of(call, fn)
    if r is None:
        return None
    g, amap = r
    return _instantiate(_docless(g.node.body)[0].value, amap, call)


def _checker_tests(g):
    """Tests of a pure checking helper: its body is nothing but `if <test>: <always raises>` statements."""
    body = _docless(g.node.body)
    if not body or g.node.args.vararg or g.node.args.kwarg:
        return None
    tests = []
    for s in body:
        if isinstance(s, ast.Assert):
            t = ast.UnaryOp(op=ast.Not(), operand=s.test)       # `assert c` is `if not c: raise`
        elif isinstance(s, ast.If) and not s.orelse and _always(s.body, g, _noret(g.mod), raise_only=True):
            t = s.test
        else:
            return None
        if any(isinstance(x, (ast.Lambda, ast.Yield, ast.YieldFrom, ast.Await, ast.NamedExpr)) for x in ast.walk(t)):
            return None
        tests.append(t)
    return tests


def _post_call_tests(call, fn):
    """Instantiated tests that are known to be false after `call` returned (a call of a pure checking helper)."""
    if any(isinstance(a, ast.Starred) for a in call.args) or any(k.arg is None for k in call.keywords):
        return []
    k, p = _resolve_basic(call, fn, ())
    if k != "func" or len(p) != 1 or p[0] in _noret(p[0].mod):
        return []
    g = p[0]
    tests = _checker_tests(g)
    if not tests:
        return []
    amap = dict(bind_args(call, g))
    params = g.params
    if g.cls and g.parent is None and params and params[0] in ("self", "cls"):
        if not isinstance(call.func, ast.Attribute):
            return []
        amap[params[0]] = call.func.value
    for pn in params:
        if pn not in amap:
            d = _param_default(g, pn)
            if d is None:
                return []
            amap[pn] = d
    out = []
    for t in tests:
        for x in ast.walk(t):
            if isinstance(x, ast.Name) and x.id not in amap and x.id not in _comp_bound(x):
                sc = _scope_of(x.id, g)
                if sc is not None and sc not in list(_scope_chain(fn)):
                    return []
        out.append(_instantiate(t, amap, call))
    return out


# formula: ('lit', key, pol) | ('and', [f]) | ('or', [f])
# key: ('eq', l, r) ('in', l, r) ('isnone', x) ('isinst', x, (classes)) ('truthy', x) ('cmp', op, l, r)
class Forms:
    """Builds formulas from test expressions; remembers the node of every operand text.
    With a function context, a test is read for what it computes: a local that names a boolean expression (assigned
    once) stands for that expression, and a call of a helper whose body is `return <expr>` stands for that expression
    with the arguments substituted.  `deps[id(test)]` lists the nodes whose names the formula additionally reads."""

    def __init__(self, fn=None):
        self.nodes = {}
        self.fn = fn
        self.deps = {}
        self._deps = None
        self._depth = 0

    def t(self, n):
        s = text(n)
        self.nodes.setdefault(s, n)
        return s

    def mk(self, n):
        if self._deps is not None:
            return self._mk(n)
        self._deps = []
        try:
            f = self._mk(n)
            if self._deps:
                self.deps[id(n)] = self._deps
        finally:
            self._deps = None
        return f

    def _expand(self, n):
        """The expression a boolean-valued local / predicate-helper call stands for, or None."""
        if self.fn is None or self._depth > 6:
            return None
        v = None
        if isinstance(n, ast.Name):
            v = _bool_local(n, self.fn)
            if v is not None:
                self._deps.append(v)
        elif isinstance(n, ast.Call):
            v = _inline_predicate(n, self.fn)
            if v is not None:
                self._deps.append(n)
        return v

    def _mk(self, n):
        if isinstance(n, ast.BoolOp):
            return ("and" if isinstance(n.op, ast.And) else "or", [self._mk(v) for v in n.values])
        if isinstance(n, ast.UnaryOp) and isinstance(n.op, ast.Not):
            return neg(self._mk(n.operand))
        if isinstance(n, (ast.Name, ast.Call)):
            v = self._expand(n)
            if v is not None:
                self._depth += 1
                try:
                    return self._mk(v)
                finally:
                    self._depth -= 1
        if isinstance(n, ast.Compare):
            parts, left = [], n.left
            for op, right in zip(n.ops, n.comparators):
                parts.append(self._cmp(left, op, right))
                left = right
            return parts[0] if len(parts) == 1 else ("and", parts)
        if isinstance(n, ast.Call) and isinstance(n.func, ast.Name) and not n.keywords:
            if n.func.id == "isinstance" and len(n.args) == 2:
                c = n.args[1]
                elts = c.elts if isinstance(c, ast.Tuple) else [c]
                names = tuple(sorted(e.attr if isinstance(e, ast.Attribute) else text(e) for e in elts))
                return ("lit", ("isinst", self.t(n.args[0]), names), True)
            if n.func.id == "bool" and len(n.args) == 1:
                return self._mk(n.args[0])
        if isinstance(n, ast.Constant):
            return ("and", []) if n.value else ("or", [])
        return ("lit", ("truthy", self.t(n)), True)

    def _cmp(self, l, op, r):
        if isinstance(op, (ast.Eq, ast.NotEq)):
            if isinstance(l, ast.Constant) and not isinstance(r, ast.Constant):
                l, r = r, l
            return ("lit", ("eq", self.t(l), self.t(r)), isinstance(op, ast.Eq))
        if isinstance(op, (ast.In, ast.NotIn)):
            return ("lit", ("in", self.t(l), self.t(r)), isinstance(op, ast.In))
        if isinstance(op, (ast.Is, ast.IsNot)):
            if isinstance(r, ast.Constant) and r.value is None:
                return ("lit", ("isnone", self.t(l)), isinstance(op, ast.Is))
            return ("lit", ("is", self.t(l), self.t(r)), isinstance(op, ast.Is))
        return ("lit", ("cmp", type(op).__name__, self.t(l), self.t(r)), True)


def neg(f):
    if f[0] == "lit":
        return ("lit", f[1], not f[2])
    return ("or" if f[0] == "and" else "and", [neg(x) for x in f[1]])


class _Tagged(list):
    """append((formula, origin)) records the current tag as a third component."""
    tag = "enclosing"

    def append(self, item):
        list.append(self, (item[0], item[1], self.tag))


def raw_facts(node, fn, forms):
    """[(formula, origin test node, tag)] known to hold whenever `node` is evaluated (before invalidation).
    tag: 'enclosing' (a test the node is nested in), 'pred-raise' (an earlier `if c: raise`), 'pred' (an earlier
    `if c: return/continue/break`, or assert)."""
    out = _Tagged()
    child = node
    p = child._parent
    while p is not None and child is not fn.node:
        fld, idx = child._field, child._idx
        if isinstance(p, ast.If):
            if fld == "body":
                out.append((forms.mk(p.test), p.test))
            elif fld == "orelse":
                out.append((neg(forms.mk(p.test)), p.test))
        elif isinstance(p, ast.While) and fld == "body":
            out.append((forms.mk(p.test), p.test))
        elif isinstance(p, ast.IfExp):
            if fld == "body":
                out.append((forms.mk(p.test), p.test))
            elif fld == "orelse":
                out.append((neg(forms.mk(p.test)), p.test))
        elif isinstance(p, ast.BoolOp) and fld == "values":
            for v in p.values[:idx]:
                out.append((forms.mk(v) if isinstance(p.op, ast.And) else neg(forms.mk(v)), v))
        elif isinstance(p, (ast.ListComp, ast.SetComp, ast.GeneratorExp, ast.DictComp)) and fld in ("elt", "key", "value"):
            for g in p.generators:
                for c in g.ifs:
                    out.append((forms.mk(c), c))
        elif isinstance(p, ast.comprehension):
            comp = p._parent
            for g in comp.generators[:p._idx]:
                for c in g.ifs:
                    out.append((forms.mk(c), c))
            if fld == "ifs":
                for c in p.ifs[:idx]:
                    out.append((forms.mk(c), c))
        if isinstance(child, ast.stmt) and idx is not None:
            for s in getattr(p, fld)[:idx]:
                if isinstance(s, ast.If):
                    tb = terminates(s.body, fn)
                    te = terminates(s.orelse, fn) if s.orelse else False
                    nr = _noret(fn.mod)
                    if tb and not te:
                        out.tag = "pred-raise" if _always(s.body, fn, nr, raise_only=True) else "pred"
                        out.append((neg(forms.mk(s.test)), s.test))
                    elif te and not tb:
                        out.tag = "pred-raise" if _always(s.orelse, fn, nr, raise_only=True) else "pred"
                        out.append((forms.mk(s.test), s.test))
                    elif not tb and not te and forms.fn is not None:
                        # `if c: <checks>`: after it, c implies what the checks established (and not-c the else checks)
                        f = _after_if(s, fn, forms)
                        if f is not None:
                            out.tag = "pred-raise"
                            out.append((f, s))
                elif isinstance(s, ast.Assert):
                    out.tag = "pred-raise"
                    out.append((forms.mk(s.test), s.test))
                elif isinstance(s, ast.Expr) and isinstance(s.value, ast.Call) and forms.fn is not None:
                    # a call of a pure checking helper (`if c(params): raise`) is that check at the call site
                    for t in _post_call_tests(s.value, fn):
                        out.tag = "pred-raise"
                        f = neg(forms.mk(t))
                        forms.deps.setdefault(id(s.value), []).extend(forms.deps.pop(id(t), []))
                        out.append((f, s.value))
                elif isinstance(s, ast.For) and isinstance(s.target, ast.Name) and not s.orelse and \
                        isinstance(s.iter, (ast.Tuple, ast.List)) and \
                        all(isinstance(e, ast.Constant) for e in s.iter.elts):
                    # a checking loop over literal constants: unroll `if c(v): raise` for every v
                    for b in s.body:
                        if not (isinstance(b, ast.If) and not b.orelse and
                                _always(b.body, fn, _noret(fn.mod), raise_only=True)):
                            break
                        out.tag = "pred-raise"
                        for e in s.iter.elts:
                            out.append((_subst(neg(forms.mk(b.test)), s.target.id, repr(e.value), forms), b.test))
            out.tag = "enclosing"
        child, p = p, p._parent
    return out


def _after_block(stmts, fn, forms, depth=0):
    """Formulas that hold when the block has fallen through, as far as its raising checks tell (`if c: raise`, assert,
    calls of pure checking helpers, nested ifs).  None if the block assigns or loops (nothing is claimed then)."""
    out = []
    for s in stmts:
        if isinstance(s, ast.If):
            nr = _noret(fn.mod)
            tb = _always(s.body, fn, nr, raise_only=True)
            te = bool(s.orelse) and _always(s.orelse, fn, nr, raise_only=True)
            if tb and not te and not s.orelse:
                out.append(neg(forms.mk(s.test)))
            elif te and not tb:
                out.append(forms.mk(s.test))
            elif depth < 3 and not terminates(s.body, fn) and not (s.orelse and terminates(s.orelse, fn)):
                f = _after_if(s, fn, forms, depth + 1)
                if f is not None:
                    out.append(f)
            else:
                return None
        elif isinstance(s, ast.Assert):
            out.append(forms.mk(s.test))
        elif isinstance(s, ast.Expr) and isinstance(s.value, ast.Call):
            for t in _post_call_tests(s.value, fn):
                out.append(neg(forms.mk(t)))
        elif isinstance(s, (ast.Pass, ast.Expr)):
            continue
        else:
            return None
    return out


def _after_if(s, fn, forms, depth=0):
    fb = _after_block(s.body, fn, forms, depth)
    fe = _after_block(s.orelse, fn, forms, depth) if s.orelse else []
    if fb is None or fe is None or (not fb and not fe):
        return None
    t = forms.mk(s.test)
    return ("or", [("and", [t] + fb), ("and", [neg(t)] + fe)])


def _subst(f, name, repl, forms):
    """Formula with every free occurrence of variable `name` in operand texts replaced by `repl`."""
    pat = re.compile(r"(?<![\w.'\"])" + re.escape(name) + r"(?![\w'\"])")

    def tx(t):
        if not isinstance(t, str):
            return t
        n = pat.sub(repl, t)
        if n != t and n not in forms.nodes:
            try:
                forms.nodes[n] = ast.parse(n, mode="eval").body
            except SyntaxError:
                pass
        return n

    if f[0] == "lit":
        return ("lit", tuple(tx(x) if i else x for i, x in enumerate(f[1])), f[2])
    return (f[0], [_subst(x, name, repl, forms) for x in f[1]])


def stores_of(fn):
    m = getattr(fn, "_stores", None)
    if m is None:
        m = {}
        for n in fn.mod.nodes(fn):
            if isinstance(n, ast.Name) and isinstance(n.ctx, (ast.Store, ast.Del)):
                m.setdefault(n.id, []).append(n)
        fn._stores = m
    return m


def _comp_bound(n):
    """Names bound by comprehensions enclosing-or-inside node n (their own scope)."""
    out = set()
    for a in [n] + list(ancestors(n)):
        if isinstance(a, (ast.ListComp, ast.SetComp, ast.GeneratorExp, ast.DictComp)):
            for g in a.generators:
                out |= {x.id for x in ast.walk(g.target) if isinstance(x, ast.Name)}
    return out


def still_valid(origin, use, fn):
    """No store to a name read by the guard `origin` can reach `use` without passing the guard again."""
    names = {x.id for x in ast.walk(origin) if isinstance(x, ast.Name)}
    for a in ast.walk(origin):
        if isinstance(a, (ast.ListComp, ast.SetComp, ast.GeneratorExp, ast.DictComp)):
            for g in a.generators:
                names -= {x.id for x in ast.walk(g.target) if isinstance(x, ast.Name)}
    st = stores_of(fn)
    lu, lg = loops_of(use), loops_of(origin)
    for nm in names:
        for s in st.get(nm, ()):
            if isinstance(s._parent, ast.comprehension) or any(isinstance(a, ast.comprehension) for a in ancestors(s)):
                continue
            ls = loops_of(s)
            if any(L in lu and not any(L is g for g in lg) for L in ls):
                return False
            if pos(origin) < pos(s) < pos(use):
                return False
    return True


class Know:
    """Literal truths at a program point, closed under unit propagation and a small theory of
    equality / membership in constant sets / None-ness."""

    def __init__(self, mod, fn, env=None):
        self.mod, self.fn, self.env = mod, fn, dict(env or {})
        self.forms = Forms(fn)
        self.K = {}
        self.fs = []
        self.bad = False
        self.origins = []

    # -- constants
    def const(self, txt):
        if txt in self.env:
            return True, self.env[txt]
        n = self.forms.nodes.get(txt)
        if n is None:
            return False, None
        if isinstance(n, ast.Name) and self.fn is not None and (n.id in self.fn.params or n.id in stores_of(self.fn)):
            return False, None
        try:
            return True, lit(n, self.mod, self.fn.cls if self.fn else None)
        except (NotLit, TypeError):
            return False, None

    def cset(self, txt):
        ok, v = self.const(txt)
        if ok and isinstance(v, (tuple, list, frozenset, set, dict)):
            try:
                return frozenset(v)
            except TypeError:
                return None
        return None

    # -- building
    def add(self, f):
        if f[0] == "and":
            for x in f[1]:
                self.add(x)
        elif f[0] == "lit":
            self.assign(f[1], f[2])
        else:
            self.fs.append(f)

    def assign(self, key, val):
        cur = self.val(key)
        if cur is not None and cur != val:
            self.bad = True
        self.K[key] = val

    def assume_eq(self, subject, value):
        t = repr(value)
        self.forms.nodes.setdefault(t, ast.Constant(value))
        self.assign(("eq", subject, t), True)

    def propagate(self):
        changed = True
        while changed and not self.bad:
            changed = False
            for f in list(self.fs):
                r = self.simp(f)
                if r is True:
                    self.fs.remove(f)
                elif r is False:
                    self.bad = True
                elif r[0] == "lit":
                    self.fs.remove(f)
                    self.assign(r[1], r[2])
                    changed = True
                elif r[0] == "and":
                    self.fs.remove(f)
                    self.add(r)
                    changed = True
        return self

    # -- evaluation
    def simp(self, f):
        if f[0] == "lit":
            v = self.val(f[1])
            if v is None:
                return f
            return v == f[2]
        parts = []
        for x in f[1]:
            r = self.simp(x)
            if f[0] == "and":
                if r is False:
                    return False
                if r is True:
                    continue
            else:
                if r is True:
                    return True
                if r is False:
                    continue
            parts.append(r)
        if not parts:
            return f[0] == "and"
        if len(parts) == 1:
            return parts[0]
        return (f[0], parts)

    def holds(self, f):
        r = self.simp(f)
        return r if r in (True, False) else None

    def val(self, key):
        if key in self.K:
            return self.K[key]
        kind = key[0]
        if kind == "in":
            a, S = key[1], self.cset(key[2])
            oka, va = self.const(a)
            if S is not None and oka:
                try:
                    return va in S
                except TypeError:
                    return None
            if S is None:
                return None
            excluded = set()
            for k, v in self.K.items():
                if k[0] == "eq" and k[1] == a:
                    ok, c = self.const(k[2])
                    if ok and v:
                        return _hashable(c) and c in S
                    if ok and not v and _hashable(c):
                        excluded.add(c)
                elif k[0] == "in" and k[1] == a:
                    S2 = self.cset(k[2])
                    if S2 is not None and v:
                        if S2 <= S:
                            return True
                        if not (S2 & S):
                            return False
                    elif S2 is not None:
                        excluded |= S2
            if S and S <= excluded:
                return False
            return None
        if kind == "eq":
            a = key[1]
            ok, cv = self.const(key[2])
            oka, va = self.const(a)
            if ok and oka:
                return va == cv
            if not ok or not _hashable(cv):
                return None
            for k, v in self.K.items():
                if k[0] == "eq" and k[1] == a and v:
                    ok2, c2 = self.const(k[2])
                    if ok2:
                        return c2 == cv
                elif k[0] == "in" and k[1] == a:
                    S = self.cset(k[2])
                    if S is not None and ((v and cv not in S) or (not v and cv in S)):
                        return False
            return None
        if kind == "isnone":
            a = key[1]
            if self.K.get(("truthy", a)) is True:
                return False
            for k, v in self.K.items():
                if k[0] == "isinst" and k[1] == a and v:
                    return False
                if k[0] == "eq" and k[1] == a and v:
                    ok, c = self.const(k[2])
                    if ok:
                        return c is None
            return None
        if kind == "truthy":
            if self.K.get(("isnone", key[1])) is True:
                return False
            return None
        if kind == "isinst":
            for k, v in self.K.items():
                if k[0] == "isinst" and k[1] == key[1] and v and set(k[2]) <= set(key[2]):
                    return True
            if self.K.get(("isnone", key[1])) is True:
                return False
            return None
        return None

    def values(self, subject, vocab):
        """Subset of vocab that `subject` may equal without contradicting what is known."""
        out = set()
        for v in vocab:
            k = Know(self.mod, self.fn, self.env)
            k.forms = self.forms
            k.K = dict(self.K)
            k.fs = list(self.fs)
            k.assume_eq(subject, v)
            k.propagate()
            if not k.bad:
                out.add(v)
        return out


def _hashable(v):
    try:
        hash(v)
        return True
    except TypeError:
        return False


def know_at(node, fn, env=None, skip=()):
    k = Know(fn.mod, fn, env)
    for f, origin, tag in raw_facts(node, fn, k.forms):
        if tag in skip:
            continue
        if still_valid(origin, node, fn) and all(still_valid(d, node, fn) for d in k.forms.deps.get(id(origin), ())
                                                 if getattr(d, "_fn", None) is fn and not getattr(d, "_syn", False)):
            k.add(f)
            k.origins.append(origin)
    for f, nodes, names in entry_facts(fn, tuple(skip)):
        if all(_unchanged_since_entry(nm, node, fn) for nm in names):
            for t, n in nodes.items():
                k.forms.nodes.setdefault(t, n)
            k.add(f)
    return k.propagate()


# ----------------------------------------------------------------------------- facts that hold on entry of a helper
_OPERANDS = {"eq": (1, 2), "in": (1, 2), "is": (1, 2), "isnone": (1,), "truthy": (1,), "isinst": (1,), "cmp": (2, 3)}
ENTRY_POINTS = ("parse_string", "parse_file", "generate", "main")
_entry_busy = set()


def _unchanged_since_entry(name, node, fn):
    lu = loops_of(node)
    for st in stores_of(fn).get(name, ()):
        if any(isinstance(a, ast.comprehension) for a in ancestors(st)):
            continue
        if pos(st) < pos(node) or any(L in lu for L in loops_of(st)):
            return False
    return True


def _value_referenced(fn):
    """The function is used as a value somewhere (stored, passed on): its callers are then not all known by name."""
    name = fn.node.name
    for g in [None] + list(fn.mod.funcs.values()):
        for n in fn.mod.nodes(g):
            if isinstance(n, ast.Name) and n.id == name and isinstance(n.ctx, ast.Load):
                ref = func_of_ref(n, g)
            elif isinstance(n, ast.Attribute) and n.attr == name and isinstance(n.ctx, ast.Load):
                ref = func_of_ref(n, g) if g is not None else None
            else:
                continue
            if ref is fn and not (isinstance(n._parent, ast.Call) and n._field == "func"):
                return True
    return False


def _private(fn):
    """Callers outside the analysed entry points cannot be expected: nested functions, `_name` functions / methods, methods
    of `_Name` classes."""
    if fn.node.name in ENTRY_POINTS and fn.parent is None and fn.cls is None:
        return False
    if fn.parent is not None or fn.node.name.startswith("_") and not fn.node.name.startswith("__"):
        return True
    return bool(fn.cls) and fn.cls.startswith("_") and not fn.node.name.startswith("__")


def _translate_operand(t, forms, amap, caller, callee):
    """(text, node, names) of operand `t` of a caller's fact in the callee's vocabulary, or None."""
    node = forms.nodes.get(t)
    if node is None:
        try:
            node = ast.parse(t, mode="eval").body
        except SyntaxError:
            return None
    bound = {x.id for c in ast.walk(node) if isinstance(c, ast.comprehension) for x in ast.walk(c.target) if isinstance(x, ast.Name)}
    bound |= _comp_bound(node) if hasattr(node, "_parent") else set()
    names = set()
    ok = [True]
    chain = list(_scope_chain(callee.parent))

    def repl(x):
        if isinstance(x, ast.expr):
            tx = ast.unparse(x)
            if tx in amap:
                names.add(amap[tx])
                return ast.Name(id=amap[tx], ctx=ast.Load())
        if isinstance(x, ast.Name) and x.id not in bound:
            sc = _scope_of(x.id, caller)
            if sc is None:
                if x.id in callee.params or x.id in stores_of(callee):
                    ok[0] = False
            elif sc in chain and x.id not in callee.params and x.id not in stores_of(callee):
                names.add(x.id)
            else:
                ok[0] = False
        return None
    new = clone(node, repl)
    if not ok[0]:
        return None
    return ast.unparse(new), new, names


def _translate(f, forms, amap, caller, callee, nodes, names):
    """Formula f of the caller in the callee's vocabulary; None when nothing of it can be said there."""
    if f[0] == "lit":
        key = list(f[1])
        for i in _OPERANDS.get(key[0], ()):
            r = _translate_operand(key[i], forms, amap, caller, callee)
            if r is None:
                return None
            key[i] = r[0]
            nodes.setdefault(r[0], r[1])
            names |= r[2]
        if key[0] not in _OPERANDS:
            return None
        return ("lit", tuple(key), f[2])
    parts = [_translate(x, forms, amap, caller, callee, nodes, names) for x in f[1]]
    if f[0] == "or":
        return None if any(x is None for x in parts) else ("or", parts)
    return ("and", [x for x in parts if x is not None])


def _names_of(f, nodes, out=None):
    out = set() if out is None else out
    if f[0] == "lit":
        for i in _OPERANDS.get(f[1][0], ()):
            n = nodes.get(f[1][i])
            if n is not None:
                bound = {x.id for c in ast.walk(n) if isinstance(c, ast.comprehension) for x in ast.walk(c.target)
                         if isinstance(x, ast.Name)}
                out |= {x.id for x in ast.walk(n) if isinstance(x, ast.Name)} - bound
    else:
        for x in f[1]:
            _names_of(x, nodes, out)
    return out


def entry_facts(fn, skip=()):
    """[(formula, {operand text: node}, {names read})]: what holds whenever `fn` is entered, i.e. at every one of its call
    sites (arguments bound to parameters).  Only for helpers whose callers are all known (see _private); a helper
    that is also used as a value, or that takes part in a call cycle, gets none."""
    cache = _mods.setdefault(("entry", cfront.REPO), {})
    key = (fn, skip)
    if key in cache:
        return cache[key]
    if fn in _entry_busy or len(_entry_busy) > 6 or not _private(fn) or ("callidx", cfront.REPO) not in _mods:
        return []
    _entry_busy.add(fn)
    try:
        out = _entry_facts(fn, skip)
    finally:
        _entry_busy.discard(fn)
    if not _entry_busy:
        cache[key] = out
    return out


def _entry_facts(fn, skip):
    sites = _sites(fn)
    if not sites or _value_referenced(fn):
        return []
    per_site = []
    for caller, call in sites:
        if caller is fn or any(isinstance(a, ast.Starred) for a in call.args) or any(k.arg is None for k in call.keywords):
            return []
        k = know_at(call, caller, skip=skip)
        if k.bad:
            continue                    # the call site is unreachable
        amap = {}
        for pn, a in bind_args(call, fn).items():
            amap.setdefault(ast.unparse(a), pn)
        params = fn.params
        if fn.cls and fn.parent is None and params and params[0] in ("self", "cls") and isinstance(call.func, ast.Attribute):
            amap.setdefault(ast.unparse(call.func.value), params[0])
        nodes, fs = {}, []
        for key, val in k.K.items():
            names = set()
            f = _translate(("lit", key, val), k.forms, amap, caller, fn, nodes, names)
            if f is not None:
                fs.append(f)
        for f0 in k.fs:
            names = set()
            f = _translate(f0, k.forms, amap, caller, fn, nodes, names)
            if f is not None and f != ("and", []):
                fs.append(f)
        per_site.append((fs, nodes))
    if not per_site:
        return []
    fs0, nodes0 = per_site[0]
    keep = []
    for f in fs0:
        good = True
        for fs1, nodes1 in per_site[1:]:
            kk = Know(fn.mod, fn)
            kk.forms.nodes.update(nodes0)
            kk.forms.nodes.update(nodes1)
            for g in fs1:
                kk.add(g)
            kk.propagate()
            if kk.holds(f) is not True:
                good = False
                break
        if good:
            keep.append(f)
    return [(f, nodes0, _names_of(f, nodes0)) for f in keep]


# ----------------------------------------------------------------------------- schema model
def _ann_names(a):
    """Class / type names mentioned by an annotation, with None for NoneType; container element types."""
    if a is None:
        return set()
    if isinstance(a, ast.Constant):
        return {None} if a.value is None else ({a.value} if isinstance(a.value, str) else set())
    if isinstance(a, ast.Name):
        return {a.id}
    if isinstance(a, ast.Attribute):
        return {a.attr}
    if isinstance(a, ast.Subscript):
        head = _ann_names(a.value)
        inner = a.slice.elts if isinstance(a.slice, ast.Tuple) else [a.slice]
        if head & {"Optional"}:
            return _ann_names(inner[0]) | {None}
        if head & {"Union"}:
            out = set()
            for e in inner:
                out |= _ann_names(e)
            return out
        return head
    if isinstance(a, ast.BinOp) and isinstance(a.op, ast.BitOr):
        return _ann_names(a.left) | _ann_names(a.right)
    return set()


def _ann_elem(a):
    """Element annotation of list[X] / dict[K, X] (value type)."""
    if isinstance(a, ast.Subscript) and _ann_names(a.value) & {"list", "List", "dict", "Dict", "set", "tuple"}:
        inner = a.slice.elts if isinstance(a.slice, ast.Tuple) else [a.slice]
        head = _ann_names(a.value)
        if head & {"dict", "Dict"}:
            return inner[-1]
        return inner[0]
    return None


class SchemaModel:
    """What mjcf_schema.py itself declares: classes and their fields/methods, the three tables of
    Schema and their value classes, the vocabularies (attribute types, cardinalities, constraint verbs)."""

    def __init__(self):
        self.mod = m = load("mjcf_schema.py")
        self.fields = {}      # class -> {field: annotation node}
        self.methods = {}     # class -> {name: Func}
        for cname, c in m.classes.items():
            fl = {}
            for st in c.body:
                if isinstance(st, ast.AnnAssign) and isinstance(st.target, ast.Name):
                    fl[st.target.id] = st.annotation
            self.fields[cname] = fl
            self.methods[cname] = {q.split(".", 1)[1]: f for q, f in m.funcs.items()
                                   if f.cls == cname and f.parent is None}
        if "Schema" not in self.fields:
            raise AnalysisError("anchor vanished: class Schema")
        self.tables = {}
        for fld, ann in self.fields["Schema"].items():
            el = _ann_elem(ann)
            if el is not None and _ann_names(ann.value) & {"dict", "Dict"}:
                names = _ann_names(el) & set(m.classes)
                if len(names) == 1:
                    self.tables[fld] = next(iter(names))
        for t in ("enums", "groups", "elements"):
            if t not in self.tables:
                raise AnalysisError(f"anchor vanished: Schema.{t} table")
        self.member_union = set()
        for cname in ("Group", "Element"):
            ann = self.fields.get(cname, {}).get("members")
            if ann is None:
                raise AnalysisError(f"anchor vanished: {cname}.members")
            self.member_union |= _ann_names(_ann_elem(ann)) & set(m.classes)
        self._vocab()

    def _vocab(self):
        m = self.mod
        c = m.consts
        for k in ("SCALAR_TYPES", "CARDINALITIES", "_Parser.CONSTRAINT_VERBS"):
            if k not in c:
                raise AnalysisError(f"anchor vanished: constant {k}")
        self.cards = frozenset(c["CARDINALITIES"])
        self.verbs = frozenset(c["_Parser.CONSTRAINT_VERBS"])
        # attribute types: what parse_type can return as first tuple component
        f = m.func("_Parser.parse_type")
        types = set()
        for r in [n for n in m.nodes(f) if isinstance(n, ast.Return)]:
            if not (isinstance(r.value, ast.Tuple) and r.value.elts):
                raise AnalysisError("parse_type: return is not a tuple literal")
            subj = text(r.value.elts[0])
            k = know_at(r, f)
            sets = [k.cset(key[2]) for key, v in k.K.items() if key[0] == "in" and key[1] == subj and v]
            sets = [s for s in sets if s is not None]
            if not sets:
                raise AnalysisError("parse_type: type keyword of a return is not constrained to a constant set")
            s = sets[0]
            for x in sets[1:]:
                s &= x
            types |= s
        self.types = frozenset(types)
        if not frozenset(c["SCALAR_TYPES"]) <= self.types:
            raise AnalysisError("parse_type: scalar types not among the returned type keywords")

    def has_field(self, cls, name):
        return name in self.fields.get(cls, {}) or name in self.methods.get(cls, {})

    def optional_field(self, name):
        """Field `name` is declared Optional/Union-with-None in some class."""
        return any(None in _ann_names(fl[name]) for fl in self.fields.values() if name in fl)

    def field_types(self, name):
        out = set()
        for fl in self.fields.values():
            if name in fl:
                out |= _ann_names(fl[name])
        return out

    def vocab_of_field(self, cls_or_none, field):
        if field == "type":
            return self.types
        if field == "card":
            return self.cards
        if field == "kind" and cls_or_none in (None, "Constraint"):
            return self.verbs
        return None

    def method_elem(self, name):
        """Element classes of the list returned by the uniquely named method `name`."""
        out = set()
        for cname, ms in self.methods.items():
            if name in ms:
                el = _ann_elem(ms[name].node.returns)
                if el is not None:
                    out |= _ann_names(el) & set(self.mod.classes)
        return out


_model = {}


def model():
    if cfront.REPO not in _model:
        _model[cfront.REPO] = SchemaModel()
    return _model[cfront.REPO]


def table_of(node):
    """'enums' | 'groups' | 'elements' when node is an access `<schema>.T` / `self.T` (in class Schema)."""
    if isinstance(node, ast.Attribute) and node.attr in model().tables:
        return node.attr
    return None


def tables_of(node, fn):
    """The schema tables an expression can denote: `<schema>.T` itself, or a local / parameter / dispatch-table component
    that can only hold such accesses.  Empty set: not (known to be) a table."""
    t = table_of(node)
    if t:
        return {t}
    if isinstance(node, ast.Name) and fn is not None and _scope_of(node.id, fn) is not None:
        out = set()
        for n, lf, idx in leaves(node, fn):
            if isinstance(n, ast.Constant) and n.value is None:
                continue            # a dispatch miss: excluded (or reported) where the value is unpacked / called
            t = table_of(n) if idx is None else None
            if not t:
                return set()
            out.add(t)
        return out
    return set()


def table1(node, fn):
    """The one table `node` denotes (directly, or as a local alias `t = schema.elements`), else None."""
    ts = tables_of(node, fn)
    return next(iter(ts)) if len(ts) == 1 else None


# ----------------------------------------------------------------------------- class inference
def classes_of(expr, fn, at=None, depth=0):
    """Set of schema class names the value of `expr` may have (empty: unknown)."""
    sm = model()
    if depth > 8:
        return set()
    if isinstance(expr, ast.Name):
        if at is not None:
            k = know_at(at, fn)
            for key, v in k.K.items():
                if key[0] == "isinst" and key[1] == expr.id and v and set(key[2]) <= set(sm.mod.classes):
                    return set(key[2])
        return declared_classes(expr.id, fn, expr, depth)
    if isinstance(expr, ast.Subscript) and table_of(expr.value):
        return {sm.tables[table_of(expr.value)]}
    if isinstance(expr, ast.Call) and isinstance(expr.func, ast.Attribute):
        if expr.func.attr == "get" and table_of(expr.func.value):
            return {sm.tables[table_of(expr.func.value)]}
    if isinstance(expr, ast.Call):
        kind, p = resolve(expr, fn, (sm.mod,))
        if kind == "class" and p in sm.mod.classes:
            return {p}
        if kind == "func" and p:
            out = set()
            for g in p:
                if g.node.name == "__init__" and g.cls in sm.mod.classes:
                    out.add(g.cls)
                    continue
                names = _ann_names(g.node.returns)
                if None in names or not names or not names <= set(sm.mod.classes):
                    return set()
                out |= names
            return out
    if isinstance(expr, ast.Subscript) and isinstance(expr.value, ast.Name) and not isinstance(expr.slice, ast.Slice) \
            and isinstance(expr.ctx, ast.Load):
        return elem_classes(expr.value, fn, depth + 1)            # kids[i] : an element of a list of declarations
    if isinstance(expr, ast.Attribute) and isinstance(expr.value, ast.Name) and expr.value.id == "self" and fn is not None \
            and fn.cls and expr.attr not in sm.fields.get(fn.cls, {}):
        # a field of a helper class: what its methods assign to it
        out = set()
        for g in fn.mod.funcs.values():
            if g.cls != fn.cls:
                continue
            for n in g.mod.nodes(g):
                if isinstance(n, ast.Assign) and any(isinstance(t, ast.Attribute) and isinstance(t.value, ast.Name)
                                                      and t.value.id == "self" and t.attr == expr.attr for t in n.targets):
                    c = classes_of(n.value, g, n.value, depth + 1)
                    if not c:
                        return set()
                    out |= c
        return out
    if isinstance(expr, ast.Attribute):
        base = classes_of(expr.value, fn, at, depth + 1)
        out = set()
        for b in base:
            ann = sm.fields.get(b, {}).get(expr.attr)
            out |= _ann_names(ann) & set(sm.mod.classes)
        return out
    return set()


def declared_classes(name, fn, use, depth=0):
    """Classes of a variable from its binding(s): annotation, loop/comprehension source, assignment."""
    sm = model()
    scope = fn
    while scope is not None:
        if name in scope.params and name not in stores_of(scope):
            ann = _ann_names(scope.param_ann(name)) & set(sm.mod.classes)
            if ann or depth > 6:
                return ann
            out = set()
            for caller, call in _sites(scope):
                a = bind_args(call, scope).get(name)
                if a is None:
                    return set()
                c = classes_of(a, caller, a, depth + 2)
                if not c:
                    return set()
                out |= c
            return out
        if name in stores_of(scope) or name in scope.params:
            break
        scope = scope.parent
    if scope is None:
        return set()
    out = set()
    # comprehension binding enclosing the use wins
    for a in [use] + list(ancestors(use)):
        if isinstance(a, (ast.ListComp, ast.SetComp, ast.GeneratorExp, ast.DictComp)):
            for g in a.generators:
                if any(isinstance(x, ast.Name) and x.id == name for x in ast.walk(g.target)):
                    if isinstance(g.target, ast.Name):
                        return elem_classes(g.iter, scope, depth + 1)
                    return set()
    for a in ancestors(use):          # innermost enclosing for-loop binding the name is the reaching one
        if isinstance(a, ast.For) and isinstance(a.target, ast.Name) and a.target.id == name and \
                not inside(use, a.iter) and a._fn is scope:
            return elem_classes(a.iter, scope, depth + 1)
    for s in stores_of(scope)[name]:
        p = s._parent
        if any(isinstance(a, ast.comprehension) for a in ancestors(s)):
            continue
        if isinstance(p, ast.For) and s._field == "target":
            out |= elem_classes(p.iter, scope, depth + 1)
        elif isinstance(p, ast.Assign) and s._field == "targets":
            out |= classes_of(p.value, scope, None, depth + 1)
        elif isinstance(p, ast.Tuple) and isinstance(p._parent, ast.Assign) and p._field == "targets" and \
                not any(isinstance(e, ast.Starred) for e in p.elts):
            # a, b = (x, y)   /   a, b = helper(..) whose returns are tuple literals
            v = p._parent.value
            if isinstance(v, ast.Tuple) and len(v.elts) == len(p.elts):
                c = classes_of(v.elts[s._idx], scope, None, depth + 1)
            elif isinstance(v, ast.Call) and _tuple_return_elts(v, scope, len(p.elts)):
                c = set()
                for elts, g in _tuple_return_elts(v, scope, len(p.elts)):
                    ci = classes_of(elts[s._idx], g, elts[s._idx], depth + 1)
                    if not ci:
                        return set()
                    c |= ci
            else:
                return set()
            if not c:
                return set()
            out |= c
        else:
            return set()
    return out


def elem_classes(it, fn, depth=0):
    sm = model()
    if depth > 8:
        return set()
    if isinstance(it, ast.Call):
        f = it.func
        if isinstance(f, ast.Attribute):
            if f.attr == "values" and table_of(f.value):
                return {sm.tables[table_of(f.value)]}
            if f.attr not in BUILTIN_METHODS and sm.method_elem(f.attr):
                return sm.method_elem(f.attr)
        if isinstance(f, ast.Name) and f.id in ("list", "sorted", "tuple", "reversed") and it.args:
            return elem_classes(it.args[0], fn, depth + 1)
        if isinstance(f, ast.Name) or (isinstance(f, ast.Attribute) and isinstance(f.value, ast.Name) and f.value.id == "self"):
            # a helper of the module: what the lists it returns hold
            k, p = resolve(it, fn, (sm.mod,))
            out = set()
            if k == "func":
                for g in p:
                    el = _ann_elem(g.node.returns)
                    if el is not None and _ann_names(el) & set(sm.mod.classes):
                        out |= _ann_names(el) & set(sm.mod.classes)
                        continue
                    for r in g.mod.nodes(g):
                        if isinstance(r, ast.Return) and r.value is not None:
                            c = elem_classes(r.value, g, depth + 1)
                            if not c:
                                return set()
                            out |= c
            return out
        return set()
    if isinstance(it, ast.Attribute):
        if it.attr == "members":
            base = classes_of(it.value, fn, None, depth + 1)
            out = set()
            for b in base or {"Group", "Element"}:
                ann = sm.fields.get(b, {}).get("members")
                out |= _ann_names(_ann_elem(ann)) & set(sm.mod.classes) if ann is not None else set()
            return out
        return set()
    if isinstance(it, ast.BinOp) and isinstance(it.op, ast.Add):
        return elem_classes(it.left, fn, depth + 1) | elem_classes(it.right, fn, depth + 1)
    if isinstance(it, (ast.ListComp, ast.GeneratorExp)):
        gens = [g for g in it.generators if isinstance(it.elt, ast.Name) and isinstance(g.target, ast.Name)
                and it.elt.id == g.target.id]
        if gens:
            g = gens[-1]
            base = elem_classes(g.iter, fn, depth + 1)
            forms = Forms()
            for g2 in it.generators[it.generators.index(g):]:
                for c in g2.ifs:
                    f = forms.mk(c)
                    for x in (f[1] if f[0] == "and" else [f]):
                        if x[0] == "lit" and x[2] and x[1][0] == "isinst" and x[1][1] == it.elt.id:
                            base = set(x[1][2]) & set(sm.mod.classes)
            return base
        return set()
    if isinstance(it, ast.Name):
        out = set()
        scope = fn
        while scope is not None and it.id not in stores_of(scope) and it.id not in scope.params:
            scope = scope.parent
        if scope is not None and it.id in scope.params and it.id not in stores_of(scope) and ("callidx", cfront.REPO) in _mods:
            # a list handed to a helper: what every caller passes
            for caller, call in _sites(scope):
                a = bind_args(call, scope).get(it.id)
                c = elem_classes(a, caller, depth + 2) if a is not None and caller is not scope else set()
                if not c:
                    return set()
                out |= c
            return out
        if scope is None or it.id in scope.params:
            return set()
        for s in stores_of(scope)[it.id]:
            p = s._parent
            if isinstance(p, ast.Assign) and s._field == "targets":
                out |= elem_classes(p.value, scope, depth + 1)
            elif isinstance(p, ast.AugAssign):
                out |= elem_classes(p.value, scope, depth + 1)
        for n in scope.mod.nodes(scope):          # growth: X.append(v) / X.extend(vs) / X.insert(i, v)
            if isinstance(n, ast.Call) and isinstance(n.func, ast.Attribute) and isinstance(n.func.value, ast.Name) \
                    and n.func.value.id == it.id and n.args:
                if n.func.attr == "append":
                    out |= classes_of(n.args[0], scope, n.args[0], depth + 1)
                elif n.func.attr == "insert" and len(n.args) == 2:
                    out |= classes_of(n.args[1], scope, n.args[1], depth + 1)
                elif n.func.attr == "extend":
                    out |= elem_classes(n.args[0], scope, depth + 1)
        return out
    return set()


# ----------------------------------------------------------------------------- key provenance
GENERATORS = ("generate_xsd.py", "generate_mjcf_table.py", "generate_read_table.py", "generate_default_table.py",
              "generate_mjcf_map.py", "generate_dmcontrol.py", "generate_schema.py")


def universe():
    key = ("universe", cfront.REPO)
    if key not in _mods:
        fs = []
        for b in ("mjcf_schema.py",) + GENERATORS:
            fs.extend(load(b).funcs.values())
        _mods[key] = fs
    return _mods[key]


def _sites(target):
    """Call sites of `target` in the analysed modules, calls through dispatch variables / callable parameters included."""
    return _callidx()["sites"].get(target, [])


def name_key_tables():
    """Tables T for which the parser stores every declaration under its own name: `schema.T[v.name] = v`."""
    key = ("namekeys", cfront.REPO)
    if key not in _mods:
        sm = model()
        out = set()
        for f in sm.mod.funcs.values():
            for n in sm.mod.nodes(f):
                if isinstance(n, ast.Assign) and len(n.targets) == 1 and isinstance(n.targets[0], ast.Subscript):
                    t = n.targets[0]
                    if isinstance(t.slice, ast.Attribute) and t.slice.attr == "name" and \
                            text(t.slice.value) == text(n.value):
                        out |= tables_of(t.value, f)      # also through `table` selected from a dispatch table
        stores = set()
        for f in sm.mod.funcs.values():
            for n in sm.mod.nodes(f):
                if isinstance(n, ast.Subscript) and isinstance(n.ctx, ast.Store):
                    stores |= tables_of(n.value, f)
        _mods[key] = out, stores
    return _mods[key][0]


def origins(expr, fn, at=None, seen=None, depth=0):
    sm = model()
    seen = seen if seen is not None else set()
    at = at if at is not None else expr
    if depth > 12 or (id(expr), None) in seen:
        return set()
    seen.add((id(expr), None))
    if isinstance(expr, ast.Constant):
        return {("literal", expr.value)}
    if isinstance(expr, ast.Attribute):
        cls = classes_of(expr.value, fn, at)
        if cls:
            out = set()
            for c in cls:
                T = [t for t, vc in sm.tables.items() if vc == c]
                if expr.attr == "name" and T and T[0] in name_key_tables():
                    out.add(("key", T[0]))
                else:
                    out.add(("field", c, expr.attr))
            return out
        return {("unknown", text(expr))}
    if isinstance(expr, ast.Name):
        return _name_origins(expr.id, fn, expr, None, seen, depth)
    if isinstance(expr, ast.Call) and isinstance(expr.func, ast.Attribute) and expr.func.attr == "pop":
        return elem_origins(expr.func.value, fn, None, seen, depth + 1)
    if isinstance(expr, ast.Subscript) and isinstance(expr.slice, ast.Constant) and isinstance(expr.slice.value, int) \
            and expr.slice.value >= 0 and not table_of(expr.value) and isinstance(expr.value, ast.Name):
        return _pick(expr.value, fn, expr.slice.value, seen, depth + 1)        # component of a tuple-valued local
    return {("unknown", text(expr))}


def _tuple_return_elts(call, fn, n=None):
    """[(component list, Func)] of the tuple literals returned by the function(s) `call` calls, when every return of every
    target is a tuple literal (of length n, if given); else None."""
    k, p = resolve(call, fn, (model().mod,))
    if k != "func" or not p:
        return None
    out = []
    for g in p:
        rets = [r for r in g.mod.nodes(g) if isinstance(r, ast.Return)]
        if not rets:
            return None
        for r in rets:
            if not isinstance(r.value, ast.Tuple) or any(isinstance(e, ast.Starred) for e in r.value.elts) or \
                    (n is not None and len(r.value.elts) != n):
                return None
            out.append((r.value.elts, g))
    return out


def _scope_of(name, fn):
    scope = fn
    while scope is not None:
        if name in scope.params or name in stores_of(scope):
            return scope
        scope = scope.parent
    return None


def _name_origins(name, fn, use, idx, seen, depth):
    """Origins of the value of variable `name` at `use` (component idx if it holds a tuple)."""
    # comprehension binding
    for a in [use] + list(ancestors(use)):
        if isinstance(a, (ast.ListComp, ast.SetComp, ast.GeneratorExp, ast.DictComp)):
            for g in a.generators:
                tpos = _target_pos(g.target, name)
                if tpos is not False:
                    return elem_origins(g.iter, fn, tpos if idx is None else idx, seen, depth + 1)
    scope = _scope_of(name, fn)
    if scope is None:
        m = fn.mod
        if name in m.consts:
            return {("literal", m.consts[name])} if idx is None else {("unknown", name)}
        return {("unknown", name)}
    if name in scope.params and name not in stores_of(scope):
        sites = _sites(scope)
        if not sites:
            return {("unknown", f"parameter {name} of uncalled {scope.qual}")}
        out = set()
        for caller, call in sites:
            a = bind_args(call, scope).get(name)
            if a is None:
                out.add(("unknown", f"parameter {name} not passed"))
            elif idx is None:
                out |= origins(a, caller, a, seen, depth + 1)
            else:
                out |= _pick(a, caller, idx, seen, depth + 1)
        return out
    for a in ancestors(use):
        if isinstance(a, ast.For) and a._fn is scope and not inside(use, a.iter):
            tpos = _target_pos(a.target, name)
            if tpos is not False:
                return elem_origins(a.iter, scope, tpos if idx is None else idx, seen, depth + 1)
    out = set()
    for s in stores_of(scope)[name]:
        if any(isinstance(a, ast.comprehension) for a in ancestors(s)):
            continue
        top = s
        while not isinstance(top._parent, ast.stmt):
            top = top._parent
        st = top._parent
        if isinstance(st, ast.For) and top._field == "target":
            tpos = _target_pos(st.target, name)
            out |= elem_origins(st.iter, scope, tpos if idx is None else idx, seen, depth + 1)
        elif isinstance(st, ast.Assign):
            tgt = st.targets[0]
            if isinstance(tgt, ast.Name):
                out |= origins(st.value, scope, st.value, seen, depth + 1) if idx is None else \
                    _pick(st.value, scope, idx, seen, depth + 1)
            elif isinstance(tgt, (ast.Tuple, ast.List)):
                tpos = _target_pos(tgt, name)
                if isinstance(st.value, ast.Tuple) and isinstance(tpos, int) and len(st.value.elts) == len(tgt.elts):
                    out |= origins(st.value.elts[tpos], scope, st.value, seen, depth + 1)
                elif isinstance(st.value, ast.Call) and isinstance(st.value.func, ast.Attribute) and \
                        st.value.func.attr == "pop" and isinstance(tpos, int):
                    out |= elem_origins(st.value.func.value, scope, tpos, seen, depth + 1)
                elif isinstance(st.value, ast.Name) and isinstance(tpos, int) and idx is None:
                    out |= _pick(st.value, scope, tpos, seen, depth + 1)       # a, b = item
                elif isinstance(st.value, ast.Call) and isinstance(tpos, int) and idx is None and \
                        _tuple_return_elts(st.value, scope, len(tgt.elts)):
                    # a, b = helper(..): the component of every tuple the helper returns
                    for elts, g in _tuple_return_elts(st.value, scope, len(tgt.elts)):
                        out |= origins(elts[tpos], g, elts[tpos], seen, depth + 1)
                else:
                    out.add(("unknown", text(st.value)))
            else:
                out.add(("unknown", text(st)))
        else:
            out.add(("unknown", text(st) if st is not None else name))
    return out


def _target_pos(target, name):
    """None: target is exactly the name; int: position in a flat tuple target; False: not bound here."""
    if isinstance(target, ast.Name):
        return None if target.id == name else False
    if isinstance(target, (ast.Tuple, ast.List)):
        for i, e in enumerate(target.elts):
            if isinstance(e, ast.Name) and e.id == name:
                return i
    return False


def _pick(expr, fn, idx, seen, depth):
    if isinstance(expr, ast.Tuple) and idx < len(expr.elts):
        return origins(expr.elts[idx], fn, expr, seen, depth + 1)
    if isinstance(expr, ast.Name):
        return _name_origins(expr.id, fn, expr, idx, seen, depth + 1)
    if isinstance(expr, ast.Call) and isinstance(expr.func, ast.Attribute) and expr.func.attr == "pop":
        return elem_origins(expr.func.value, fn, idx, seen, depth + 1)
    if isinstance(expr, ast.Call):
        tr = _tuple_return_elts(expr, fn)
        if tr and all(idx < len(elts) for elts, _ in tr):
            out = set()
            for elts, g in tr:
                out |= origins(elts[idx], g, elts[idx], seen, depth + 1)
            return out
    return {("unknown", text(expr))}


def elem_origins(it, fn, idx=None, seen=None, depth=0):
    """Origins of the elements (component idx of tuple elements) produced by iterating / popping `it`."""
    sm = model()
    seen = seen if seen is not None else set()
    if depth > 12 or (id(it), idx) in seen:
        return set()
    seen.add((id(it), idx))

    def one(x, f):
        if idx is None:
            return origins(x, f, x, seen, depth + 1)
        return _pick(x, f, idx, seen, depth + 1)

    if isinstance(it, (ast.List, ast.Tuple, ast.Set)):
        out = set()
        for e in it.elts:
            out |= one(e, fn)
        return out
    if isinstance(it, (ast.ListComp, ast.GeneratorExp, ast.SetComp)):
        return one(it.elt, fn)
    if isinstance(it, ast.BinOp) and isinstance(it.op, (ast.Add, ast.BitOr)):
        return elem_origins(it.left, fn, idx, seen, depth + 1) | elem_origins(it.right, fn, idx, seen, depth + 1)
    if isinstance(it, ast.Attribute) and table_of(it):
        return {("key", table_of(it))} if idx is None else {("unknown", text(it))}
    if isinstance(it, ast.Call):
        f = it.func
        if isinstance(f, ast.Attribute) and f.attr in ("items", "keys", "values"):
            T = table_of(f.value)
            if T:
                if (f.attr == "keys" and idx is None) or (f.attr == "items" and idx == 0):
                    return {("key", T)}
                return {("inst", sm.tables[T])}
            try:
                d = lit(f.value, fn.mod, fn.cls)
            except NotLit:
                d = None
            if isinstance(d, dict) and ((f.attr == "keys" and idx is None) or (f.attr == "items" and idx == 0)):
                return {("literal", k) for k in d}
            return {("unknown", text(it))}
        if isinstance(f, ast.Name) and f.id in ("list", "sorted", "tuple", "reversed", "set", "frozenset") and it.args:
            return elem_origins(it.args[0], fn, idx, seen, depth + 1)
        k, p = resolve(it, fn, (sm.mod,))
        if k == "func":
            out = set()
            for g in p:
                el = _ann_elem(g.node.returns)
                if el is not None and _ann_names(el) & set(sm.mod.classes):
                    out |= {("inst", c) for c in _ann_names(el) & set(sm.mod.classes)}
                    continue
                rets = [n for n in g.mod.nodes(g) if isinstance(n, ast.Return) and n.value is not None]
                if not rets:
                    out.add(("unknown", text(it)))
                for r in rets:
                    out |= elem_origins(r.value, g, idx, seen, depth + 1)
            return out
        return {("unknown", text(it))}
    if isinstance(it, ast.Name):
        scope = _scope_of(it.id, fn)
        if scope is None:
            try:
                v = lit(it, fn.mod, fn.cls)
            except NotLit:
                return {("unknown", it.id)}
            vals = list(v)
            if idx is not None:
                vals = [x[idx] for x in vals if isinstance(x, tuple) and idx < len(x)]
            return {("literal", x) for x in vals}
        if it.id in scope.params and it.id not in stores_of(scope):
            out = set()
            for caller, call in _sites(scope):
                a = bind_args(call, scope).get(it.id)
                out |= elem_origins(a, caller, idx, seen, depth + 1) if a is not None else {("unknown", it.id)}
            return out or {("unknown", it.id)}
        out = set()
        for s in stores_of(scope)[it.id]:
            st = s._parent
            if isinstance(st, ast.Assign) and s._field == "targets":
                out |= elem_origins(st.value, scope, idx, seen, depth + 1)
            elif isinstance(st, ast.AugAssign):
                out |= elem_origins(st.value, scope, idx, seen, depth + 1)
            elif not any(isinstance(a, ast.comprehension) for a in ancestors(s)):
                out.add(("unknown", text(st)))
        for n in scope.mod.nodes(scope):
            out |= _grow(n, lambda v: isinstance(v, ast.Name) and v.id == it.id, scope, one, idx, seen, depth)
        return out
    if isinstance(it, ast.Attribute) and isinstance(it.value, ast.Name) and it.value.id == "self" and fn.cls:
        out = set()
        match = lambda v: isinstance(v, ast.Attribute) and isinstance(v.value, ast.Name) and \
            v.value.id == "self" and v.attr == it.attr
        for g in fn.mod.funcs.values():
            if g.cls != fn.cls:
                continue
            for n in g.mod.nodes(g):
                if isinstance(n, ast.Assign) and any(match(t) for t in n.targets):
                    out |= elem_origins(n.value, g, idx, seen, depth + 1)
                out |= _grow(n, match, g, None, idx, seen, depth)
        return out or {("unknown", text(it))}
    if isinstance(it, ast.Attribute):
        if it.attr == "members":
            return {("inst", c) for c in sm.member_union}
        return {("unknown", text(it))}
    return {("unknown", text(it))}


def _grow(n, match, fn, one, idx, seen, depth):
    """Contributions of `X.append(v)` / `X.extend(vs)` / `X.add(v)` / `X.insert(i, v)` statements to container X."""
    out = set()
    if isinstance(n, ast.Call) and isinstance(n.func, ast.Attribute) and match(n.func.value) and n.args:
        if n.func.attr in ("append", "add"):
            v = n.args[0]
            out |= origins(v, fn, v, seen, depth + 1) if idx is None else _pick(v, fn, idx, seen, depth + 1)
        elif n.func.attr == "insert" and len(n.args) == 2:
            v = n.args[1]
            out |= origins(v, fn, v, seen, depth + 1) if idx is None else _pick(v, fn, idx, seen, depth + 1)
        elif n.func.attr in ("extend", "update"):
            out |= elem_origins(n.args[0], fn, idx, seen, depth + 1)
    return out


# ----------------------------------------------------------------------------- validator guarantees
def raise_sites(fn):
    return [n for n in fn.mod.nodes(fn) if isinstance(n, ast.stmt) and is_raise_site(n, fn)]


def top_stmt(n, fn):
    """The statement of fn's own body that contains n."""
    while n._parent is not fn.node:
        n = n._parent
    return n


def _iter_tables(expr, fn, depth=0):
    """Tables whose values an iterable ranges over: schema.T.values(), list(..), a + b, single-assigned local."""
    if depth > 6:
        return None
    if isinstance(expr, ast.Call):
        f = expr.func
        if isinstance(f, ast.Attribute) and f.attr == "values" and table_of(f.value):
            return {table_of(f.value)}
        if isinstance(f, ast.Name) and f.id in ("list", "tuple", "sorted") and len(expr.args) == 1:
            return _iter_tables(expr.args[0], fn, depth + 1)
        return None
    if isinstance(expr, ast.BinOp) and isinstance(expr.op, ast.Add):
        a, b = _iter_tables(expr.left, fn, depth + 1), _iter_tables(expr.right, fn, depth + 1)
        return None if a is None or b is None else a | b
    if isinstance(expr, ast.Name):
        st = [s for s in stores_of(fn).get(expr.id, ())]
        if len(st) == 1 and isinstance(st[0]._parent, ast.Assign):
            return _iter_tables(st[0]._parent.value, fn, depth + 1)
    return None


def _own_loop(var, at, fn):
    """The innermost `for var in ...` / `for key, var in <table>.items()` of fn that encloses `at` (not in its iterable)."""
    for a in ancestors(at):
        if isinstance(a, ast.For) and a._fn is fn and not inside(at, a.iter):
            if isinstance(a.target, ast.Name) and a.target.id == var:
                return a
            if isinstance(a.target, ast.Tuple) and any(isinstance(e, ast.Name) and e.id == var for e in a.target.elts):
                return a
    return None


def _single_value(expr, fn):
    """The expression a single-assigned local stands for (else the expression itself)."""
    seen = 0
    while isinstance(expr, ast.Name) and seen < 4:
        st = stores_of(fn).get(expr.id, [])
        if len(st) != 1 or not (isinstance(st[0]._parent, ast.Assign) and st[0]._field == "targets") or expr.id in fn.params:
            break
        expr = st[0]._parent.value
        seen += 1
    return expr


def _comp_range(comp, fn, binds, uncond, at):
    """Range of the elements of `[m for c in <declarations> for m in c.members if isinstance(m, C)]` (any nesting of the
    same kind): ('item', kind, tables) / ('decl', tables), or None."""
    if not isinstance(comp, (ast.ListComp, ast.GeneratorExp)) or not isinstance(comp.elt, ast.Name):
        return None
    env = {}
    for g in comp.generators:
        if not isinstance(g.target, ast.Name):
            return None
        for c in g.ifs:                         # only isinstance tests of the variable just bound keep the range whole
            f = Forms().mk(c)
            lits = f[1] if f[0] == "and" else [f]
            if not all(x[0] == "lit" and x[2] and x[1][0] == "isinst" and x[1][1] == g.target.id for x in lits):
                return None
        it = g.iter
        r = None
        if isinstance(it, ast.Attribute) and it.attr == "members" and isinstance(it.value, ast.Name):
            o = env.get(it.value.id)
            r = ("item", "members", o[1]) if o and o[0] == "decl" else None
        elif isinstance(it, ast.Call) and isinstance(it.func, ast.Attribute) and it.func.attr == "children" and \
                isinstance(it.func.value, ast.Name) and not it.args:
            o = env.get(it.func.value.id)
            r = ("item", "children", o[1]) if o and o[0] == "decl" else None
        else:
            tabs = _iter_tables(it, fn)
            r = ("decl", frozenset(tabs)) if tabs is not None else None
        if r is None:
            return None
        env[g.target.id] = r
    return env.get(comp.elt.id)


def _exits_early(loop, fn):
    return any(isinstance(n, (ast.Break, ast.Return)) and n._fn is fn for n in ast.walk(loop))


def _range_of(var, at, fn, binds, uncond):
    """What variable `var` ranges over at `at`: ('decl', tables) -- every declaration of those tables -- or
    ('item', kind, tables) -- every member / child of every declaration of those tables -- or None.
    `binds` says what the parameters of fn range over (from the call sites); declaration loops are recognised only
    as top-level statements of a function that runs unconditionally (`uncond`).  No loop involved may exit early."""
    loop = _own_loop(var, at, fn)
    if loop is None:
        return binds.get(var) if var in fn.params and var not in stores_of(fn) else None
    if _exits_early(loop, fn) or loop.orelse:
        return None
    it = loop.iter
    if isinstance(loop.target, ast.Tuple):
        # for key, decl in <schema>.T.items()
        if not (len(loop.target.elts) == 2 and isinstance(loop.target.elts[1], ast.Name) and loop.target.elts[1].id == var
                and isinstance(it, ast.Call) and isinstance(it.func, ast.Attribute) and it.func.attr == "items"
                and table_of(it.func.value) and not it.args and uncond and loop._parent is fn.node):
            return None
        return ("decl", frozenset({table_of(it.func.value)}))
    src = _single_value(it, fn)
    if isinstance(src, (ast.ListComp, ast.GeneratorExp)):
        # the comprehension ranges over whole tables only if it is evaluated unconditionally
        if not (uncond and loop._parent is fn.node and (src is it or stmt_of(src)._parent is fn.node)
                and still_valid(src, loop, fn)):
            return None
        return _comp_range(src, fn, binds, uncond, loop)
    owner = None
    if isinstance(it, ast.Attribute) and it.attr == "members" and isinstance(it.value, ast.Name):
        kind, owner = "members", it.value.id
    elif isinstance(it, ast.Call) and isinstance(it.func, ast.Attribute) and it.func.attr == "children" \
            and isinstance(it.func.value, ast.Name) and not it.args:
        kind, owner = "children", it.func.value.id
    if owner is not None:
        o = _range_of(owner, loop, fn, binds, uncond)
        if o is None or o[0] != "decl":
            return None
        return ("item", kind, o[1])
    tabs = _iter_tables(it, fn)
    if tabs is None or not uncond or loop._parent is not fn.node:
        return None
    return ("decl", frozenset(tabs))


def validator_guarantees():
    """Membership guarantees established by _validate before it returns:
    [{cls, field, table, types, top, line, fn}] meaning: for every <cls> member/child of every declaration,
    (types is None or member.type in types) => member.<field> in schema.<table>.
    The check may sit in _validate itself or in helpers it calls (per declaration, per member, or once): what a
    helper's parameters range over is carried from the call site, conditions on the way are facts at the raise."""
    key = ("guar", cfront.REPO)
    if key in _mods:
        return _mods[key]
    sm = model()
    m = sm.mod
    V = m.func("_validate")
    out = []
    weak = _mods.setdefault(("guar-weak", cfront.REPO), [])
    done = set()

    def plain(k, var):
        """Nothing but isinstance tests of `var` (and tests of its .type, which the callee's entry facts carry on and
        which become the type condition of the guarantee) is assumed."""
        return not k.fs and all((k2[0] == "isinst" and k2[1] == var) or
                                (var is not None and k2[0] in ("eq", "in") and k2[1] == f"{var}.type") for k2 in k.K)

    def scan(fn, binds, uncond, top, depth):
        for st in raise_sites(fn):
            k = know_at(st, fn, skip=("pred-raise",))
            mem = [(key, v) for key, v in k.K.items() if key[0] == "in" and not v and
                   table_of(k.forms.nodes.get(key[2])) and isinstance(k.forms.nodes.get(key[1]), ast.Attribute)]
            for (key, _) in mem:
                kn = k.forms.nodes[key[1]]
                if not isinstance(kn.value, ast.Name):
                    continue
                var = kn.value.id
                cls = classes_of(kn.value, fn, st)
                if len(cls) != 1:
                    continue
                cls = next(iter(cls))
                types = None
                extra = []
                for k2, v2 in k.K.items():
                    if k2 == key:
                        continue
                    if k2[0] == "isinst" and k2[1] == var:
                        continue
                    if k2[0] in ("eq", "in") and k2[1] == f"{var}.type":
                        types = frozenset(k.values(f"{var}.type", sm.types))
                        continue
                    extra.append(k2)
                rng = None if (extra or k.fs) else _range_of(var, st, fn, binds, uncond)
                need = {"members": {"groups", "elements"}, "children": {"elements"}}.get(rng[1]) if rng and rng[0] == "item" else None
                if need is None or not need <= rng[2]:
                    # a check of this field against this table exists, but it is not shown to run for every declaration
                    # (extra conditions, a loop shape that is not understood): consumers relying on it are undecided
                    weak.append({"cls": cls, "field": kn.attr, "table": table_of(k.forms.nodes[key[2]]), "line": st.lineno,
                                 "fn": fn.qual})
                    continue
                t = top if top is not None else V.node.body.index(top_stmt(st, V))
                out.append({"cls": cls, "field": kn.attr, "table": table_of(k.forms.nodes[key[2]]), "types": types,
                            "top": t, "line": st.lineno, "fn": fn.qual})
        if depth >= 4:
            return
        for c in calls_in(fn):
            kind, p = resolve(c, fn)
            if kind != "func" or len(p) != 1 or p[0].mod is not m or p[0] is fn or p[0] in _noret(m) or \
                    any(isinstance(a, ast.Starred) for a in c.args):
                continue
            g = p[0]
            kc = know_at(c, fn, skip=("pred-raise",))
            gb = {}
            for pname, a in bind_args(c, g).items():
                if isinstance(a, ast.Name):
                    r = _range_of(a.id, c, fn, binds, uncond)
                    if r is not None and plain(kc, a.id):
                        gb[pname] = r
            g_uncond = uncond and stmt_of(c)._parent is fn.node and isinstance(stmt_of(c), ast.Expr) and plain(kc, None)
            if not gb and not g_uncond:
                continue
            sig = (g, tuple(sorted(gb.items())), g_uncond)
            if sig in done:
                continue
            done.add(sig)
            scan(g, gb, g_uncond, top if top is not None else V.node.body.index(top_stmt(c, V)), depth + 1)

    scan(V, {}, True, None, 0)
    # checks in helpers the scan did not enter (called under conditions, too deep): weak as well
    for fn in closure([V]):
        for st in raise_sites(fn):
            k = know_at(st, fn, skip=("pred-raise",))
            for key2, v in k.K.items():
                kn = k.forms.nodes.get(key2[1]) if key2[0] == "in" and not v else None
                if isinstance(kn, ast.Attribute) and table_of(k.forms.nodes.get(key2[2])):
                    for c in classes_of(kn.value, fn, st) or {None}:
                        e = {"cls": c, "field": kn.attr, "table": table_of(k.forms.nodes[key2[2]]), "line": st.lineno, "fn": fn.qual}
                        if not any(g["cls"] == e["cls"] and g["field"] == e["field"] and g["table"] == e["table"] for g in out + weak):
                            weak.append(e)
    _mods[key] = out
    return out


def weak_guarantee(origin, table):
    """A check of `origin` = ('field', cls, field) against schema.<table> exists in the validator's closure but was not
    shown to cover every declaration: a lookup that would rely on it is undecided rather than violating."""
    validator_guarantees()
    return any(origin[0] == "field" and g["field"] == origin[2] and g["table"] == table and g["cls"] in (origin[1], None)
               for g in _mods.get(("guar-weak", cfront.REPO), []))


def validate_postdominates():
    """[(construct, ok, line, msg)] : _validate runs on the parsed schema before parse_string / parse_file return it."""
    m = model().mod
    res = []
    ps = m.func("parse_string")
    rets = [n for n in m.nodes(ps) if isinstance(n, ast.Return)]
    ok, msg, line = True, "", ps.node.lineno
    body = ps.node.body
    for r in rets:
        line = r.lineno
        if not (isinstance(r.value, ast.Name) and r._parent is ps.node):
            ok, msg = False, "return is not a top-level `return <schema variable>`"
            break
        name = r.value.id
        st = stores_of(ps).get(name, [])
        if len(st) != 1 or not isinstance(st[0]._parent, ast.Assign) or st[0]._parent._parent is not ps.node:
            ok, msg = False, f"`{name}` is not assigned exactly once at top level"
            break
        a = st[0]._parent
        between = body[body.index(a) + 1: body.index(r)]
        val = [s for s in between if isinstance(s, ast.Expr) and isinstance(s.value, ast.Call)
               and resolve(s.value, ps)[0] == "func" and resolve(s.value, ps)[1] == [m.func("_validate")]
               and s.value.args and isinstance(s.value.args[0], ast.Name) and s.value.args[0].id == name]
        if not val:
            ok, msg = False, f"no top-level `_validate({name})` between the parse and the return"
            break
    if not rets:
        ok, msg = False, "parse_string has no return"
    res.append(("parse_string:_validate-before-return", ok, line, msg))
    pf = m.func("parse_file")
    rets = [n for n in m.nodes(pf) if isinstance(n, ast.Return)]
    ok, msg, line = bool(rets), "parse_file has no return", pf.node.lineno
    for r in rets:
        line = r.lineno
        if not (isinstance(r.value, ast.Call) and resolve(r.value, pf) == ("func", [ps])):
            ok, msg = False, "parse_file returns something other than parse_string(...)"
    res.append(("parse_file:returns-parse_string", ok, line, "" if ok else msg))
    return res


# ----------------------------------------------------------------------------- reaching stores
def reaching(name, use, fn):
    """Stores to local `name` that may reach `use` (structured approximation: the latest store that dominates the
    use kills earlier ones; later stores reach only around a loop that does not contain the dominating store)."""
    stores = [s for s in stores_of(fn).get(name, []) if not any(isinstance(a, ast.comprehension) for a in ancestors(s))]
    anc = {id(a) for a in ancestors(use)}
    dom = None
    for s in stores:
        st = stmt_of(s)
        if isinstance(st, (ast.For, ast.While, ast.If, ast.With, ast.Try)) and not (isinstance(st, ast.For) and inside(s, st.target)):
            continue
        if isinstance(st, ast.For):
            # loop variable: dominates uses inside the loop body
            if id(st) in anc and not inside(use, st.iter) and (dom is None or pos(s) > pos(dom)):
                dom = s
            continue
        if id(st._parent) in anc and pos(st) < pos(use) and not inside(use, st):
            # a direct statement of a block enclosing the use, before it
            blk_owner = st._parent
            # the use must be in the same field list (body vs orelse) or deeper in a later sibling
            sib = use
            while sib._parent is not blk_owner:
                sib = sib._parent
            if sib._field == st._field and (dom is None or pos(s) > pos(dom)):
                dom = s
    out = []
    lu = loops_of(use)
    for s in stores:
        if s is dom:
            out.append(s)
        elif dom is None:
            out.append(s)
        elif pos(dom) < pos(s) < pos(use):
            out.append(s)
        elif pos(s) > pos(use) and any(L in lu and not inside(dom, L) for L in loops_of(s)):
            out.append(s)
    return out


# ----------------------------------------------------------------------------- "cannot decide" is not a violation
class Undecided:
    """Obligations the analyser could not interpret (a value it cannot trace, a call it cannot resolve).  They are not
    VIOLATIONs: if the run has no definite violation to report, it ends as ANALYSIS-ERROR (exit 2, never a pass)."""

    def __init__(self):
        self.items = []

    def add(self, rule, construct, file, line, msg):
        self.items.append({"rule": rule, "construct": str(construct), "where": f"{file}:{line}", "msg": msg})

    def finish(self, res):
        if not self.items:
            return
        res.extra["undecided"] = self.items
        from .report import load_known
        known = {(k.get("rule"), k.get("construct")) for k in load_known()
                 if k.get("property") == res.pid and k.get("status", "known") == "known"}
        if any((v["rule"], v["construct"]) not in known for v in res.violations):
            return                      # a definite violation is the more useful verdict
        raise AnalysisError("cannot decide: " + "; ".join(
            f"{u['where']} {u['rule']} {u['construct']}: {u['msg']}" for u in self.items[:6]) +
            (f" (+{len(self.items) - 6} more)" if len(self.items) > 6 else ""))
