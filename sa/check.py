"""CLI: python3-vt -m sa.check <Cxx> [--tier quick|thorough] [--replay path]

exit 0: property held on everything analysed (KNOWN-FINDING lines allowed)
exit 1: VIOLATION property=<id> replay=<path>
exit 2: ANALYSIS-ERROR (the analyser could not decide; never a pass)
"""
from __future__ import annotations

import argparse
import importlib
import json
import os
import sys
import traceback

from .cfront import AnalysisError
from .report import Result


def main(argv=None):
    ap = argparse.ArgumentParser()
    ap.add_argument("pid")
    ap.add_argument("--tier", default=os.environ.get("VERIF_TIER", "quick"))
    ap.add_argument("--replay", default=None)
    ap.add_argument("--no-evidence", action="store_true", help="self-test runs on scratch copies: do not write evidence")
    a = ap.parse_args(argv)
    tier = a.tier if a.tier in ("quick", "thorough") else "quick"
    pid = a.pid.upper()
    code = 2
    try:
        try:
            mod = importlib.import_module(f"sa.props.{pid.lower()}")
        except ModuleNotFoundError as e:
            if e.name == f"sa.props.{pid.lower()}":
                print(f"ANALYSIS-ERROR property={pid}: no checker registered")
                return 2
            raise
        res = Result(pid, tier, getattr(mod, "LEVEL", "other"))
        res.write_evidence = not a.no_evidence
        mod.run(res, tier)
        if tier == "thorough" and not a.no_evidence:
            if hasattr(mod, "selftest"):
                mod.selftest(res)
            from . import selftest as _st
            _st.run(pid, res)
            if pid in ("C14", "C16", "C22"):
                from . import selftest_finite as _sf
                _sf.run(pid, res)
            _st.run_stored(pid, res)
        code = res.finish()
        if a.replay:
            with open(a.replay) as f:
                rp = json.load(f)
            hit = [v for v in res.violations if v["rule"] == rp.get("rule") and v["construct"] == rp.get("construct")]
            print(f"replay: {'reproduced' if hit else 'not reproduced'} rule={rp.get('rule')} construct={rp.get('construct')}")
            code = 1 if hit else 0
    except AnalysisError as e:
        print(f"ANALYSIS-ERROR property={pid}: {e}")
        code = 2
    except Exception:
        traceback.print_exc()
        print(f"ANALYSIS-ERROR property={pid}: internal error in the analyser (see traceback)")
        code = 2
    sys.stdout.flush()
    sys.stderr.flush()
    os._exit(code)


if __name__ == "__main__":
    main()
