"""R-SENSOR: structure of the sensor pipeline (engine_sensor.c) against the compiler's tables.

  switch_groups     case-label groups of a switch (fall-through aware)
  stage tables      compiler sensorNeedstage (C++ AST), engine dispatcher + per-stage switches, sensorSize
  slice custody     every call of a function of the *slice family* (functions with one `int` index and one `mjtNum*`
                    slice parameter that forward them unchanged to the per-stage compute functions / the cutoff function)
                    passes either its own (index, slice) pair or `d->sensordata + m->sensor_adr[I]` / a history slot of I
                    with the very I it passes as index; found in custody views (private helpers expanded inside their
                    callers, nested) and enumerated as distinct deliveries (function, callee, index, slice)
  cutoff            typestate: a compute call for (I, S) is followed by the cutoff call for (I, S) on every returning path;
                    after a sensor callback (user / plugin) a sweep over all sensors applies the cutoff under guards that
                    are implied by the condition under which the callback ran
  lazy              per case label T of a stage switch, exploring the function with `type == T` decided: every read of a
                    field written by a lazily evaluated producer (directly or in the closure of a callee) happens with the
                    producer's flag known set (`if (!d->flg_x) producer(m, d)` or a test of the flag)
"""
from __future__ import annotations

from . import cir, modref, paths
from .cfront import AnalysisError


# ----------------------------------------------------------------------------------------------- switches

def enum_of(n):
    """Name of the enumerator an expression reduces to (through casts / ConstantExpr), else None."""
    for x in cir.walk(n):
        if x.get("k") == "DeclRefExpr" and (x.get("ref") or {}).get("k") == "EnumConstantDecl":
            return x["ref"]["n"]
        if x.get("k") not in cir.TRANSPARENT and x.get("k") not in ("ConstantExpr", "CaseStmt"):
            return None
    return None


def _flatten(body):
    flat = []

    def add(st):
        if st is None:
            return
        if st.get("k") in ("CaseStmt", "DefaultStmt"):
            flat.append(("label", st))
            kids = cir.kids(st)
            add(kids[-1] if kids else None)
        else:
            flat.append(("stmt", st))
    if body is not None and body.get("k") == "CompoundStmt":
        for st in cir.kids(body):
            add(st)
    else:
        add(body)
    return flat


def _ends(st):
    """statement unconditionally leaves the switch"""
    k = st.get("k")
    if k in ("BreakStmt", "ReturnStmt", "ContinueStmt"):
        return True
    if k == "CompoundStmt":
        ks = [x for x in cir.kids(st) if x is not None]
        return bool(ks) and _ends(ks[-1])
    return False


def label_name(lab):
    if lab.get("k") == "DefaultStmt":
        return "<default>"
    kids = cir.kids(lab)
    return enum_of(kids[0]) if kids else None


def switch_groups(sw):
    """{label name: [statements executed when the switch enters at that label]} (+ order list of labels)"""
    c = [x for x in cir.kids(sw) if x is not None]
    flat = _flatten(c[-1])
    groups, order = {}, []
    open_ = []
    for t, st in flat:
        if t == "label":
            name = label_name(st)
            if name is None:
                raise AnalysisError(f"case label at line {st.get('line')} is not an enumerator")
            if name in groups:
                raise AnalysisError(f"duplicate case label {name}")
            groups[name] = {"label": st, "stmts": []}
            order.append(name)
            open_.append(name)
        else:
            for name in open_:
                groups[name]["stmts"].append(st)
            if _ends(st):
                open_ = []
    return groups, order


def switches_on(fn, pred):
    out = []
    for n in cir.walk(fn):
        if n.get("k") == "SwitchStmt":
            c = [x for x in cir.kids(n) if x is not None]
            if pred(c[0]):
                out.append(n)
    return out


def local_decls(fn):
    """(decl by id, number of writes by id) for params and locals of fn (address-taken counts as a write)."""
    decls, count = {}, {}
    for n in cir.walk(fn):
        if n.get("k") in ("VarDecl", "ParmVarDecl"):
            decls[n.get("id")] = n
    for n in cir.walk(fn):
        k = n.get("k")
        t = None
        if (k == "BinaryOperator" and n.get("op") == "=") or k == "CompoundAssignOperator" or \
                (k == "UnaryOperator" and n.get("op") in ("++", "--", "&")):
            t = cir.strip(cir.kids(n)[0])
        if t is not None and t.get("k") == "DeclRefExpr":
            rid = (t.get("ref") or {}).get("id")
            count[rid] = count.get(rid, 0) + 1
    return decls, count


def resolved(n, decls, count, depth=0):
    """Canonical text of an expression with single-assignment initialised locals substituted by their initialiser."""
    n = cir.strip(n)
    if n is None:
        return ""
    if n.get("k") == "DeclRefExpr" and depth < 6:
        rid = (n.get("ref") or {}).get("id")
        d = decls.get(rid)
        if d is not None and d.get("k") == "VarDecl" and count.get(rid, 0) == 0 and d.get("init"):
            init = [x for x in cir.kids(d) if x is not None and not x.get("k", "").endswith("Attr")]
            if init and cir.is_pure(init[-1]) or (init and cir.is_call(cir.strip(init[-1]))):
                return resolved(init[-1], decls, count, depth + 1)
        return cir.text(n)
    k = n.get("k")
    c = cir.kids(n)
    if k == "BinaryOperator":
        a, b = resolved(c[0], decls, count, depth), resolved(c[1], decls, count, depth)
        pa = cir.strip(c[0])
        pb = cir.strip(c[1])
        if pa is not None and pa.get("k") in ("BinaryOperator", "ConditionalOperator") and _needs_paren(pa, n):
            a = f"({a})"
        if pb is not None and pb.get("k") in ("BinaryOperator", "ConditionalOperator"):
            b = f"({b})" if _needs_paren(pb, n) or pb.get("k") == "ConditionalOperator" else b
        return f"{a} {n.get('op')} {b}"
    if k == "ArraySubscriptExpr":
        return f"{resolved(c[0], decls, count, depth)}[{resolved(c[1], decls, count, depth)}]"
    if k == "MemberExpr":
        return resolved(c[0], decls, count, depth) + ("->" if n.get("arrow") else ".") + str(n.get("n"))
    if k == "UnaryOperator":
        inner = resolved(c[0], decls, count, depth)
        ck = cir.strip(c[0])
        if ck is not None and ck.get("k") in ("BinaryOperator", "ConditionalOperator"):
            inner = f"({inner})"
        return inner + n.get("op") if n.get("isPostfix") else n.get("op") + inner
    if cir.is_call(n):
        return f"{cir.text(c[0])}({', '.join(resolved(a, decls, count, depth) for a in c[1:])})"
    return cir.text(n)


def _needs_paren(child, parent):
    return cir._BINPREC.get(child.get("op"), 20) < cir._BINPREC.get(parent.get("op"), 0)


# ----------------------------------------------------------------------------------------------- stage tables

def compiler_stage_table(fn):
    """sensorNeedstage: ({enumerator: stage enumerator}, default stage or None)"""
    sws = switches_on(fn, lambda c: True)
    if len(sws) != 1:
        raise AnalysisError(f"{fn.get('n')}: expected exactly one switch, found {len(sws)}")
    groups, order = switch_groups(sws[0])
    table = {}
    for name, g in groups.items():
        ret = None
        for st in g["stmts"]:
            if st.get("k") == "ReturnStmt":
                ret = enum_of(cir.kids(st)[0]) if cir.kids(st) else None
                break
        if ret is None:
            raise AnalysisError(f"{fn.get('n')}: case {name} does not return a stage enumerator")
        table[name] = ret
    default = None
    for st in cir.kids(cir.body(fn)):
        if st is not None and st.get("k") == "ReturnStmt":
            default = enum_of(cir.kids(st)[0])
    return table, default


def return_table(fn):
    """switch whose cases return: {enumerator: canonical text of the returned expression}"""
    sws = switches_on(fn, lambda c: True)
    if len(sws) != 1:
        raise AnalysisError(f"{fn.get('n')}: expected exactly one switch, found {len(sws)}")
    groups, order = switch_groups(sws[0])
    table = {}
    for name, g in groups.items():
        for st in g["stmts"]:
            if st.get("k") == "ReturnStmt":
                table[name] = cir.text(cir.kids(st)[0]) if cir.kids(st) else ""
                break
        else:
            table[name] = None
    return table


def index_and_slice(fn):
    """(index param name, slice param name) if fn has exactly one `int` and one non-const `mjtNum *` parameter."""
    ints = [p for p in cir.params(fn) if (p.get("t") or "") == "int"]
    ptrs = [p for p in cir.params(fn) if (p.get("t") or "").replace(" ", "") in ("mjtNum*", "mjtNum*restrict")]
    if len(ints) == 1 and len(ptrs) == 1:
        ps = [p.get("n") for p in cir.params(fn)]
        return ints[0].get("n"), ptrs[0].get("n"), ps.index(ints[0].get("n")), ps.index(ptrs[0].get("n"))
    return None


def type_switch(fn, index_param):
    """The switch of a per-stage compute function on the type of sensor `index_param`:
    (switch node, type variable name).  The switch operand must be m->sensor_type[index_param] (possibly via a local)."""
    decls, count = local_decls(fn)
    want = f"->sensor_type[{index_param}]"
    hits = []
    for sw in switches_on(fn, lambda c: True):
        c = [x for x in cir.kids(sw) if x is not None]
        txt = resolved(c[0], decls, count)
        if txt.endswith(want):
            v = cir.strip(c[0])
            hits.append((sw, cir.text(v) if v is not None and v.get("k") == "DeclRefExpr" else None))
    if len(hits) != 1:
        raise AnalysisError(f"{fn.get('n')}: expected one switch on m->sensor_type[{index_param}], found {len(hits)}")
    return hits[0]


def dispatcher_table(fn, anchors):
    """In the function that calls all anchors: {stage enumerator: anchor} from its switch on m->sensor_needstage[i]."""
    decls, count = local_decls(fn)
    for sw in switches_on(fn, lambda c: "->sensor_needstage[" in resolved(c, decls, count)):
        groups, order = switch_groups(sw)
        table = {}
        for name, g in groups.items():
            called = []
            for st in g["stmts"]:
                called += [cir.callee(c) for c in cir.calls(st) if cir.callee(c) in anchors]
            if name != "<default>":
                table[name] = called
        return table, sw
    raise AnalysisError(f"{fn.get('n')}: no switch on m->sensor_needstage[...]")


# ----------------------------------------------------------------------------------------------- custody of the slice

HISTORY_SLOT = {
    "mju_historyInsert": "returns the slot of the history ring buffer rooted at its first argument (the sensor's own "
                         "history block d->history + m->sensor_historyadr[i])",
}


def custody_views(unit, family):
    """{function name: view} for the functions of this TU through which an (index, slice) pair reaches the slice family.

    Private helpers (static, defined in the TU's own file, address never taken, not themselves in the family) are analysed
    in place: their bodies are expanded inside their callers with the arguments substituted (norm.Inliner), so a driver
    loop shared by the three stage entry points and parametrised by the stage is seen once per entry point -- with the
    stage it is called with -- exactly like three hand-written copies.  A helper the inliner has to leave as a call
    (it returns from inside a loop, or is called in an expression position) stays a function of its own.  The views are
    nested (norm.nest)."""
    from . import norm
    fam = set(family)
    own_file = lambda fn: (fn.get("file") or unit.tu) == unit.tu
    callees = {n: {cir.callee(c) for c in cir.calls(fn)} - {None} for n, fn in unit.funcs.items()}
    if not any(cs & fam for cs in callees.values()):
        return {}
    called_as = set()
    for fn in unit.funcs.values():
        for c in cir.calls(fn):
            ce = cir.callee_expr(c)
            if ce is not None and ce.get("k") == "DeclRefExpr":
                called_as.add(id(ce))
    addr_taken = set()
    for root in list(unit.funcs.values()) + list(unit.vars.values()):
        for x in cir.walk(root):
            if x.get("k") == "DeclRefExpr" and (x.get("ref") or {}).get("k") == "FunctionDecl" and id(x) not in called_as:
                addr_taken.add(x["ref"].get("n"))
    private = {n for n, fn in unit.funcs.items()
               if fn.get("storageClass") == "static" and own_file(fn) and n not in fam and n not in addr_taken}
    reach = {n for n, cs in callees.items() if cs & fam}
    changed = True
    while changed:
        changed = False
        for n, cs in callees.items():
            if n not in reach and cs & reach & private:
                reach.add(n)
                changed = True
    inl = private & reach
    views = {}
    work = sorted(n for n in reach if n not in inl)
    while work:
        n = work.pop(0)
        if n in views:
            continue
        I = norm.Inliner(unit, depth=6, pred=lambda h: h.get("n") in inl and h.get("n") != n)
        # nested: the enclosing conditions of a call are its complete guard (early continue / return == else branch)
        v = dict(norm.nest(_unique_inlined_ids(I.expand(unit.funcs[n]))))
        v["inlined"] = sorted({h for _c, h, _l in I.inlined})
        views[n] = v
        for c in cir.calls(v):
            cn = cir.callee(c)
            if cn in inl and cn not in views and cn not in work:
                work.append(cn)          # could not be analysed in place: a function of its own
    return views


def _unique_inlined_ids(fn):
    """A helper expanded twice brings its locals (and by-value parameter copies) twice with the same declaration id; the
    later copies get fresh ids so that `one declaration, never written` means what it says."""
    seen = set()
    n_fresh = [0]

    def rename(n, ren):
        if not isinstance(n, dict):
            return n
        out = {k: v for k, v in n.items() if k != "i"}
        if out.get("k") == "VarDecl" and out.get("id") in ren:
            out["id"] = ren[out["id"]]
        elif out.get("k") == "DeclRefExpr" and (out.get("ref") or {}).get("id") in ren:
            out["ref"] = dict(out["ref"], id=ren[out["ref"]["id"]])
        if "i" in n:
            out["i"] = [rename(c, ren) if c is not None else None for c in n["i"]]
        return out

    def rec(n):
        if not isinstance(n, dict):
            return n
        if n.get("k") == "CompoundStmt" and n.get("inl"):
            ids = [x.get("id") for x in cir.walk(n) if x.get("k") == "VarDecl"]
            ren = {}
            for i in ids:
                if i in seen and i not in ren:
                    n_fresh[0] += 1
                    ren[i] = f"{i}~{n_fresh[0]}"
            if ren:
                n = rename(n, ren)
            seen.update(x.get("id") for x in cir.walk(n) if x.get("k") == "VarDecl")
        elif n.get("k") == "VarDecl":
            seen.add(n.get("id"))
        if "i" not in n:
            return n
        out = {k: v for k, v in n.items() if k != "i"}
        out["i"] = [rec(c) if c is not None else None for c in n["i"]]
        return out
    return rec(fn)


def slice_calls(unit, family):
    """Deliveries of an (index, slice) pair to functions in `family` {name: (index pos, slice pos)} in this TU, each
    classified as forward / sensordata / history / other.

    The unit of enumeration is what is protected, not how often it is spelled: one record per *distinct*
    (function view, callee, index, slice) -- call sites of one function that hand the same pair to the same callee (the
    same call repeated on several branches, or merged into one) are one delivery (`sites` lists their lines), and the
    functions are the custody views (private helpers analysed inside their callers).  Every call site is still
    classified; a site that differs in index or slice is a record of its own."""
    from . import norm
    out = []
    views = custody_views(unit, family)
    for fname, fn in views.items():
        sites = [c for c in cir.calls(fn) if cir.callee(c) in family]      # preorder of the view: execution order
        if not sites:
            continue
        decls, count = local_decls(fn)
        own = index_and_slice(fn)
        merged = {}
        ords = {}
        for c in sites:
            callee = cir.callee(c)
            ipos, spos = family[callee]
            a = cir.args(c)
            if max(ipos, spos) >= len(a):
                raise AnalysisError(f"{fname}: call of {callee} with too few arguments")
            ia, sa = cir.strip(a[ipos]), cir.strip(a[spos])
            itxt = resolved(ia, decls, count)
            stxt = resolved(sa, decls, count)
            rec = {"function": fname, "callee": callee, "file": fn.get("file") or unit.tu,
                   "line": c.get("line"), "index": itxt, "slice": stxt, "kind": "other"}
            own_ids = (cir.params(fn)[own[2]].get("id"), cir.params(fn)[own[3]].get("id")) if own is not None else None
            if own is not None and ia is not None and sa is not None and ia.get("k") == "DeclRefExpr" and \
                    sa.get("k") == "DeclRefExpr" and cir.text(ia) == own[0] and cir.text(sa) == own[1] and \
                    ((ia.get("ref") or {}).get("id"), (sa.get("ref") or {}).get("id")) == own_ids:
                iid, sid = own_ids
                if count.get(iid, 0) == 0 and count.get(sid, 0) == 0:
                    rec["kind"] = "forward"
                    rec["own"] = (own[2], own[3])
                else:
                    rec["why"] = "the caller reassigns its index or slice parameter before forwarding it"
            else:
                base = _split_sum(stxt)
                if base is not None and base[0].endswith("->sensordata") and _adr_of(base[1], "sensor_adr") == itxt:
                    rec["kind"] = "sensordata"
                else:
                    s2 = cir.strip(_local_init(sa, decls, count))
                    if cir.is_call(s2) and cir.callee(s2) in HISTORY_SLOT and cir.args(s2):
                        b = _split_sum(resolved(cir.args(s2)[0], decls, count))
                        if b is not None and b[0].endswith("->history") and _adr_of(b[1], "sensor_historyadr") == itxt:
                            rec["kind"] = "history"
            # sensor types the guards of this call rule out for sensor `index`: atoms `m->sensor_type[index] == E` that are
            # false here (E's early continue / the else branch of E's arm), through the local the type was read into
            excl = set()
            for g, pol in norm.guards(fn, c) or ():
                if g.get("k") == "BinaryOperator" and g.get("op") == "==" and not pol:
                    x, y = cir.kids(g)
                    for lab, subj in ((x, y), (y, x)):
                        e = enum_of(lab)
                        if e is not None and resolved(subj, decls, count).endswith(f"->sensor_type[{itxt}]"):
                            excl.add(e)
            key = (callee, rec["kind"], itxt, stxt, rec.get("why"))
            if key in merged:
                merged[key]["sites"].append(c.get("line"))
                merged[key]["excluded_types"] = sorted(set(merged[key]["excluded_types"]) & excl)
                continue
            rec["excluded_types"] = sorted(excl)
            ords[callee] = ords.get(callee, 0) + 1
            rec["ord"] = ords[callee]
            rec["sites"] = [c.get("line")]
            rec["inlined"] = list(fn.get("inlined") or ())
            merged[key] = rec
            out.append(rec)
    return out


def _local_init(n, decls, count):
    x = cir.strip(n)
    seen = 0
    while x is not None and x.get("k") == "DeclRefExpr" and seen < 6:
        rid = (x.get("ref") or {}).get("id")
        d = decls.get(rid)
        if d is None or d.get("k") != "VarDecl" or count.get(rid, 0) != 0 or not d.get("init"):
            break
        init = [y for y in cir.kids(d) if y is not None and not y.get("k", "").endswith("Attr")]
        if not init:
            break
        x = cir.strip(init[-1])
        seen += 1
    return x


def _split_sum(txt):
    """'A + B' (top level) -> (A, B)"""
    depth = 0
    for i, ch in enumerate(txt):
        if ch in "([":
            depth += 1
        elif ch in ")]":
            depth -= 1
        elif ch == "+" and depth == 0 and txt[i - 1:i] == " " and txt[i + 1:i + 2] == " ":
            return txt[:i - 1], txt[i + 2:]
    return None


def _adr_of(txt, field):
    """'m->sensor_adr[X]' -> X"""
    key = f"->{field}["
    if key in txt and txt.endswith("]") and txt.count("[") >= 1:
        head, rest = txt.split(key, 1)
        if "->" in head or " " in head:
            return None
        return rest[:-1]
    return None


# ----------------------------------------------------------------------------------------------- cutoff after compute

class CutoffRule(paths.Rule):
    """state: frozenset of pending (index text, slice text) pairs computed and not yet clipped"""

    def __init__(self, compute, cutoff):
        self.compute = compute      # name -> (ipos, spos)
        self.cutoff = cutoff        # name -> (ipos, spos)

    def initial(self, fn):
        return frozenset()

    def call(self, st, node, name, ctx):
        if name in self.compute:
            ipos, spos = self.compute[name]
            a = cir.args(node)
            key = (cir.text(a[ipos]), cir.text(a[spos]))
            ctx.computes[(node.get("line"), node.get("off"))] = (name, key)
            return st | {key + ((node.get("line"), node.get("off")),)}
        if name in self.cutoff:
            ipos, spos = self.cutoff[name]
            a = cir.args(node)
            key = (cir.text(a[ipos]), cir.text(a[spos]))
            return frozenset(e for e in st if (e[0], e[1]) != key)
        return st

    def assign(self, st, node, ctx):
        if node.get("k") == "VarDecl" or not st:
            return st
        lhs = cir.text(cir.kids(node)[0])
        for e in st:
            if lhs in (e[0], e[1]):
                ctx.report(node, f"`{lhs}` is changed between the sensor computation and its cutoff", site=e[2])
        return st

    def _leave(self, st, node, ctx):
        for e in st:
            ctx.report(node, f"a path returns after computing sensor `{e[0]}` into `{e[1]}` without applying the cutoff to it",
                       site=e[2])

    def ret(self, st, node, ctx):
        self._leave(st, node, ctx)

    def fallthrough(self, st, ctx):
        self._leave(st, ctx.fn, ctx)


def cutoff_after_compute(unit, compute, cutoff):
    out = []
    for fname, fn in unit.funcs.items():
        if fname in compute or fname in cutoff:
            continue
        if not any(cir.callee(c) in compute for c in cir.calls(fn)):
            continue
        rule = CutoffRule(compute, cutoff)
        ex = paths.Explorer(rule, unit, fn)
        ex.ctx.computes = {}
        ex.run()
        bad = {}
        for rp in ex.ctx.reports:
            bad.setdefault(tuple(rp.get("site")), rp)
        for k, (site, (callee, key)) in enumerate(sorted(ex.ctx.computes.items(), key=lambda kv: (kv[0][0] or 0, kv[0][1] or 0))):
            rp = bad.get(site)
            out.append({"function": fname, "callee": callee, "file": fn.get("file") or unit.tu, "line": site[0],
                        "index": key[0], "slice": key[1], "msg": rp["msg"] if rp else None,
                        "rline": rp["line"] if rp else None})
    return out


# ----------------------------------------------------------------------------------------------- callback sweeps

def _conjuncts(n, pol=True):
    """[(node, polarity)] of a condition split over && (for pol True) / || (for pol False, De Morgan)."""
    n = cir.strip(n)
    if n is None:
        return []
    k = n.get("k")
    if k == "UnaryOperator" and n.get("op") == "!":
        return _conjuncts(cir.kids(n)[0], not pol)
    if k == "BinaryOperator" and ((n.get("op") == "&&" and pol) or (n.get("op") == "||" and not pol)):
        a, b = cir.kids(n)
        return _conjuncts(a, pol) + _conjuncts(b, pol)
    return [(n, pol)]


def _disjuncts(n):
    n = cir.strip(n)
    if n is not None and n.get("k") == "BinaryOperator" and n.get("op") == "||":
        a, b = cir.kids(n)
        return _disjuncts(a) + _disjuncts(b)
    return [n]


def _leaves(st):
    """statement always leaves the enclosing iteration (continue / return / break / no-return error)"""
    if st is None:
        return False
    k = st.get("k")
    if k in ("ContinueStmt", "ReturnStmt", "BreakStmt"):
        return True
    if k == "CompoundStmt":
        ks = [x for x in cir.kids(st) if x is not None]
        return bool(ks) and _leaves(ks[-1])
    if cir.is_call(st):
        return cir.callee(st) in paths.NORETURN
    return False


def guards_of(root, target, errvars=frozenset()):
    """Conditions that hold whenever `target` (a node inside the statement tree `root`) is reached from the start of
    `root`, collected structurally: enclosing if-branches and preceding `if (C) <leave>` statements of every enclosing
    block.  Returns [(cond node, polarity)] or None if target is not inside root."""
    def has(n):
        return any(x is target for x in cir.walk(n))

    out = []

    def descend(n):
        if n is target:
            return True
        k = n.get("k")
        if k == "CompoundStmt":
            for st in cir.kids(n):
                if st is None:
                    continue
                if has(st):
                    return descend(st)
                if st.get("k") == "IfStmt":
                    c = cir.kids(st)
                    thn = c[1] if len(c) > 1 else None
                    els = c[2] if len(c) > 2 else None
                    if els is None and (_leaves(thn) or _noreturn(thn, errvars)):
                        out.extend(_conjuncts(c[0], False))
            return False
        if k == "IfStmt":
            c = cir.kids(n)
            if has(c[0]):
                return True
            if len(c) > 1 and c[1] is not None and has(c[1]):
                out.extend(_conjuncts(c[0], True))
                return descend(c[1])
            if len(c) > 2 and c[2] is not None and has(c[2]):
                out.extend(_conjuncts(c[0], False))
                return descend(c[2])
            return False
        for ch in cir.kids(n):
            if ch is not None and has(ch):
                return descend(ch)
        return False

    return out if descend(root) else None


def _noreturn(st, errvars):
    if st is None:
        return False
    for c in cir.calls(st):
        if paths.is_noreturn_call(c, errvars):
            return True
    return False


def guard_text(n, pol, decls, count):
    """(text, polarity) of a guard with `!(a != b)` / `!(a == b)` folded into the comparison."""
    x = cir.strip(n)
    if not pol and x is not None and x.get("k") == "BinaryOperator" and x.get("op") in ("==", "!="):
        a, b = cir.kids(x)
        flip = "==" if x.get("op") == "!=" else "!="
        return f"{resolved(a, decls, count)} {flip} {resolved(b, decls, count)}", True
    return resolved(n, decls, count), pol


def for_header(loop):
    """(var, lower text, upper text) of `for (int v = L; v < U; v++)`, else None"""
    if loop.get("k") != "ForStmt":
        return None
    c = list(cir.kids(loop)) + [None] * 5
    init, cond, inc = c[0], c[2], c[3]
    var = low = None
    if init is not None:
        for x in cir.walk(init):
            if x.get("k") == "VarDecl" and x.get("init"):
                var = x.get("n")
                ini = [y for y in cir.kids(x) if y is not None]
                low = cir.text(ini[-1])
                break
            if x.get("k") == "BinaryOperator" and x.get("op") == "=":
                var = cir.text(cir.kids(x)[0])
                low = cir.text(cir.kids(x)[1])
                break
    cd = cir.strip(cond)
    if var is None or cd is None or cd.get("k") != "BinaryOperator" or cd.get("op") != "<" or cir.text(cir.kids(cd)[0]) != var:
        return None
    i = cir.strip(inc)
    if i is None or not ((i.get("k") == "UnaryOperator" and i.get("op") == "++") or
                         (i.get("k") == "CompoundAssignOperator" and i.get("op") == "+=" and cir.text(cir.kids(i)[1]) == "1")) \
            or cir.text(cir.kids(i)[0]) != var:
        return None
    return var, low, cir.text(cir.kids(cd)[1])


def callback_sweeps(unit, cutoff):
    """For every indirect call that receives a writable mjData* (sensor callback / plugin compute): the call, the
    cutoff sweep loop(s) that follow it in an enclosing block, their guards."""
    out = []
    for fname, fn in unit.funcs.items():
        if fname in cutoff:
            continue
        ind = []
        for c in cir.calls(fn):
            if cir.callee(c) is None or (cir.callee_expr(c) is not None and cir.callee_expr(c).get("k") == "MemberExpr"):
                # an indirect call that receives a writable mjData can fill sensordata
                if any((a.get("t") or "").replace(" ", "") in ("mjData*", "structmjData_*") for a in cir.args(c)):
                    ind.append(c)
        if not ind:
            continue
        decls, count = local_decls(fn)
        errvars = paths.error_msg_vars(fn)
        body = cir.body(fn)
        for cb in ind:
            rec = {"function": fname, "file": fn.get("file") or unit.tu, "line": cb.get("line"),
                   "callback": cir.text(cir.callee_expr(cb)), "args": [resolved(a, decls, count) for a in cir.args(cb)],
                   "sweeps": [], "cb_guards": []}
            # innermost block that contains the callback and a later cutoff loop
            blk, idx = _enclosing_block(body, cb)
            while blk is not None:
                stmts = [s for s in cir.kids(blk)]
                found = False
                for st in stmts[idx + 1:]:
                    if st is not None and st.get("k") == "ForStmt" and any(cir.callee(c) in cutoff for c in cir.calls(st)):
                        found = True
                        hdr = for_header(st)
                        for c in cir.calls(st):
                            if cir.callee(c) not in cutoff:
                                continue
                            ipos, spos = cutoff[cir.callee(c)]
                            a = cir.args(c)
                            g = guards_of(cir.kids(st)[-1], c, errvars) or []
                            rec["sweeps"].append({
                                "line": c.get("line"), "header": hdr, "index": resolved(a[ipos], decls, count),
                                "slice": resolved(a[spos], decls, count),
                                "guards": [guard_text(n, pol, decls, count) for n, pol in g]})
                if found:
                    break
                # walk outwards only if the callback is not inside a conditional of this block (same iteration)
                blk, idx = _enclosing_block(body, blk) if blk is not body else (None, None)
            g = guards_of(body, cb, errvars) or []
            rec["cb_guards"] = [(resolved(n, decls, count), pol) for n, pol in g]
            rec["cb_guard_disjuncts"] = []
            for n, pol in g:
                x = _local_init(n, decls, count)
                ds = _disjuncts(x)
                if pol and len(ds) > 1:
                    rec["cb_guard_disjuncts"].append([[ (resolved(cn, decls, count), cp) for cn, cp in _conjuncts(dj, True)]
                                                      for dj in ds])
            out.append(rec)
    return out


def _enclosing_block(root, target):
    """(CompoundStmt, index of the child statement containing target) for the innermost block containing target."""
    best = (None, None)
    for n in cir.walk(root):
        if n.get("k") == "CompoundStmt":
            for i, st in enumerate(cir.kids(n)):
                if st is not None and st is not target and any(x is target for x in cir.walk(st)):
                    best = (n, i)
                elif st is target:
                    best = (n, i)
    return best


# ----------------------------------------------------------------------------------------------- lazy inputs per case

class CaseExplorer(paths.Explorer):
    """Explorer that enters a switch on the sensor-type variable only at the label under analysis."""

    def s_SwitchStmt(self, n, S):
        c = [x for x in cir.kids(n) if x is not None]
        cond, body = c[0], c[-1]
        if not self.rule.is_type_switch(cond):
            return super().s_SwitchStmt(n, S)
        S = self.expr(cond, S)
        flat = _flatten(body)
        names = [label_name(st) for t, st in flat if t == "label"]
        want = self.rule.T if self.rule.T in names else ("<default>" if "<default>" in names else None)
        res = self._res()
        active = set()
        for t, st in flat:
            if t == "label":
                if label_name(st) == want:
                    active |= S
            else:
                if not active:
                    continue
                r = self.stmt(st, active)
                res["next"] |= r["break"]
                res["continue"] |= r["continue"]
                active = self._merge(r["next"])
        res["next"] |= active
        if want is None:
            res["next"] |= S
        res["next"] = self._merge(res["next"])
        return res


class LazyRule(paths.Rule):
    use_kinds = frozenset({"MemberExpr"})

    def __init__(self, T, type_var, producers, owners, callee_reads, idxmap):
        self.T = T
        self.type_var = type_var
        self.producers = producers        # producer function -> flag
        self.owners = owners              # field -> {flag: set of literal indices or None}
        self.callee_reads = callee_reads  # callee -> set of lazy fields read in its closure
        self.idxmap = idxmap              # id(MemberExpr) -> literal index

    def initial(self, fn):
        return frozenset()

    def is_type_switch(self, cond):
        c = cir.strip(cond)
        return c is not None and c.get("k") == "DeclRefExpr" and cir.text(c) == self.type_var

    def branch(self, st, cond, taken, ctx):
        c = cir.strip(cond)
        if c is not None and c.get("k") == "BinaryOperator" and c.get("op") in ("==", "!="):
            a, b = (cir.strip(x) for x in cir.kids(c))
            for u, v in ((a, b), (b, a)):
                if u is not None and u.get("k") == "DeclRefExpr" and cir.text(u) == self.type_var:
                    e = enum_of(v) if v is not None else None
                    if e is not None:
                        val = (e == self.T) if c.get("op") == "==" else (e != self.T)
                        return st if val == taken else None
        nc = paths.norm_cond(cond)
        if nc is not None:
            fl = _flag_text(nc[0])
            if fl is not None:
                nz = taken if nc[1] else (not taken)
                if nz:
                    return st | {fl}
                return None if fl in st else st
        return st

    def assign(self, st, node, ctx):
        if node.get("k") == "VarDecl":
            return st
        lhs = cir.strip(cir.kids(node)[0])
        if lhs is not None and lhs.get("k") == "DeclRefExpr" and cir.text(lhs) == self.type_var:
            raise AnalysisError(f"{ctx.fn.get('n')}: the sensor type variable `{self.type_var}` is reassigned")
        fl = _flag_text(cir.text(lhs)) if lhs is not None else None
        if fl is not None:
            v = cir.text(cir.kids(node)[1]) if len(cir.kids(node)) > 1 else None
            return (st | {fl}) if v == "1" else (st - {fl})
        return st

    def _need(self, st, node, field, idx, ctx, via=None):
        for flag, idxs in self.owners.get(field, {}).items():
            if idxs is not None and idx is not None and idx not in idxs:
                continue
            ctx.readers.add((flag, field))
            if flag not in st:
                ctx.report(node, f"case {self.T}: d->{field}" + (f"[{idx}]" if idx is not None else "") +
                           (f" is read in the closure of {via}()" if via else " is read") +
                           f" on a path where d->{flag} is not known to be set (no dominating `if (!d->{flag}) <producer>`)",
                           flag=flag, field=field)

    def call(self, st, node, name, ctx):
        if name in self.producers:
            return st | {self.producers[name]}
        for field in sorted(self.callee_reads.get(name, ())):
            self._need(st, node, field, None, ctx, via=name)
        return st

    def use(self, st, node, ctx):
        if node.get("arrow") and node.get("n") in self.owners:
            c = cir.kids(node)
            base = cir.strip(c[0]) if c else None
            if base is not None and modref._struct_of(base.get("t")) == "mjData":
                self._need(st, node, node.get("n"), self.idxmap.get(id(node)), ctx)
        return st


def _flag_text(txt):
    if txt and "->flg_" in txt and txt.count("->") == 1 and txt.split("->")[1].isidentifier():
        return txt.split("->")[1]
    return None


def literal_index_map(fn):
    m = {}
    for n in cir.walk(fn):
        if n.get("k") == "ArraySubscriptExpr":
            c = cir.kids(n)
            b = cir.strip(c[0])
            i = cir.strip(c[1])
            if b is not None and b.get("k") == "MemberExpr" and i is not None and i.get("k") == "IntegerLiteral":
                m[id(b)] = int(str(i.get("v")), 0)
    return m


def producer_indices(fn, field):
    """Literal indices through which fn itself stores into d->field, or None if some store is not literal-indexed."""
    idxs = set()
    for n in cir.walk(fn):
        k = n.get("k")
        if (k == "BinaryOperator" and n.get("op") == "=") or k == "CompoundAssignOperator" or \
                (k == "UnaryOperator" and n.get("op") in ("++", "--")):
            lhs = cir.strip(cir.kids(n)[0])
            rf = modref.root_field(lhs)
            if rf is None or rf[0] != "mjData" or rf[1] != field:
                continue
            if lhs.get("k") == "ArraySubscriptExpr":
                i = cir.strip(cir.kids(lhs)[1])
                b = cir.strip(cir.kids(lhs)[0])
                if b is not None and b.get("k") == "MemberExpr" and i is not None and i.get("k") == "IntegerLiteral":
                    idxs.add(int(str(i.get("v")), 0))
                    continue
            return None
        elif cir.is_call(n):
            for a in cir.args(n):
                rf = modref.root_field(a)
                s = cir.strip(a)
                if rf is not None and rf[0] == "mjData" and rf[1] == field and s is not None and \
                        ("*" in (s.get("t") or "") or "[" in (s.get("t") or "")):
                    return None
    return idxs or None


def lazy_cases(unit, fname, index_param, producers, owners, callee_reads):
    """Explore fname once per case label of its type switch.  Returns {label: {readers:[(flag, field)], reports:[...]}}"""
    fn = unit.funcs[fname]
    sw, tvar = type_switch(fn, index_param)
    if tvar is None:
        raise AnalysisError(f"{fname}: the type switch does not switch on a local variable")
    groups, order = switch_groups(sw)
    idxmap = literal_index_map(fn)
    out = {}
    for T in order:
        if T == "<default>":
            continue
        rule = LazyRule(T, tvar, producers, owners, callee_reads, idxmap)
        ex = CaseExplorer(rule, unit, fn)
        ex.ctx.readers = set()
        ex.run()
        out[T] = {"readers": sorted(ex.ctx.readers), "reports": ex.ctx.reports,
                  "line": groups[T]["label"].get("line")}
    return out


# ----------------------------------------------------------------------------------------------- written extent per case

# callee -> (pointer argument, index of the argument that holds the number of elements written through it)
# (functions of the public API whose output extent is a run-time argument; fixed extents are not tabulated: they are
# read from the declared array parameter, e.g. `void mju_copy3(mjtNum res[3], ...)`)
COUNT_ARG = {
    "mju_copy": (0, 2),         # mju_copy(res, vec, n): n elements
    "mju_zero": (0, 1),         # mju_zero(res, n): n elements
    "mju_mulMatTVec": (0, 4),   # mju_mulMatTVec(res, mat, vec, nr, nc): res has nc elements
    "mju_mulMatVec": (0, 3),    # mju_mulMatVec(res, mat, vec, nr, nc): res has nr elements
}
_DECL_EXT = {}


def declared_extent(name, j):
    """K if parameter j of the public function `name` is declared `T p[K]` in the headers, else None."""
    import os
    import re as _re
    from . import cfront, ctypeinfo
    key = (cfront.REPO, name, j)
    if key in _DECL_EXT:
        return _DECL_EXT[key]
    val = None
    p = ctypeinfo.load()["protos"].get(name)
    if p is not None:
        f = p.get("file") or p.get("nfile")
        ps = [q for q in cir.kids(p) if q is not None and q.get("k") == "ParmVarDecl"]
        if j < len(ps) and ps[j].get("off") is not None and ps[j].get("end") is not None:
            pf = ps[j].get("file") or f
            try:
                with open(pf if pf.startswith("/") else os.path.join(cfront.REPO, pf), "rb") as fh:
                    src = fh.read()[ps[j]["off"]:ps[j]["end"]].decode("utf-8", "replace")
                m = _re.search(r"\[\s*(\d+)\s*\]\s*$", src)
                if m and "const" not in src.split("[")[0]:
                    val = int(m.group(1))
            except OSError:
                val = None
    _DECL_EXT[key] = val
    return val


class ExtentRule(paths.Rule):
    """state: (hi, dim, var): highest literal element count written through the slice so far, whether
    m->sensor_dim[index] elements were written, and a reason if the extent is not bounded by the analysis."""

    def __init__(self, unit, T, type_var, slice_param, dim_text, decls, count, depth=0):
        self.unit = unit
        self.T = T
        self.type_var = type_var
        self.slice = slice_param
        self.dim_text = dim_text
        self.decls, self.count = decls, count
        self.depth = depth

    def initial(self, fn):
        return (0, False, None)

    def is_type_switch(self, cond):
        c = cir.strip(cond)
        return self.type_var is not None and c is not None and c.get("k") == "DeclRefExpr" and cir.text(c) == self.type_var

    def branch(self, st, cond, taken, ctx):
        if self.type_var is None:
            return st
        c = cir.strip(cond)
        if c is not None and c.get("k") == "BinaryOperator" and c.get("op") in ("==", "!="):
            a, b = (cir.strip(x) for x in cir.kids(c))
            for u, v in ((a, b), (b, a)):
                if u is not None and u.get("k") == "DeclRefExpr" and cir.text(u) == self.type_var:
                    e = enum_of(v) if v is not None else None
                    if e is not None:
                        val = (e == self.T) if c.get("op") == "==" else (e != self.T)
                        return st if val == taken else None
        return st

    def assign(self, st, node, ctx):
        if node.get("k") == "VarDecl":
            init = [x for x in cir.kids(node) if x is not None and not x.get("k", "").endswith("Attr")]
            if init and "*" in (node.get("t") or "") and not modref._const_pointee(node.get("t") or "") and \
                    cir.base_var(init[-1]) == self.slice:
                return (st[0], st[1], st[2] or f"`{node.get('n')}` aliases the slice")
            return st
        lhs = cir.strip(cir.kids(node)[0])
        if lhs is None:
            return st
        if lhs.get("k") == "DeclRefExpr" and cir.text(lhs) == self.slice:
            return (st[0], st[1], st[2] or f"the slice pointer `{self.slice}` is advanced")
        if cir.base_var(lhs) == self.slice and lhs.get("k") != "DeclRefExpr":
            if lhs.get("k") == "ArraySubscriptExpr" and cir.text(cir.kids(lhs)[0]) == self.slice:
                ix = cir.strip(cir.kids(lhs)[1])
                if ix is not None and ix.get("k") == "IntegerLiteral":
                    return (max(st[0], int(str(ix.get("v")), 0) + 1), st[1], st[2])
            return (st[0], st[1], st[2] or f"store through `{cir.text(lhs)}`")
        if node.get("k") == "BinaryOperator" and node.get("op") == "=" and "*" in (lhs.get("t") or ""):
            r = cir.strip(cir.kids(node)[1])
            if r is not None and cir.base_var(r) == self.slice and "*" in (r.get("t") or ""):
                return (st[0], st[1], st[2] or f"`{cir.text(lhs)}` aliases the slice")
        return st

    def call(self, st, node, name, ctx):
        ce = cir.callee_expr(node)
        pt = modref._param_types((ce.get("ref") or {}).get("t") if ce is not None and ce.get("k") == "DeclRefExpr" else None)
        for j, a in enumerate(cir.args(node)):
            s = cir.strip(a)
            if s is None or "*" not in (s.get("t") or "") or cir.base_var(s) != self.slice:
                continue
            if j < len(pt) and modref._const_pointee(pt[j]):
                continue
            if cir.text(s) != self.slice:
                st = (st[0], st[1], st[2] or f"`{cir.text(s)}` is passed to {name}()")
                continue
            ca = COUNT_ARG.get(name)
            if ca is not None and ca[0] == j:
                av = cir.strip(cir.args(node)[ca[1]])
                if av is not None and av.get("k") == "IntegerLiteral":
                    st = (max(st[0], int(str(av.get("v")), 0)), st[1], st[2])
                elif self.dim_text and resolved(av, self.decls, self.count).endswith(self.dim_text):
                    st = (st[0], True, st[2])
                else:
                    st = (st[0], st[1], st[2] or f"{name}() writes `{cir.text(av)}` elements")
                continue
            local = self.unit.funcs.get(name)
            if local is None or (local.get("file") or self.unit.tu) != self.unit.tu:
                k = declared_extent(name, j)
                if k is not None:
                    st = (max(st[0], k), st[1], st[2])
                    continue
            sub = self.unit.funcs.get(name)
            if sub is not None and self.depth < 3 and (sub.get("file") or self.unit.tu) == self.unit.tu:
                ps = cir.params(sub)
                if j < len(ps):
                    e = function_extent(self.unit, name, ps[j].get("n"), self.depth + 1)
                    if e[0] == "lit":
                        st = (max(st[0], e[1]), st[1], st[2])
                        continue
                    st = (st[0], st[1], st[2] or f"{name}(): {e[1] if len(e) > 1 else 'extent depends on sensor_dim'}")
                    continue
            st = (st[0], st[1], st[2] or f"`{cir.text(s)}` is passed to {name}() whose written extent is not tabulated")
        return st

    def _exit(self, st, ctx):
        ctx.exits.add(st)

    def ret(self, st, node, ctx):
        self._exit(st, ctx)

    def fallthrough(self, st, ctx):
        self._exit(st, ctx)

    def noreturn(self, st, node, ctx):
        pass


def _combine(exits):
    if not exits:
        return ("var", "no returning path")
    var = [e[2] for e in exits if e[2]]
    if var:
        return ("var", sorted(var)[0])
    dims = {e[1] for e in exits}
    hi = max(e[0] for e in exits)
    if dims == {True} and hi == 0:
        return ("dim",)
    if True in dims:
        return ("var", "some paths write m->sensor_dim[i] elements, others a literal count")
    return ("lit", hi)


def function_extent(unit, fname, param, depth=0):
    fn = unit.funcs[fname]
    decls, count = local_decls(fn)
    rule = ExtentRule(unit, None, None, param, None, decls, count, depth)
    ex = paths.Explorer(rule, unit, fn)
    ex.ctx.exits = set()
    ex.run()
    return _combine(ex.ctx.exits)


def case_extents(unit, fname, index_param, slice_param):
    """Per case label T (function explored with `type == T` decided): ('lit', k) = at most the first k elements of the
    slice are written, ('dim',) = m->sensor_dim[index] elements, ('var', why) = not bounded by this analysis."""
    fn = unit.funcs[fname]
    sw, tvar = type_switch(fn, index_param)
    groups, order = switch_groups(sw)
    decls, count = local_decls(fn)
    out = {}
    for T in order:
        if T == "<default>":
            continue
        rule = ExtentRule(unit, T, tvar, slice_param, f"->sensor_dim[{index_param}]", decls, count)
        ex = CaseExplorer(rule, unit, fn)
        ex.ctx.exits = set()
        ex.run()
        out[T] = _combine(ex.ctx.exits)
    return out


# ----------------------------------------------------------------------------------------------- per-TU worker

def tu_summary(unit, family):
    """One pass per TU (worker process): call-graph summary with reads (sa.callgraph), lazy-flag assignments with their
    values, literal store indices of the flag-setting functions, and the call sites of the slice family."""
    from . import callgraph, r_lazy
    s = callgraph._unit_summary(unit, ["mjData"], True)
    fa = r_lazy.flag_access(unit)
    setters = {}
    for name, f in fa.items():
        vals = {}
        for flag, v, line in f["sets"]:
            vals.setdefault(flag, set()).add(v)
        ones = sorted(fl for fl, vs in vals.items() if vs == {"1"})
        if ones:
            fn = unit.funcs[name]
            fields = set()
            for n in cir.walk(fn):
                k = n.get("k")
                if (k == "BinaryOperator" and n.get("op") == "=") or k == "CompoundAssignOperator":
                    rf = modref.root_field(cir.kids(n)[0])
                    if rf is not None and rf[0] == "mjData" and rf[2] > 0:
                        fields.add(rf[1])
            setters[name] = {"flags": ones, "file": fn.get("file") or unit.tu,
                             "indices": {f2: (sorted(ix) if (ix := producer_indices(fn, f2)) else None) for f2 in fields}}
    fam = {k: tuple(v) for k, v in family}
    s["flag_setters"] = setters
    s["slice_calls"] = slice_calls(unit, fam) if fam else []
    return s
