"""Intraprocedural alias / mutation analysis for numpy-style Python (R-PURITY).  `ast` only.

Question answered for every function of a set of modules: *can an in-place operation reach memory that
belongs to a value passed in by the caller?*

Abstract value `AV`
  own     origins ("param.attr...") the value itself may be (a view of).  empty = freshly allocated
  elems   origins the *contents* of the value may be (list/dict/tuple elements, object attributes that
          are not tracked as fields).  For arrays elems == own (sub-views).
  fields  for objects constructed in the analysed code from a class of the analysed modules
          (dataclass fields / `self.x = ...` of an explicit __init__): field name -> AV.
          `new = TimeSeries(ts.times, ts.data)` then `new.data` is a view of `ts.data` because the
          class stores its arguments un-copied (derived from the class body, not assumed).
  cls     class of the analysed modules the value is known to be an instance of
  nd      known numeric ndarray (annotation `np.ndarray` or numpy constructor): element stores copy
          values, `.copy()` is deep
  seq     definitely a sequence/array with ndim >= 1: indexing an array *with* it is fancy indexing (a copy)

Transfer (the idiom tables below are explicit, with the reason for every entry)
  FRESH   arithmetic, comparisons, literals, comprehensions (container fresh, elements keep their
          origins), numpy allocating functions, `.copy()`, `.astype()` without `copy=`, fancy indexing
  VIEW    parameters, attribute reads, basic indexing/slicing, `np.asarray/atleast_*/reshape/ravel/
          squeeze/transpose/...`, any call not in a table (its result may alias every argument and
          the receiver: VIEW wins)
  calls of functions/methods/constructors of the analysed modules use the callee's summary
  (return value expressed over the callee's parameters, substituted with the actual arguments).

Mutation sites (each classified, each counted)
  subscript store / delete, augmented assignment, attribute store on a caller-owned object,
  in-place methods (sort, fill, put, resize, itemset, setfield, append, extend, ...), numpy in-place
  functions (copyto, place, put, putmask, fill_diagonal, put_along_axis, random.shuffle, ufunc.at),
  `out=` keyword, MuJoCo C-API calls that are not in the read-only table.

Control flow: branches are joined (union of origins: VIEW wins over FRESH), loops run to a fixpoint.
Private helpers (leading underscore, called inside the analysed modules) are judged at their call sites
with the actual arguments; every other function's parameters are caller-owned (`Program.is_entry_point`).

Shapes that are the same thing for aliasing
  generator function   a function that returns a FRESH iterable whose elements are (aliases of) the yielded values;
                       `yield from xs` yields the elements of xs.  Only the producer protocol: the value of a yield
                       expression (send) and a generator return value are refused (AnalysisError).
  comprehension        a loop that fills a FRESH container; its elements keep their origins.
  tuple                immutable and of known length: `fields` holds the value per position ("#0", "#1", ...), so
                       `a, b = helper(x)` and `helper(x)[1]` see what the helper put there (`elems` stays the union).
  closure              analysed where it is *called*, with the values its free variables have then (late binding,
                       parameters of the enclosing function included); origins of the enclosing function pass
                       through, its own parameters are replaced by the actual arguments.  Its in-place sites are
                       recorded once, against the join of everything its free variables are ever bound to.
"""
from __future__ import annotations

import ast
import os

from . import cfront
from .cfront import AnalysisError

MAXPATH = 3          # attribute-path components kept in an origin (for messages only)


# ------------------------------------------------------------------------------------------------
# abstract values


class AV:
    __slots__ = ("own", "elems", "fields", "cls", "nd", "seq", "ext")

    def __init__(self, own=frozenset(), elems=None, fields=None, cls=None, nd=False, seq=False, ext=None):
        self.own = frozenset(own)
        self.elems = frozenset(own if elems is None else elems)
        self.fields = fields
        self.cls = cls
        self.nd = nd
        self.seq = seq
        self.ext = ext      # external class tag (e.g. scipy interpolant) / ("classref", name) / ("module", dotted)

    def all(self):
        s = set(self.own) | set(self.elems)
        if self.fields:
            for v in self.fields.values():
                s |= v.all()
        return frozenset(s)

    def is_fresh(self):
        return not self.own

    def key(self):
        return (self.own, self.elems, self.cls, self.nd, self.seq, self.ext,
                tuple(sorted((k, v.key()) for k, v in self.fields.items())) if self.fields is not None else None)

    def __repr__(self):
        if not self.own and not self.elems and not self.fields:
            return "FRESH"
        s = "VIEW(" + ",".join(sorted(self.own)) + ")" if self.own else "FRESH"
        extra = sorted(self.elems - self.own)
        if extra:
            s += "{elems:" + ",".join(extra) + "}"
        if self.fields:
            s += "{" + ", ".join(f"{k}={v!r}" for k, v in sorted(self.fields.items())) + "}"
        return s


FRESH = AV()


def fresh(nd=False, seq=False, elems=frozenset()):
    return AV(frozenset(), elems, nd=nd, seq=seq)


def join(a: AV | None, b: AV | None) -> AV | None:
    if a is None:
        return b
    if b is None:
        return a
    if a is b:
        return a
    fields = None
    if a.fields is not None or b.fields is not None:
        fa = a.fields if a.fields is not None else {}
        fb = b.fields if b.fields is not None else {}
        # a side without field information that is a view contributes view-of-own for every field
        fields = {}

        def side(v, fv, k):
            if v.fields is not None:
                return fv.get(k)
            if not (v.own or v.elems):
                return None
            if k.startswith("#"):                    # positional element of a tuple: any content of the other side
                return AV(v.own | v.elems)
            return attr_of(v, k)
        for k in set(fa) | set(fb):
            fields[k] = join(side(a, fa, k), side(b, fb, k)) or FRESH
    return AV(a.own | b.own, a.elems | b.elems, fields,
              a.cls if a.cls == b.cls else None, a.nd and b.nd, a.seq and b.seq,
              a.ext if a.ext == b.ext else None)


def _ext_path(o: str, a: str) -> str:
    parts = o.split(".")
    if len(parts) >= MAXPATH:
        return o
    return o + "." + a


def attr_of(v: AV, a: str, prog=None) -> AV:
    """Abstract attribute read v.a"""
    if v.fields is not None and a in v.fields:
        r = v.fields[a]
        if v.own:   # joined object: may also be the caller's
            r = join(r, AV({_ext_path(o, a) for o in v.own}))
        return r
    if v.nd and a in ND_ATTR_FRESH:
        return FRESH
    if v.own:
        own = {_ext_path(o, a) for o in v.own} | (v.elems - v.own)
    else:
        own = set(v.elems)
    nd = False
    if prog is not None and v.cls is not None:
        nd = prog.field_is_nd(v.cls, a)
    elif v.nd and a in ("T", "real", "imag", "flat", "mT"):
        nd = True
    return AV(own, nd=nd)


# ------------------------------------------------------------------------------------------------
# idiom tables (explicit; one entry per name with the reason)

NP_FRESH = {
    # allocating constructors
    "empty", "zeros", "ones", "full", "empty_like", "zeros_like", "ones_like", "full_like", "eye", "identity",
    "arange", "linspace", "logspace", "array", "copy", "fromiter", "tile", "repeat", "diag", "meshgrid",
    # joining always allocates
    "concatenate", "stack", "vstack", "hstack", "dstack", "column_stack", "append", "insert", "delete",
    # element-wise / reductions / searches return new arrays or scalars (without out=)
    "interp", "clip", "where", "searchsorted", "diff", "cumsum", "cumprod", "sum", "prod", "mean", "median",
    "std", "var", "min", "max", "amin", "amax", "argmin", "argmax", "argsort", "sort", "unique", "all", "any",
    "abs", "absolute", "sign", "sqrt", "square", "exp", "log", "log10", "log2", "sin", "cos", "tan", "arctan2",
    "ceil", "floor", "round", "rint", "maximum", "minimum", "add", "subtract", "multiply", "divide",
    "power", "mod", "negative", "isfinite", "isnan", "isinf", "isclose", "allclose", "array_equal",
    "nonzero", "flatnonzero", "count_nonzero", "dot", "matmul", "outer", "inner", "cross", "trace", "kron",
    "float64", "float32", "int64", "int32", "bool_", "finfo", "iinfo", "shape", "ndim", "size",
    "linalg.norm", "linalg.inv", "linalg.solve", "linalg.cholesky", "linalg.eigvals", "linalg.eigh",
    "linalg.eig", "linalg.det", "linalg.lstsq", "linalg.pinv", "nan_to_num", "convolve", "gradient",
    "polyfit", "polyval", "trapz", "histogram", "percentile", "quantile", "average", "nanmean", "nanmax",
    "nanmin", "nansum", "isin", "logical_and", "logical_or", "logical_not", "array_str", "array_repr",
    "testing.assert_array_equal", "testing.assert_allclose", "testing.assert_array_almost_equal",
    "testing.assert_equal", "random.default_rng", "random.rand", "random.randn", "random.normal",
    "random.uniform", "random.randint",
}
# result is (or may be) a view of the first argument
NP_VIEW = {"asarray", "asanyarray", "ascontiguousarray", "asfortranarray", "atleast_1d", "atleast_2d",
           "atleast_3d", "reshape", "ravel", "squeeze", "transpose", "swapaxes", "moveaxis", "rollaxis",
           "broadcast_to", "broadcast_arrays", "expand_dims", "real", "imag", "diagonal", "split",
           "array_split", "hsplit", "vsplit", "dsplit", "flip", "fliplr", "flipud", "rot90", "require",
           "lib.stride_tricks.as_strided", "lib.stride_tricks.sliding_window_view", "nditer", "ndenumerate"}
# writes through argument #n
NP_MUTATE = {"copyto": 0, "place": 0, "put": 0, "putmask": 0, "fill_diagonal": 0, "put_along_axis": 0,
             "random.shuffle": 0, "ndarray.sort": 0, "ndarray.fill": 0}
# result has ndim >= 1 for sure
NP_SEQ = {"arange", "linspace", "logspace", "atleast_1d", "atleast_2d", "atleast_3d", "nonzero", "flatnonzero",
          "concatenate", "stack", "vstack", "hstack", "ravel", "unique", "argsort"}
# result has the shape of argument #n
NP_SEQ_FROM = {"searchsorted": 1, "clip": 0, "abs": 0, "asarray": 0, "array": 0, "copy": 0, "sort": 0,
               "cumsum": 0, "round": 0, "floor": 0, "ceil": 0, "isfinite": 0, "isnan": 0, "logical_not": 0}

# builtins that return a new container whose elements are (elements of) the arguments
BUILTIN_CONTAINER = {"list", "tuple", "set", "frozenset", "sorted", "dict", "enumerate", "zip", "reversed",
                     "iter", "map", "filter"}
BUILTIN_SEQ = {"list", "sorted"}
# builtins that return an immutable scalar / new string
BUILTIN_FRESH = {"len", "int", "float", "str", "bool", "complex", "range", "isinstance", "issubclass", "abs",
                 "round", "repr", "hash", "id", "print", "hasattr", "callable", "any", "all", "ord", "chr",
                 "format", "divmod", "pow", "sum", "type", "bytes", "ValueError", "TypeError", "KeyError",
                 "RuntimeError", "AttributeError", "IndexError", "AssertionError", "NotImplementedError"}

# methods whose result never aliases the receiver (numpy reductions/copies, str methods)
METHOD_FRESH = {"astype", "tolist", "sum", "mean", "std", "var", "min", "max", "argmin", "argmax", "argsort",
                "all", "any", "nonzero", "flatten", "item", "round", "cumsum", "cumprod", "dot", "prod",
                "trace", "tobytes", "keys", "lower", "upper", "strip", "lstrip", "rstrip", "split", "join",
                "format", "startswith", "endswith", "capitalize", "count", "index", "encode", "decode",
                "replace", "isdigit", "is_integer", "conj", "clip", "searchsorted", "total_seconds"}
# methods that modify the receiver in place
METHOD_MUTATE = {"sort", "fill", "put", "resize", "itemset", "setfield", "setflags", "partition", "byteswap",
                 "append", "extend", "insert", "pop", "remove", "clear", "update", "setdefault", "add", "discard",
                 "reverse", "popitem", "appendleft", "extendleft", "difference_update", "intersection_update",
                 "symmetric_difference_update", "__setitem__", "__delitem__", "__iadd__", "__imul__"}
# of those, the ones that add their arguments to the receiver's contents
METHOD_ADDS = {"append", "extend", "insert", "update", "setdefault", "add", "appendleft", "extendleft", "__setitem__"}

# external classes whose instances, when *called*, allocate the result
EXT_CALLABLE_FRESH = {"scipy.interpolate.interp1d", "scipy.interpolate.CubicSpline", "scipy.interpolate.PchipInterpolator",
                      "scipy.interpolate.Akima1DInterpolator", "scipy.interpolate.make_interp_spline",
                      "scipy.interpolate.BSpline", "scipy.interpolate.UnivariateSpline",
                      "scipy.interpolate.InterpolatedUnivariateSpline", "scipy.interpolate.interp2d",
                      "scipy.interpolate.RegularGridInterpolator"}
# modules whose functions return new objects and never write their arguments
EXT_PURE_MODULES = {"json", "time", "fnmatch", "math", "pathlib", "os.path", "re", "copy", "itertools",
                    "collections", "dataclasses", "typing", "enum", "warnings", "logging"}
# MuJoCo C-API bindings that only read their arguments; every other mujoco.mj*/mju* call is assumed
# to write through any array argument (the C API returns results through output arrays)
MUJOCO_READONLY = {"mj_name2id", "mj_id2name", "mj_version", "mj_versionString"}

# attributes of an ndarray that are immutable values (tuples / ints / dtype objects), not views of its memory
ND_ATTR_FRESH = {"shape", "ndim", "size", "dtype", "itemsize", "nbytes", "strides"}

SCALAR_ANN = {"int", "float", "str", "bool", "complex", "bytes", "None"}


# ------------------------------------------------------------------------------------------------
# program model


class FuncInfo:
    def __init__(self, mod, node, cls=None):
        self.mod = mod
        self.node = node
        self.cls = cls                      # ClassInfo or None
        self.name = node.name
        self.qual = (cls.name + "." if cls else "") + node.name
        decos = {_dotted(d) for d in node.decorator_list}
        self.static = "staticmethod" in decos
        self.classmethod = "classmethod" in decos
        self.private = node.name.startswith("_") and not (node.name.startswith("__") and node.name.endswith("__"))
        a = node.args
        self.params = [x.arg for x in a.posonlyargs + a.args]
        self.kwonly = [x.arg for x in a.kwonlyargs]
        self.vararg = a.vararg.arg if a.vararg else None
        self.kwarg = a.kwarg.arg if a.kwarg else None
        self.ann = {x.arg: x.annotation for x in a.posonlyargs + a.args + a.kwonlyargs}
        self.summary = None
        self.in_progress = False


class ClassInfo:
    def __init__(self, mod, node):
        self.mod = mod
        self.node = node
        self.name = node.name
        self.methods = {}
        self.fields = []                    # dataclass fields in order: (name, annotation)
        self.dataclass = any(_dotted(d.func if isinstance(d, ast.Call) else d).split(".")[-1] == "dataclass"
                             for d in node.decorator_list)
        self.bases = [_dotted(b) for b in node.bases]
        for st in node.body:
            if isinstance(st, (ast.FunctionDef, ast.AsyncFunctionDef)):
                self.methods[st.name] = FuncInfo(mod, st, self)
            elif isinstance(st, ast.AnnAssign) and isinstance(st.target, ast.Name):
                self.fields.append((st.target.id, st.annotation))


class ModuleInfo:
    def __init__(self, rel, dotted, src=None):
        self.rel = rel
        self.dotted = dotted
        path = os.path.join(cfront.REPO, rel)
        if src is None:
            try:
                src = open(path).read()
            except OSError as e:
                raise AnalysisError(f"anchor file missing: {rel} ({e})")
        try:
            self.tree = ast.parse(src, filename=path)
        except SyntaxError as e:
            raise AnalysisError(f"{rel}: does not parse: {e}")
        self.funcs = {}
        self.classes = {}
        self.imports = {}       # local alias -> dotted module or dotted module.attr
        self.globals = set()
        for st in self.tree.body:
            if isinstance(st, (ast.FunctionDef, ast.AsyncFunctionDef)):
                self.funcs[st.name] = FuncInfo(self, st)
            elif isinstance(st, ast.ClassDef):
                self.classes[st.name] = ClassInfo(self, st)
            elif isinstance(st, ast.Import):
                for al in st.names:
                    if al.asname:
                        self.imports[al.asname] = al.name
                    else:
                        self.imports[al.name.split(".")[0]] = al.name.split(".")[0]
            elif isinstance(st, ast.ImportFrom):
                for al in st.names:
                    self.imports[al.asname or al.name] = (st.module or "") + "." + al.name
            elif isinstance(st, (ast.Assign, ast.AnnAssign)):
                for t in (st.targets if isinstance(st, ast.Assign) else [st.target]):
                    if isinstance(t, ast.Name):
                        self.globals.add(t.id)


def _dotted(e) -> str:
    parts = []
    while isinstance(e, ast.Attribute):
        parts.append(e.attr)
        e = e.value
    if isinstance(e, ast.Name):
        parts.append(e.id)
        return ".".join(reversed(parts))
    return ""


def _ann_names(ann) -> set:
    """leaf type names of an annotation: `np.ndarray | None` -> {"np.ndarray", "None"}"""
    out = set()
    if ann is None:
        return out
    if isinstance(ann, ast.Constant) and isinstance(ann.value, str):
        try:
            return _ann_names(ast.parse(ann.value, mode="eval").body)
        except SyntaxError:
            return {ann.value}
    if isinstance(ann, ast.Constant) and ann.value is None:
        return {"None"}
    if isinstance(ann, ast.BinOp) and isinstance(ann.op, ast.BitOr):
        return _ann_names(ann.left) | _ann_names(ann.right)
    if isinstance(ann, ast.Subscript):
        head = _dotted(ann.value)
        if head.split(".")[-1] in ("Optional", "Union"):
            sl = ann.slice
            elts = sl.elts if isinstance(sl, ast.Tuple) else [sl]
            for e in elts:
                out |= _ann_names(e)
            if head.split(".")[-1] == "Optional":
                out.add("None")
            return out
        return {head + "[]"}
    d = _dotted(ann)
    return {d} if d else {"?"}


class Site:
    __slots__ = ("file", "line", "func", "kind", "target", "origins", "status", "detail")

    def __init__(self, file, line, func, kind, target, origins, status, detail=""):
        self.file, self.line, self.func, self.kind = file, line, func, kind
        self.target, self.origins, self.status, self.detail = target, frozenset(origins), status, detail

    def construct(self):
        o = "|".join(sorted(self.origins)) if self.origins else self.target
        return f"{self.func}:{self.kind}:{o}"


class Summary:
    def __init__(self):
        self.ret = None            # AV over the callee's own parameter origins (None: never returns a value)
        self.mutates = []          # (origin, kind, line, target) for in-place operations on parameter-owned memory
        self.sites = []            # all classified mutation sites of the function body
        self.self_fields = None    # for __init__/__post_init__: field -> AV stored on self
        self.owned = []            # parameters whose memory belongs to the caller (non-scalar), in order
        self.exempt = set()        # of those, the registry receivers (Program.exempt)


class Program:
    """exempt_receivers: {class name: reason} — `self` of these classes is not a series/array passed in."""

    def __init__(self, files, exempt_receivers=None, sources=None):
        """sources: {rel: text} analyses in-memory text instead of the file (front-end self-probes)"""
        self.mods = {}
        for rel in files:
            dotted = rel[:-3].replace("/", ".")
            if dotted.startswith("python."):
                dotted = dotted[len("python."):]
            self.mods[dotted] = ModuleInfo(rel, dotted, (sources or {}).get(rel))
        self.exempt = dict(exempt_receivers or {})
        self.private_called = set()      # qualnames of private helpers that are called inside the program
        self._scan_private_calls()
        self.results = []
        self.callsite_sites = []

    # -- lookups
    def find_module(self, dotted):
        return self.mods.get(dotted)

    def find_class(self, name):
        for m in self.mods.values():
            if name in m.classes:
                return m.classes[name]
        return None

    def field_is_nd(self, clsname, field):
        c = self.find_class(clsname)
        if not c:
            return False
        for n, ann in c.fields:
            if n == field:
                names = _ann_names(ann) - {"None"}
                return bool(names) and all(x.split(".")[-1] == "ndarray" for x in names)
        return False

    def all_functions(self):
        for m in self.mods.values():
            for f in m.funcs.values():
                yield f
            for c in m.classes.values():
                for f in c.methods.values():
                    yield f

    def _scan_private_calls(self):
        names = {}
        for f in self.all_functions():
            if f.private:
                names.setdefault(f.name, []).append(f)
        for m in self.mods.values():
            for n in ast.walk(m.tree):
                if isinstance(n, ast.Call):
                    fn = n.func
                    nm = fn.id if isinstance(fn, ast.Name) else fn.attr if isinstance(fn, ast.Attribute) else None
                    for f in names.get(nm, ()):
                        self.private_called.add(f.qual)

    # -- entry points and what they reach
    def is_entry_point(self, f: FuncInfo) -> bool:
        """a function whose parameters are owned by a caller outside the analysed modules: everything but the
        private helpers that are called inside the program (those are judged at their call sites)"""
        return not (f.private and f.qual in self.private_called)

    def reach(self, f: FuncInfo):
        """functions of the program reachable from f through calls (resolved by leaf name: an over-approximation)"""
        if not hasattr(self, "_by_name"):
            self._by_name = {}
            for g in self.all_functions():
                self._by_name.setdefault(g.name, []).append(g)
            self._callees = {}
        seen, todo = {}, [f]
        while todo:
            g = todo.pop()
            if g.qual in seen:
                continue
            seen[g.qual] = g
            if g.qual not in self._callees:
                out = []
                for n in ast.walk(g.node):
                    if isinstance(n, ast.Call):
                        fn = n.func
                        nm = fn.id if isinstance(fn, ast.Name) else fn.attr if isinstance(fn, ast.Attribute) else None
                        out.extend(self._by_name.get(nm, ()))
                self._callees[g.qual] = out
            todo.extend(self._callees[g.qual])
        return list(seen.values())

    # -- driver
    def summary(self, f: FuncInfo) -> Summary | None:
        if f.summary is not None:
            return f.summary
        if f.in_progress:
            return None              # recursion: caller falls back to the generic rule
        f.in_progress = True
        try:
            f.summary = FuncAnalyser(self, f).run()
        finally:
            f.in_progress = False
        return f.summary

    def analyse_all(self):
        out = []
        for f in self.all_functions():
            out.append((f, self.summary(f)))
        self.results = out
        return out


# ------------------------------------------------------------------------------------------------
# the analyser


class _Flow:
    def __init__(self):
        self.breaks = []
        self.continues = []


class FuncAnalyser:
    def __init__(self, prog: Program, f: FuncInfo, outer_env=None):
        self.prog = prog
        self.f = f
        self.mod = f.mod
        self.rel = f.mod.rel
        self.sum = Summary()
        self.ret = None
        self.loops = []
        self.sites = {}             # (id(node), kind) -> Site (last classification wins; it is monotone)
        self.outer_env = outer_env or {}
        self.assigned = {}          # name -> join of everything ever assigned (for nested functions)
        self.nested = []
        self.closures = {}
        self.closure_depth = 0
        self.locals = set()
        for n in ast.walk(f.node):
            if isinstance(n, ast.Name) and isinstance(n.ctx, (ast.Store, ast.Del)):
                self.locals.add(n.id)
            elif isinstance(n, (ast.Global, ast.Nonlocal)):
                raise AnalysisError(f"{self.rel}:{n.lineno}: global/nonlocal is not supported by the alias analysis")
            elif isinstance(n, ast.Await):
                raise AnalysisError(f"{self.rel}:{n.lineno}: coroutines are not supported by the alias analysis")
        # generator functions: for alias purposes a function that returns a fresh iterable whose elements are
        # (aliases of) the yielded values.  Only the plain producer protocol is interpreted: `yield v` /
        # `yield from xs` as statements; a value sent in, or a generator return value, is refused.
        self.is_generator = False
        self.yielded = None
        own = own_nodes(f.node)
        plain = {id(st.value) for st in own if isinstance(st, ast.Expr)}
        for n in own:
            if isinstance(n, (ast.Yield, ast.YieldFrom)):
                self.is_generator = True
                if id(n) not in plain:
                    raise AnalysisError(f"{self.rel}:{n.lineno}: the value of a yield expression (send protocol) is not "
                                        f"supported by the alias analysis")
        if self.is_generator:
            if isinstance(f.node, ast.AsyncFunctionDef):
                raise AnalysisError(f"{self.rel}:{f.node.lineno}: async generators are not supported by the alias analysis")
            for n in own:
                if isinstance(n, ast.Return) and n.value is not None and not \
                        (isinstance(n.value, ast.Constant) and n.value.value is None):
                    raise AnalysisError(f"{self.rel}:{n.lineno}: a generator return value is not supported by the alias analysis")
        self.locals |= set(f.params) | set(f.kwonly)
        if f.vararg:
            self.locals.add(f.vararg)
        if f.kwarg:
            self.locals.add(f.kwarg)

    # ---- parameters
    def param_value(self, name, index):
        f = self.f
        if f.cls is not None and index == 0 and not f.static:
            if f.classmethod:
                return AV(ext=("classref", f.cls.name))
            return AV({name}, cls=f.cls.name)
        names = _ann_names(f.ann.get(name)) if f.ann.get(name) is not None else set()
        core = names - {"None"}
        if core and all(x in SCALAR_ANN for x in core):
            return FRESH                                   # immutable scalar: nothing to mutate
        cls = None
        nd = False
        if core and len(core) == 1:
            leaf = next(iter(core)).split(".")[-1]
            if self.prog.find_class(leaf) is not None:
                cls = leaf
            elif leaf == "ndarray":
                nd = True
        return AV({name}, cls=cls, nd=nd)

    def run(self):
        f = self.f
        env = dict(self.outer_env)
        i = 0
        for i, p in enumerate(f.params):
            env[p] = self.param_value(p, i)
        for p in f.kwonly:
            env[p] = self.param_value(p, 99)
        if f.vararg:
            env[f.vararg] = AV({f.vararg}, seq=False)
        if f.kwarg:
            env[f.kwarg] = AV({f.kwarg})
        for p in list(f.params) + list(f.kwonly) + [x for x in (f.vararg, f.kwarg) if x]:
            self.note_assigned(p, env[p])          # closures see the enclosing function's parameters
            if env[p].own:
                self.sum.owned.append(p)
                if self.exempt_origins({p}):
                    self.sum.exempt.add(p)
        # defaults are evaluated for their side-effect checks only
        end = self.block(f.node.body, env)
        if end is not None and self.ret is None:
            pass
        self.sum.ret = self.ret
        if self.is_generator:
            y = self.yielded
            self.sum.ret = AV(frozenset(), y.all() if y is not None else frozenset())
        if f.name in ("__init__", "__post_init__") and f.cls is not None and f.params:
            final = end if end is not None else env
            sv = final.get(f.params[0])
            self.sum.self_fields = dict(sv.fields) if sv is not None and sv.fields else {}
        for nf, nenv in self.nested:
            sub = FuncAnalyser(self.prog, nf, outer_env=dict(self.assigned))
            s = sub.run()
            for st in s.sites:
                self.sites[(id(st), "nested")] = st
        self.sum.sites = sorted(self.sites.values(), key=lambda s: (s.line, s.kind, s.target))
        for s in self.sum.sites:
            if s.status in ("view", "deferred"):
                for o in s.origins:
                    self.sum.mutates.append((o, s.kind, s.line, s.target))
        return self.sum

    # ---- statements
    def block(self, stmts, env):
        for st in stmts:
            if env is None:
                return None
            env = self.stmt(st, env)
        return env

    def stmt(self, st, env):
        m = getattr(self, "s_" + type(st).__name__, None)
        if m is None:
            raise AnalysisError(f"{self.rel}:{st.lineno}: statement {type(st).__name__} is not supported by the alias analysis")
        return m(st, env)

    def s_Pass(self, st, env):
        return env

    def s_Import(self, st, env):
        return env

    s_ImportFrom = s_Import

    def s_Expr(self, st, env):
        self.ev(st.value, env)
        return env

    def s_Assert(self, st, env):
        self.ev(st.test, env)
        if st.msg is not None:
            self.ev(st.msg, env)
        return env

    def s_Raise(self, st, env):
        if st.exc is not None:
            self.ev(st.exc, env)
        return None

    def s_Return(self, st, env):
        v = self.ev(st.value, env) if st.value is not None else FRESH
        self.ret = join(self.ret, v)
        return None

    def s_Break(self, st, env):
        if self.loops:
            self.loops[-1].breaks.append(env)
        return None

    def s_Continue(self, st, env):
        if self.loops:
            self.loops[-1].continues.append(env)
        return None

    def s_Delete(self, st, env):
        env = dict(env)
        for t in st.targets:
            if isinstance(t, ast.Name):
                env.pop(t.id, None)          # unbinding a local name is not a mutation
            elif isinstance(t, ast.Subscript):
                base = self.ev(t.value, env)
                self.ev_index(t.slice, env)
                self.record(t, "subscript-delete", t.value, base)
            elif isinstance(t, ast.Attribute):
                base = self.ev(t.value, env)
                self.record(t, "attribute-delete", t.value, base)
        return env

    def s_FunctionDef(self, st, env):
        nf = FuncInfo(self.mod, st, None)
        nf.qual = self.f.qual + "." + st.name
        nf.private = False               # closures are judged in place (free variables: join of all assignments)
        self.nested.append((nf, env))
        self.closures[st.name] = nf
        env = dict(env)
        # what a call of the closure may hand back: anything its free variables hold (judged when it is called)
        bound = set(nf.params) | set(nf.kwonly) | {x for x in (nf.vararg, nf.kwarg) if x}
        free = {n.id for n in ast.walk(st) if isinstance(n, ast.Name) and isinstance(n.ctx, ast.Load)} - bound
        env[st.name] = AV(ext=("closure", st.name, tuple(sorted(free))))
        return env

    def s_Assign(self, st, env):
        v = self.ev(st.value, env)
        env = dict(env)
        for t in st.targets:
            self.assign(t, v, env, st.value)
        return env

    def s_AnnAssign(self, st, env):
        if st.value is None:
            return env
        v = self.ev(st.value, env)
        env = dict(env)
        self.assign(st.target, v, env, st.value)
        return env

    def s_AugAssign(self, st, env):
        v = self.ev(st.value, env)
        env = dict(env)
        t = st.target
        if isinstance(t, ast.Name):
            cur = env.get(t.id) or self.name_value(t.id, env)
            # `x += v` on a list/array is in place; on an immutable scalar it rebinds.  Scalars are FRESH.
            self.record(st, "augmented-assignment", t, cur)
            if not cur.nd:
                cur = AV(cur.own, cur.elems | v.all(), cur.fields, cur.cls, cur.nd, cur.seq, cur.ext)
            env[t.id] = cur
            self.note_assigned(t.id, cur)
        elif isinstance(t, ast.Subscript):
            base = self.ev(t.value, env)
            self.ev_index(t.slice, env)
            self.record(st, "augmented-subscript-store", t.value, base)
            self.weak_add(t.value, base, v, env)
        elif isinstance(t, ast.Attribute):
            obj = self.ev(t.value, env)
            cur = attr_of(obj, t.attr, self.prog)
            # in-place on the attribute's value, and a store on the object
            both = AV(cur.own | obj.own, nd=cur.nd)
            self.record(st, "augmented-attribute-store", t, both)
        else:
            raise AnalysisError(f"{self.rel}:{st.lineno}: unsupported augmented-assignment target")
        return env

    def s_If(self, st, env):
        self.ev(st.test, env)
        a = self.block(st.body, env)
        b = self.block(st.orelse, env)
        return self.join_env(a, b)

    def s_While(self, st, env):
        return self.loop(st, env, None)

    def s_For(self, st, env):
        return self.loop(st, env, st)

    s_AsyncFor = s_For

    def loop(self, st, env, forst):
        flow = _Flow()
        self.loops.append(flow)
        head = env
        exit_env = None
        for _ in range(20):
            cur = dict(head)
            if forst is not None:
                it = self.ev(forst.iter, cur)
                self.assign(forst.target, self.element_of(it), cur, None)
            else:
                self.ev(st.test, cur)
            flow.continues = []
            body_out = self.block(st.body, cur)
            back = body_out
            for c in flow.continues:
                back = self.join_env(back, c)
            new_head = self.join_env(head, back)
            if self.env_key(new_head) == self.env_key(head):
                break
            head = new_head
        else:
            raise AnalysisError(f"{self.rel}:{st.lineno}: alias fixpoint did not converge")
        self.loops.pop()
        # loop exit: condition false at head (or iterator exhausted), then orelse; or a break
        out = dict(head)
        if forst is None:
            self.ev(st.test, out)
        out = self.block(st.orelse, out) if st.orelse else out
        for b in flow.breaks:
            out = self.join_env(out, b)
        return out

    def s_With(self, st, env):
        env = dict(env)
        for item in st.items:
            v = self.ev(item.context_expr, env)
            if item.optional_vars is not None:
                self.assign(item.optional_vars, v, env, None)
        return self.block(st.body, env)

    s_AsyncWith = s_With

    def s_Try(self, st, env):
        body = self.block(st.body, env)
        # an exception may leave the body after any prefix: handlers start from the join of both ends
        hstart = self.join_env(env, body)
        outs = []
        for h in st.handlers:
            henv = dict(hstart) if hstart is not None else dict(env)
            if h.name:
                henv[h.name] = FRESH
            outs.append(self.block(h.body, henv))
        els = self.block(st.orelse, body) if st.orelse else body
        out = els
        for o in outs:
            out = self.join_env(out, o)
        if st.finalbody:
            out = self.block(st.finalbody, out if out is not None else dict(hstart or env))
        return out

    s_TryStar = s_Try

    # ---- environments
    def join_env(self, a, b):
        if a is None:
            return b
        if b is None:
            return a
        if a is b:
            return a
        out = {}
        for k in set(a) | set(b):
            out[k] = join(a.get(k), b.get(k))
        return out

    def env_key(self, env):
        if env is None:
            return None
        return tuple(sorted((k, v.key()) for k, v in env.items()))

    def note_assigned(self, name, v):
        self.assigned[name] = join(self.assigned.get(name), v)

    # ---- assignment
    def assign(self, t, v, env, rhs_node):
        if isinstance(t, ast.Name):
            env[t.id] = v
            self.note_assigned(t.id, v)
        elif isinstance(t, (ast.Tuple, ast.List)):
            if isinstance(rhs_node, (ast.Tuple, ast.List)) and len(rhs_node.elts) == len(t.elts) and \
                    not any(isinstance(e, ast.Starred) for e in list(t.elts) + list(rhs_node.elts)):
                for te, re_ in zip(t.elts, rhs_node.elts):
                    self.assign(te, self.ev(re_, env), env, re_)
            elif v.ext == ("tuple", len(t.elts)) and v.fields is not None and not v.own and \
                    not any(isinstance(te, ast.Starred) for te in t.elts) and \
                    all("#%d" % i in v.fields for i in range(len(t.elts))):
                for i, te in enumerate(t.elts):
                    self.assign(te, v.fields["#%d" % i], env, None)
            else:
                ev = self.element_of(v)
                for te in t.elts:
                    if isinstance(te, ast.Starred):
                        self.assign(te.value, AV(frozenset(), ev.all()), env, None)
                    else:
                        self.assign(te, ev, env, None)
        elif isinstance(t, ast.Starred):
            self.assign(t.value, v, env, None)
        elif isinstance(t, ast.Subscript):
            base = self.ev(t.value, env)
            self.ev_index(t.slice, env)
            self.record(t, "subscript-store", t.value, base)
            self.weak_add(t.value, base, v, env)
        elif isinstance(t, ast.Attribute):
            obj = self.ev(t.value, env)
            self.attr_store(t, obj, t.attr, v, env)
        else:
            raise AnalysisError(f"{self.rel}:{getattr(t, 'lineno', 0)}: unsupported assignment target {type(t).__name__}")

    def attr_store(self, node, obj, attr, v, env):
        f = self.f
        is_self = (isinstance(node, ast.Attribute) and isinstance(node.value, ast.Name) and f.cls is not None
                   and f.params and node.value.id == f.params[0] and not f.static and not f.classmethod)
        if is_self and f.name in ("__init__", "__post_init__"):
            self.put_site(node, "attribute-store", _text(node), obj.own, "init",
                          "initialisation of the object under construction")
        else:
            self.record(node, "attribute-store", node, obj)
        # strong update of a tracked local object
        tgt = node.value if isinstance(node, ast.Attribute) else None
        if isinstance(tgt, ast.Name) and tgt.id in env:
            cur = env[tgt.id]
            fields = dict(cur.fields) if cur.fields is not None else {}
            fields[attr] = v
            env[tgt.id] = AV(cur.own, cur.elems, fields, cur.cls, cur.nd, cur.seq, cur.ext)

    def weak_add(self, base_node, base, v, env):
        """container[...] = v: the container's contents may now include v (numeric arrays copy values)"""
        if base.nd:
            return
        if isinstance(base_node, ast.Name) and base_node.id in env:
            cur = env[base_node.id]
            add = v.all()
            if add - cur.elems:
                env[base_node.id] = AV(cur.own, cur.elems | add, cur.fields, cur.cls, cur.nd, cur.seq, cur.ext)

    # ---- site recording
    def put_site(self, node, kind, target, origins, status, detail=""):
        key = (id(node), kind)
        line = getattr(node, "lineno", 0)
        old = self.sites.get(key)
        if old is not None:
            origins = set(origins) | set(old.origins)
            rank = {"fresh": 0, "init": 1, "config": 2, "deferred": 3, "view": 4}
            if rank[old.status] > rank[status]:
                status, detail = old.status, old.detail
        self.sites[key] = Site(self.rel, line, self.f.qual, kind, target, origins, status, detail)

    def record(self, node, kind, target_node, v: AV, detail=""):
        target = _text(target_node) if isinstance(target_node, ast.AST) else str(target_node)
        origins = set(v.own)
        if not origins:
            self.put_site(node, kind, target, (), "fresh", detail)
            return
        ex = self.exempt_origins(origins)
        live = origins - ex
        if not live:
            self.put_site(node, kind, target, origins, "config",
                          "receiver is " + self.f.cls.name + " configuration: " + self.prog.exempt[self.f.cls.name])
            return
        if self.f.private and self.f.qual in self.prog.private_called:
            self.put_site(node, kind, target, live, "deferred", detail or "private helper: judged at its call sites")
            return
        self.put_site(node, kind, target, live, "view", detail)

    def exempt_origins(self, origins):
        f = self.f
        if f.cls is None or f.cls.name not in self.prog.exempt or f.static or f.classmethod or not f.params:
            return set()
        root = f.params[0]
        return {o for o in origins if o == root or o.startswith(root + ".")}

    # ---- expressions
    def ev(self, e, env) -> AV:
        m = getattr(self, "e_" + type(e).__name__, None)
        if m is None:
            raise AnalysisError(f"{self.rel}:{getattr(e, 'lineno', 0)}: expression {type(e).__name__} is not supported by the alias analysis")
        return m(e, env)

    def e_Constant(self, e, env):
        return FRESH

    def e_JoinedStr(self, e, env):
        for v in e.values:
            if isinstance(v, ast.FormattedValue):
                self.ev(v.value, env)
        return FRESH

    def e_FormattedValue(self, e, env):
        self.ev(e.value, env)
        return FRESH

    def name_value(self, name, env):
        if name in env:
            return env[name]
        if name in self.locals:
            return FRESH                          # unbound on this path
        mod = self.mod
        if name in mod.imports:
            return AV(ext=("module", mod.imports[name]))
        if name in mod.classes:
            return AV(ext=("classref", name))
        return FRESH                              # module constant / builtin: not caller-owned

    def e_Name(self, e, env):
        return self.name_value(e.id, env)

    def e_Attribute(self, e, env):
        v = self.ev(e.value, env)
        if v.ext and v.ext[0] == "module":
            dotted = v.ext[1] + "." + e.attr
            leaf_mod = self.prog.find_module(v.ext[1])
            if leaf_mod is not None and e.attr in leaf_mod.classes:
                return AV(ext=("classref", e.attr))
            return AV(ext=("module", dotted))
        if v.ext and v.ext[0] == "classref":
            return FRESH                          # class attribute / enum member
        return attr_of(v, e.attr, self.prog)

    def is_fancy_index(self, sl, env):
        """index contains a definite sequence/array (or boolean mask): numpy copies"""
        elts = sl.elts if isinstance(sl, ast.Tuple) else [sl]
        for x in elts:
            if isinstance(x, ast.Slice) or (isinstance(x, ast.Constant)):
                continue
            if isinstance(x, (ast.List, ast.ListComp)):
                return True
            v = self.ev(x, env)
            if v.seq:
                return True
        return False

    def ev_index(self, sl, env):
        if isinstance(sl, ast.Slice):
            for p in (sl.lower, sl.upper, sl.step):
                if p is not None:
                    self.ev(p, env)
            return FRESH
        if isinstance(sl, ast.Tuple):
            for x in sl.elts:
                self.ev_index(x, env)
            return FRESH
        return self.ev(sl, env)

    def e_Subscript(self, e, env):
        v = self.ev(e.value, env)
        self.ev_index(e.slice, env)
        if v.ext and v.ext[0] in ("module", "classref"):
            return FRESH                          # typing subscripts such as dict[str, float]
        if v.ext and v.ext[0] == "tuple" and v.fields is not None and not v.own:
            k = e.slice.value if isinstance(e.slice, ast.Constant) and isinstance(e.slice.value, int) and \
                not isinstance(e.slice.value, bool) else None
            if k is not None and -v.ext[1] <= k < v.ext[1] and "#%d" % (k % v.ext[1]) in v.fields:
                return v.fields["#%d" % (k % v.ext[1])]
        if self.is_fancy_index(e.slice, env):
            return fresh(nd=True, seq=True)
        own = v.own | v.elems
        r = AV(own, nd=v.nd)
        if v.nd and isinstance(e.slice, ast.Slice):
            r.seq = v.seq
        return r

    def e_Slice(self, e, env):
        return self.ev_index(e, env)

    def e_Starred(self, e, env):
        return self.ev(e.value, env)

    def e_BinOp(self, e, env):
        a = self.ev(e.left, env)
        b = self.ev(e.right, env)
        if a.nd or b.nd:
            return fresh(nd=True, seq=a.seq or b.seq)
        # list concatenation/repetition: new container, same elements; array arithmetic: new numbers
        if isinstance(e.op, ast.Mult) and a.seq != b.seq:
            lst = a if a.seq else b            # `[x] * n`: the elements come from the list operand only
            return AV(frozenset(), lst.elems, seq=True)
        return AV(frozenset(), a.elems | b.elems, seq=a.seq or b.seq)

    def e_UnaryOp(self, e, env):
        a = self.ev(e.operand, env)
        return fresh(nd=a.nd, seq=a.seq)

    def e_BoolOp(self, e, env):
        r = None
        for v in e.values:
            r = join(r, self.ev(v, env))
        return r

    def e_Compare(self, e, env):
        a = self.ev(e.left, env)
        seq = a.seq
        for c in e.comparators:
            seq = self.ev(c, env).seq or seq
        elementwise = all(isinstance(o, (ast.Lt, ast.LtE, ast.Gt, ast.GtE, ast.Eq, ast.NotEq)) for o in e.ops)
        return fresh(nd=seq and elementwise, seq=seq and elementwise)

    def e_IfExp(self, e, env):
        self.ev(e.test, env)
        return join(self.ev(e.body, env), self.ev(e.orelse, env))

    def e_NamedExpr(self, e, env):
        v = self.ev(e.value, env)
        env[e.target.id] = v          # env is the caller's dict; statements copy before calling ev on stores
        return v

    def e_Yield(self, e, env):
        v = self.ev(e.value, env) if e.value is not None else FRESH
        self.yielded = join(self.yielded, v)
        return FRESH                      # only reached as an expression statement (checked in __init__)

    def e_YieldFrom(self, e, env):
        self.yielded = join(self.yielded, self.element_of(self.ev(e.value, env)))
        return FRESH

    def e_Lambda(self, e, env):
        lenv = dict(env)
        for a in e.args.posonlyargs + e.args.args + e.args.kwonlyargs:
            lenv[a.arg] = FRESH
        self.ev(e.body, lenv)
        return FRESH

    def container(self, elts, env, seq=False):
        s = set()
        for x in elts:
            if x is None:
                continue
            s |= self.ev(x, env).all()
        return AV(frozenset(), s, seq=seq)

    def e_Tuple(self, e, env):
        r = self.container(e.elts, env)
        if e.elts and not any(isinstance(x, ast.Starred) for x in e.elts):
            # a tuple is immutable and of known length: its elements are tracked by position, so that
            # `a, b = helper(..)` / `helper(..)[1]` see the value that was put there (elems stays the union)
            r.fields = {"#%d" % i: self.ev(x, env) for i, x in enumerate(e.elts)}
            r.ext = ("tuple", len(e.elts))
        return r

    def e_List(self, e, env):
        return self.container(e.elts, env, seq=True)

    def e_Set(self, e, env):
        return self.container(e.elts, env)

    def e_Dict(self, e, env):
        return self.container(list(e.keys) + list(e.values), env)

    def comp(self, e, elts, env, seq=False):
        cenv = dict(env)
        for g in e.generators:
            it = self.ev(g.iter, cenv)
            self.assign(g.target, self.element_of(it), cenv, None)
            for c in g.ifs:
                self.ev(c, cenv)
        s = set()
        for x in elts:
            s |= self.ev(x, cenv).all()
        return AV(frozenset(), s, seq=seq)

    def e_ListComp(self, e, env):
        return self.comp(e, [e.elt], env, seq=True)

    def e_SetComp(self, e, env):
        return self.comp(e, [e.elt], env)

    def e_GeneratorExp(self, e, env):
        return self.comp(e, [e.elt], env)

    def e_DictComp(self, e, env):
        return self.comp(e, [e.key, e.value], env)

    def element_of(self, v: AV) -> AV:
        """value obtained by iterating / unpacking v"""
        s = set(v.own) | set(v.elems)
        if v.fields:
            for x in v.fields.values():
                s |= x.all()
        return AV(s)

    # ---- calls
    def e_Call(self, e, env):
        args = [self.ev(a, env) for a in e.args]
        kws = {}
        for k in e.keywords:
            kv = self.ev(k.value, env)
            kws[k.arg if k.arg is not None else "**"] = kv
        # out= always writes through the named value, whatever the callee
        if "out" in kws:
            for k in e.keywords:
                if k.arg == "out":
                    targets = k.value.elts if isinstance(k.value, ast.Tuple) else [k.value]
                    for tnode in targets:
                        self.record(k, "out-argument", tnode, self.ev(tnode, env))
        fn = e.func
        allv = list(args) + list(kws.values())

        def generic(extra=()):
            s = set()
            for v in list(allv) + list(extra):
                s |= v.all()
            if "out" in kws:
                s |= kws["out"].all()
            return AV(s)

        # ---- callee given by a (dotted) name
        if isinstance(fn, ast.Name):
            name = fn.id
            if name in env or name in self.locals:
                cv = self.name_value(name, env)
                if cv.ext and cv.ext[0] == "classref":
                    return self.construct(e, cv.ext[1], args, kws, env)
                if cv.ext in EXT_CALLABLE_FRESH:
                    return fresh(nd=True)
                if cv.ext and cv.ext[0] == "closure":
                    return self.call_closure(cv, args, kws, env, generic)
                return generic([cv])
            mod = self.mod
            if name in mod.funcs:
                return self.call_repo(e, mod.funcs[name], None, args, kws, env, generic)
            if name in mod.classes:
                return self.construct(e, name, args, kws, env)
            if name in mod.imports:
                return self.call_dotted(e, mod.imports[name], args, kws, env, generic)
            if name in BUILTIN_FRESH:
                return FRESH
            if name in BUILTIN_CONTAINER:
                s = set()
                for v in allv:
                    s |= v.all()
                return AV(frozenset(), s, seq=name in BUILTIN_SEQ)
            if name == "getattr" or name == "next" or name in ("min", "max"):
                return generic()
            if name == "object":
                return FRESH
            if name == "setattr" and len(e.args) >= 3:
                self.record(e, "attribute-store", e.args[0], args[0], "setattr()")
                return FRESH
            return generic()
        if isinstance(fn, ast.Attribute):
            # object.__setattr__(self, "name", value): the frozen-dataclass way of storing a field
            if fn.attr == "__setattr__" and isinstance(fn.value, ast.Name) and fn.value.id == "object" and len(e.args) == 3:
                if isinstance(e.args[1], ast.Constant) and isinstance(e.args[1].value, str):
                    fake = ast.Attribute(value=e.args[0], attr=e.args[1].value, ctx=ast.Store())
                    ast.copy_location(fake, e)
                    self.attr_store_env(fake, e, args[0], e.args[1].value, args[2], env)
                    return FRESH
            recv = self.ev(fn.value, env)
            if recv.ext and recv.ext[0] == "module":
                return self.call_dotted(e, recv.ext[1] + "." + fn.attr, args, kws, env, generic)
            if recv.ext and recv.ext[0] == "classref":
                ci = self.prog.find_class(recv.ext[1])
                if ci is not None and fn.attr in ci.methods:
                    m = ci.methods[fn.attr]
                    if m.static:
                        return self.call_repo(e, m, None, args, kws, env, generic)
                    if m.classmethod:
                        return self.call_repo(e, m, AV(ext=("classref", ci.name)), args, kws, env, generic)
                    if args:
                        return self.call_repo(e, m, args[0], args[1:], kws, env, generic)
                return generic()
            return self.call_method(e, fn, recv, args, kws, env, generic)
        # ---- callee is the result of an expression (e.g. interp1d(...)(t))
        cv = self.ev(fn, env)
        if cv.ext in EXT_CALLABLE_FRESH:
            return fresh(nd=True)
        return generic([cv])

    def call_closure(self, cv, args, kws, env, generic):
        """result of calling a closure defined in this function: its body is analysed with the values its free
        variables have at the call (late binding); origins of the enclosing function stay as they are, its own
        parameters are replaced by the actual arguments.  Its in-place sites are recorded once, by run()."""
        nf = self.closures.get(cv.ext[1])
        cap = [env[v] for v in cv.ext[2] if v in env] + [self.assigned[v] for v in cv.ext[2] if v in self.assigned]
        if nf is None or self.closure_depth >= 3:
            return generic(cap)                 # anything it captures or is given
        outer = dict(self.assigned)
        outer.update(env)
        sub = FuncAnalyser(self.prog, nf, outer_env=outer)
        sub.closure_depth = self.closure_depth + 1
        ssum = sub.run()
        return self.subst(ssum.ret, self.bind(nf, None, args, kws), keep_unbound=True)

    def attr_store_env(self, fake, callnode, obj, attr, v, env):
        # same as attr_store but keyed on the call node
        f = self.f
        tgt = fake.value
        is_self = (isinstance(tgt, ast.Name) and f.cls is not None and f.params and tgt.id == f.params[0])
        if is_self and f.name in ("__init__", "__post_init__"):
            self.put_site(callnode, "attribute-store", _text(tgt) + "." + attr, obj.own, "init",
                          "initialisation of the object under construction")
        else:
            self.record(callnode, "attribute-store", tgt, obj, "object.__setattr__")
        if isinstance(tgt, ast.Name) and tgt.id in env:
            cur = env[tgt.id]
            fields = dict(cur.fields) if cur.fields is not None else {}
            fields[attr] = v
            env[tgt.id] = AV(cur.own, cur.elems, fields, cur.cls, cur.nd, cur.seq, cur.ext)

    def call_dotted(self, e, dotted, args, kws, env, generic):
        parts = dotted.split(".")
        # a function / class of one of the analysed modules
        for i in range(len(parts) - 1, 0, -1):
            m = self.prog.find_module(".".join(parts[:i]))
            if m is not None:
                rest = parts[i:]
                if len(rest) == 1 and rest[0] in m.funcs:
                    return self.call_repo(e, m.funcs[rest[0]], None, args, kws, env, generic)
                if len(rest) == 1 and rest[0] in m.classes:
                    return self.construct(e, rest[0], args, kws, env)
                if len(rest) == 2 and rest[0] in m.classes and rest[1] in m.classes[rest[0]].methods:
                    mm = m.classes[rest[0]].methods[rest[1]]
                    if mm.static:
                        return self.call_repo(e, mm, None, args, kws, env, generic)
                    if mm.classmethod:
                        return self.call_repo(e, mm, AV(ext=("classref", rest[0])), args, kws, env, generic)
                return generic()
        root = parts[0]
        if root == "numpy":
            name = ".".join(parts[1:])
            if name in NP_MUTATE and len(e.args) > NP_MUTATE[name]:
                i = NP_MUTATE[name]
                self.record(e, "numpy-inplace:" + name, e.args[i], args[i])
                return FRESH
            if len(parts) >= 3 and parts[-1] == "at" and e.args:        # ufunc.at(a, idx, b)
                self.record(e, "numpy-inplace:" + name, e.args[0], args[0])
                return FRESH
            if "out" in kws:
                return kws["out"]
            if name in NP_VIEW:
                if name == "array" or not args:
                    return generic()
                a0 = args[0]
                seq = name in NP_SEQ or a0.seq
                if name in ("asarray", "asanyarray") and ("dtype" in kws or len(args) > 1):
                    # may or may not copy: stays a possible view
                    pass
                return AV(a0.own | a0.elems if not a0.nd else a0.own, nd=True, seq=seq)
            if name in NP_FRESH:
                if name in ("array", "asarray", "copy") and "copy" in kws:
                    return generic()
                seq = name in NP_SEQ
                if name in NP_SEQ_FROM and len(args) > NP_SEQ_FROM[name]:
                    seq = seq or args[NP_SEQ_FROM[name]].seq
                if name in ("array",) and e.args and isinstance(e.args[0], (ast.List, ast.ListComp, ast.Tuple)):
                    seq = True
                return fresh(nd=True, seq=seq)
            return generic()
        if root == "mujoco":
            leaf = parts[-1]
            if leaf.startswith(("mj_", "mju_", "mjv_", "mjr_", "mjd_", "mjs_")) and leaf not in MUJOCO_READONLY:
                for i, a in enumerate(e.args):
                    if args[i].own and (args[i].nd or not args[i].cls):
                        self.record(a, "mujoco-call:" + leaf, a, args[i],
                                    "MuJoCo C-API calls return results through array arguments")
            return generic()
        if dotted in EXT_CALLABLE_FRESH:
            r = generic()
            r.ext = dotted
            return r
        for pm in EXT_PURE_MODULES:
            if dotted == pm or dotted.startswith(pm + "."):
                if dotted in ("copy.copy",):
                    s = set()
                    for v in args:
                        s |= v.elems
                    return AV(frozenset(), s)
                if dotted == "dataclasses.replace" and args:
                    return self.dc_replace(args[0], kws)
                return FRESH if dotted != "collections.abc" else generic()
        return generic()

    def dc_replace(self, obj, kws):
        fields = dict(obj.fields) if obj.fields is not None else None
        if fields is None:
            ci = self.prog.find_class(obj.cls) if obj.cls else None
            if ci is None:
                s = set(obj.all())
                for v in kws.values():
                    s |= v.all()
                return AV(frozenset(), s)
            fields = {n: attr_of(obj, n, self.prog) for n, _ in ci.fields}
        for k, v in kws.items():
            fields[k] = v
        return AV(frozenset(), frozenset(), fields, obj.cls)

    def call_method(self, e, fn, recv, args, kws, env, generic):
        name = fn.attr
        allv = list(args) + list(kws.values())
        # methods of a class of the analysed modules, when the receiver's class is known
        if recv.cls is not None:
            ci = self.prog.find_class(recv.cls)
            if ci is not None and name in ci.methods:
                m = ci.methods[name]
                if m.static:
                    return self.call_repo(e, m, None, args, kws, env, generic)
                if m.classmethod:
                    return self.call_repo(e, m, AV(ext=("classref", ci.name)), args, kws, env, generic)
                return self.call_repo(e, m, recv, args, kws, env, generic)
        if recv.ext in EXT_CALLABLE_FRESH:
            return fresh(nd=True)
        if name in METHOD_MUTATE:
            self.record(e, "inplace-method:" + name, fn.value, recv)
            # dict keys are hashable, hence immutable: only the value arguments become contents / results
            vals = allv[1:] if name in ("setdefault", "__setitem__", "insert") and args else \
                ([] if name == "pop" and len(args) <= 1 else allv[1:] if name == "pop" else allv)
            if name in METHOD_ADDS and not recv.nd:
                add = set()
                for v in vals:
                    add |= v.all()
                self.weak_add_expr(fn.value, add, env)
            if name in ("pop", "setdefault", "popitem"):
                s = set(recv.own) | set(recv.elems)
                for v in vals:
                    s |= v.all()
                return AV(s)
            return FRESH
        if name == "copy" and not args:
            if recv.nd:
                return fresh(nd=True, seq=recv.seq)
            # shallow copy of a list/dict/object: new container, same elements
            return AV(frozenset(), recv.own | recv.elems, recv.fields, recv.cls, recv.nd, recv.seq)
        if name in METHOD_FRESH:
            if name == "astype" and ("copy" in kws or len(args) > 1):
                return generic([recv])
            if name == "clip" and "out" in kws:
                return kws["out"]
            if name == "tolist" and not recv.nd:
                return AV(frozenset(), recv.elems)
            return fresh(nd=name in ("astype", "flatten", "cumsum", "cumprod", "clip", "argsort", "round"),
                         seq=recv.seq if name in ("astype", "clip", "round") else name in ("flatten", "argsort"))
        if name in ("items", "values"):
            return AV(frozenset(), recv.own | recv.elems)
        if name == "get":
            # dict.get(key, default): an element or the default, never the (hashable, immutable) key
            s = set(recv.own) | set(recv.elems)
            for v in allv[1:]:
                s |= v.all()
            return AV(s)
        if name in ("reshape", "ravel", "view", "squeeze", "transpose", "swapaxes"):
            return AV(recv.own | (recv.elems if not recv.nd else frozenset()), nd=recv.nd, seq=name == "ravel" or recv.seq)
        return generic([recv])

    def weak_add_expr(self, node, add, env):
        if isinstance(node, ast.Name) and node.id in env:
            cur = env[node.id]
            if add - cur.elems:
                env[node.id] = AV(cur.own, cur.elems | add, cur.fields, cur.cls, cur.nd, cur.seq, cur.ext)

    # ---- calls into the analysed modules
    def bind(self, f: FuncInfo, recv, args, kws):
        """actual AV per callee parameter name (missing: callee default, FRESH)"""
        actual = {}
        params = list(f.params)
        if f.cls is not None and not f.static and params:
            actual[params[0]] = recv if recv is not None else FRESH
            params = params[1:]
        for p, a in zip(params, args):
            actual[p] = a
        if len(args) > len(params) and f.vararg:
            s = set()
            for a in args[len(params):]:
                s |= a.all()
            actual[f.vararg] = AV(frozenset(), s)
        for k, v in kws.items():
            if k in f.params or k in f.kwonly:
                actual[k] = v
            elif f.kwarg and k != "**":
                cur = actual.get(f.kwarg, FRESH)
                actual[f.kwarg] = AV(frozenset(), cur.elems | v.all())
        return actual

    def subst(self, v: AV | None, actual, keep_unbound=False) -> AV:
        """keep_unbound: origins that are not parameters of the callee are origins of the caller already (closures)"""
        if v is None:
            return FRESH

        def resolve(o):
            parts = o.split(".")
            a = actual.get(parts[0])
            if a is None:
                return AV({o}) if keep_unbound else FRESH
            for p in parts[1:]:
                a = attr_of(a, p, self.prog)
            return a
        own, elems = set(), set()
        nd_ok = True
        for o in v.own:
            r = resolve(o)
            own |= r.own
            elems |= r.elems
        for o in v.elems - v.own:
            r = resolve(o)
            elems |= r.all()
        fields = None
        if v.fields is not None:
            fields = {k: self.subst(x, actual, keep_unbound) for k, x in v.fields.items()}
        return AV(own, own | elems, fields, v.cls, v.nd and nd_ok, v.seq, v.ext)

    def call_repo(self, e, f: FuncInfo, recv, args, kws, env, generic):
        s = self.prog.summary(f)
        if s is None:
            return generic([recv] if recv is not None else ())
        actual = self.bind(f, recv, args, kws)
        # private helper: its in-place operations on parameter memory are judged here, with the actuals
        if f.private and f.qual in self.prog.private_called:
            seen = set()
            for (o, kind, line, target) in s.mutates:
                root = o.split(".")[0]
                if (o, kind) in seen:
                    continue
                seen.add((o, kind))
                a = actual.get(root)
                if a is None:
                    continue
                r = a
                for p in o.split(".")[1:]:
                    r = attr_of(r, p, self.prog)
                fake = AV(r.own)
                self.record_callsite(e, f, o, kind, fake)
        return self.subst(s.ret, actual)

    def record_callsite(self, e, f, origin, kind, v):
        key = (id(e), "call:" + f.qual + ":" + origin + ":" + kind)
        origins = set(v.own)
        ex = self.exempt_origins(origins)
        live = origins - ex
        if not origins:
            status = "fresh"
        elif not live:
            status = "config"
        elif self.f.private and self.f.qual in self.prog.private_called:
            status = "deferred"
        else:
            status = "view"
        self.sites[key] = Site(self.rel, e.lineno, self.f.qual, f"call->{f.qual}({origin}):{kind}",
                               f.qual, live or origins, status,
                               f"{f.qual} performs {kind} on its parameter {origin}")

    def construct(self, e, clsname, args, kws, env):
        ci = self.prog.find_class(clsname)
        if ci is None:
            s = set()
            for v in list(args) + list(kws.values()):
                s |= v.all()
            return AV(s)
        fields = {}
        if "__init__" in ci.methods:
            init = ci.methods["__init__"]
            s = self.prog.summary(init)
            actual = self.bind(init, AV(frozenset(), cls=clsname), args, kws)
            if s is not None and s.self_fields is not None:
                fields = {k: self.subst(v, actual) for k, v in s.self_fields.items()}
        elif ci.dataclass:
            names = [n for n, _ in ci.fields]
            for n, a in zip(names, args):
                fields[n] = a
            for k, v in kws.items():
                if k in names:
                    fields[k] = v
            for n, ann in ci.fields:
                fields.setdefault(n, FRESH)
                if self.prog.field_is_nd(clsname, n) and not fields[n].nd:
                    x = fields[n]
                    fields[n] = AV(x.own, x.elems, x.fields, x.cls, True, x.seq, x.ext)
            if "__post_init__" in ci.methods:
                pi = ci.methods["__post_init__"]
                s = self.prog.summary(pi)
                if s is not None and s.self_fields:
                    actual = {pi.params[0]: AV(frozenset(), frozenset(), fields, clsname)}
                    for k, v in s.self_fields.items():
                        fields[k] = self.subst(v, actual)
        else:
            # plain class without __init__ (enum, namespace): nothing is stored
            s = set()
            for v in list(args) + list(kws.values()):
                s |= v.all()
            return AV(frozenset(), s)
        return AV(frozenset(), frozenset(), fields, clsname)


def own_nodes(fn):
    """nodes of a function body that belong to the function itself (not to nested functions, lambdas, classes)"""
    out = []
    stack = list(ast.iter_child_nodes(fn))
    while stack:
        n = stack.pop()
        out.append(n)
        if isinstance(n, (ast.FunctionDef, ast.AsyncFunctionDef, ast.Lambda, ast.ClassDef)):
            continue
        stack.extend(ast.iter_child_nodes(n))
    return out


def _text(n) -> str:
    try:
        return ast.unparse(n)
    except Exception:
        return type(n).__name__


# ------------------------------------------------------------------------------------------------
# class facts used by reports


def constructor_aliasing(prog: Program, clsname: str):
    """field -> True when the constructor stores the argument itself (no copy)."""
    ci = prog.find_class(clsname)
    if ci is None:
        raise AnalysisError(f"class {clsname} not found")
    probe = FuncAnalyser(prog, next(iter(prog.all_functions())))
    names = [n for n, _ in ci.fields]
    args = [AV({"arg_" + n}) for n in names]
    call = ast.Call(func=ast.Name(id=clsname, ctx=ast.Load()), args=[], keywords=[])
    obj = probe.construct(call, clsname, args, {}, {})
    return {n: ("arg_" + n) in obj.fields[n].own for n in names if obj.fields and n in obj.fields}
